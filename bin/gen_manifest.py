#!/usr/bin/env python3
"""Regenerate MANIFEST.json from bin/propdefs.py (claimed checks) and properties.jsonl
(everything else goes to not_applicable with its reason from NOT_CLAIMED)."""
import json
import os
import sys

VERIF = os.path.dirname(os.path.dirname(os.path.abspath(__file__)))
sys.path.insert(0, os.path.join(VERIF, "bin"))
from propdefs import PROPS, NOT_CLAIMED, HOOK_COMMITS  # noqa: E402

ids = [json.loads(l)["id"] for l in open(os.path.join(VERIF, "properties.jsonl"))]
# only properties the integrator has validated end-to-end are claimed
claimed = set(open(os.path.join(VERIF, "bin", "claimed.txt")).read().split())
PROPS = {k: v for k, v in PROPS.items() if k in claimed}
checks = []
for pid in ids:
    if pid not in PROPS:
        continue
    s = PROPS[pid]
    checks.append({
        "property_id": pid,
        "quick_cmd": f"bin/check {pid} --tier quick",
        "thorough_cmd": f"bin/check {pid} --tier thorough",
        "evidence_file": f"evidence/{pid}.json",
        "replay_cmd_template": f"bin/check {pid} --replay {{path}}",
        "engine": "coq+harness",
        "level_claimed": {"category": s.get("level", "proof"), "text": s["level_text"], "design_ref": s.get("design_ref", f"DESIGN.md §5 {pid}")},
        "level_note": s["level_note"],
        "technique": s.get("technique", "machine-checked proof in Coq over a hand-written executable model, tied to the code by a correspondence check (model evaluated in Coq on the implementation's cases)"),
    })
na = [{"property_id": pid, "reason": NOT_CLAIMED.get(pid, "check not built yet in this development (plan: DESIGN.md §5); not claimed until its Coq model, theorems and correspondence run exist")}
      for pid in ids if pid not in PROPS]
m = {
    "version": 1,
    "setup_cmd": "bin/check --setup",
    "hooks": {
        "guard": "vibesql_verif",
        "enable": "RUSTFLAGS=\"--cfg vibesql_verif\" (set by bin/check for every harness build; build output goes to /verif/.cache/target, never into /repo)",
        "baseline_off_cmd": "cd /repo && RUSTC_WRAPPER= cargo test --workspace --no-fail-fast --offline",
        "source_commits": HOOK_COMMITS,
        "add_only": True,
    },
    "engines": [
        {"name": "coq", "path": "coq/", "serves_properties": sorted(PROPS), "kind_free_text": "Coq 8.16.1 development: hand-written executable models, theorems pinned in theories/Props, constants regenerated from /repo by bin/extract_consts.py"},
        {"name": "harness", "path": "harness/", "serves_properties": sorted(PROPS), "kind_free_text": "Rust correspondence harness linked against /repo's working tree; writes case files that are evaluated against the model inside Coq (vm_compute) and evaluates each property's own oracle on the implementation"},
    ],
    "checks": checks,
    "not_applicable": na,
    "notes": "One entry point: bin/check <id> --tier quick|thorough [--replay file]. Known findings: KNOWN_FINDINGS.txt. Design: DESIGN.md.",
}
json.dump(m, open(os.path.join(VERIF, "MANIFEST.json"), "w"), indent=1)
print(f"MANIFEST.json: {len(checks)} checks, {len(na)} not claimed")
