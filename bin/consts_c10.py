# C10/C15 constants: the append-mode threshold (crates/vibesql-storage/src/table/append_mode.rs) and the
# row count from which CREATE INDEX switches to the disk-backed backend (database/indexes/index_metadata.rs)
def c10_consts(out):
    src = read("crates/vibesql-storage/src/table/append_mode.rs")
    m = need(re.search(r"const APPEND_MODE_THRESHOLD:\s*usize\s*=\s*([0-9_]+)\s*;", src), "APPEND_MODE_THRESHOLD in append_mode.rs")
    out.append("(* crates/vibesql-storage/src/table/append_mode.rs: APPEND_MODE_THRESHOLD *)")
    out.append(f"Definition c10_append_mode_threshold : Z := {num(m.group(1))}.")
    need(re.search(r"if pk_values > last_pk\.as_slice\(\)", src), "`pk_values > last_pk` comparison in AppendModeTracker::update")
    need(re.search(r"self\.append_streak >= APPEND_MODE_THRESHOLD", src), "`append_streak >= APPEND_MODE_THRESHOLD` in AppendModeTracker::update")
    src2 = read("crates/vibesql-storage/src/database/indexes/index_metadata.rs")
    m = need(re.search(r"#\[cfg\(not\(test\)\)\]\s*pub\(super\) const DISK_BACKED_THRESHOLD:\s*usize\s*=\s*([0-9_]+)\s*;", src2),
             "DISK_BACKED_THRESHOLD in index_metadata.rs")
    out.append("(* crates/vibesql-storage/src/database/indexes/index_metadata.rs: DISK_BACKED_THRESHOLD *)")
    out.append(f"Definition c10_disk_backed_threshold : Z := {num(m.group(1))}.")


EXTRACTORS = [c10_consts]
