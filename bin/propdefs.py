"""Per-property configuration of bin/check: one file per property in bin/propdefs.d/<ID>.py defining SPEC.

SPEC keys
  props        : the pinned-statement file under coq/ (only Require, Theorem .. Proof. exact <lemma>. Qed., Print Assumptions)
  run_files    : executable runner .v files the model shards import (built together with props)
  bin          : harness binary name (harness/src/bin/<bin>.rs)
  allow_axioms : stdlib-declared axioms the property's theorems may depend on (exact names as Print Assumptions prints them)
  level        : MANIFEST level_claimed.category (default "proof")
  level_text, level_note, technique (optional), explanation, assumptions, trusted (extra trusted-base lines)
  args         : extra --key value arguments for the harness binary
  coq_timeout, run_timeout : seconds
"""
import glob
import os

PROPS = {}
_here = os.path.dirname(os.path.abspath(__file__))
for _p in sorted(glob.glob(os.path.join(_here, "propdefs.d", "*.py"))):
    _ns = {}
    with open(_p) as _f:
        exec(compile(_f.read(), _p, "exec"), _ns)
    PROPS[os.path.basename(_p)[:-3]] = _ns["SPEC"]

# properties not claimed, with the reason (everything not in PROPS and not listed here gets the default text)
NOT_CLAIMED = {}

# commits in /repo that add cfg-guarded hooks
HOOK_COMMITS = ["f922b341", "b6f96d7c"]
