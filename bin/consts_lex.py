# Extra constant extractor for the lexer model (C23; reused by C19/C25/C30/C31).
# Loaded by bin/extract_consts.py (exec'd with read/need/num/ExtractError/re in scope).
#
# crates/vibesql-parser/src/lexer/keywords.rs: fn map_keyword is one literal `match` from the
# upper-cased identifier text to Token::Keyword(Keyword::<Variant>) with the default arm
# `_ => Token::Identifier(upper_text)`.  The table is re-read on every run; any arm of another shape
# makes the extraction fail closed.


def _codes(s):
    return "[" + ";".join(str(ord(c)) for c in s) + "]"


def lexer_keyword_table(out):
    src = read("crates/vibesql-parser/src/lexer/keywords.rs")
    m = need(re.search(r"fn map_keyword\(upper_text: String\) -> Token \{\s*match upper_text\.as_str\(\) \{(.*?)\n    \}\s*\n\}", src, re.S),
             "fn map_keyword(upper_text: String) -> Token { match upper_text.as_str() {..} }")
    body = m.group(1)
    entries = []
    default_seen = False
    for raw in body.splitlines():
        line = raw.strip()
        if not line or line.startswith("//"):
            continue
        mm = re.fullmatch(r'"([^"\\]*)"\s*=>\s*Token::Keyword\(Keyword::(\w+)\),', line)
        if mm:
            if default_seen:
                raise ExtractError("map_keyword: arm after the default arm")
            text = mm.group(1)
            if not text or any(ord(c) > 126 or ord(c) < 33 for c in text):
                raise ExtractError(f"map_keyword: unexpected keyword text {text!r}")
            entries.append((text, mm.group(2)))
            continue
        if re.fullmatch(r"_\s*=>\s*Token::Identifier\(upper_text\),?(\s*//.*)?", line):
            default_seen = True
            continue
        raise ExtractError(f"map_keyword: arm of unknown shape: {line[:80]}")
    if not default_seen:
        raise ExtractError("map_keyword: default arm `_ => Token::Identifier(upper_text)` not found")
    if len(entries) < 50:
        raise ExtractError(f"map_keyword: only {len(entries)} keyword arms found")
    seen = set()
    for t, _ in entries:
        if t in seen:
            raise ExtractError(f"map_keyword: duplicate arm {t}")
        seen.add(t)
    out.append("(* crates/vibesql-parser/src/lexer/keywords.rs: fn map_keyword -- (upper-case text, Debug name of the")
    out.append("   Keyword variant), both as code point lists, in source order *)")
    out.append("Definition lex_keyword_table : list (list Z * list Z) := [")
    out.append(";\n".join(f"  ({_codes(t)}, {_codes(v)}) (* {t} => {v} *)" for t, v in entries))
    out.append("].")
    out.append(f"Definition lex_keyword_count : Z := {len(entries)}.")


EXTRACTORS = [lexer_keyword_table]
