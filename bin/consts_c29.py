# Constant extractor for C29 (PasswordStore): re-reads from crates/vibesql-server/src/auth/password.rs
#   * the literal prefixes / separator characters the dispatch depends on ("$argon2", "{MD5}", "md5", '#', ':',
#     the splitn limit), so that Store/AuthLaws.v's [consts_tie] lemma breaks if the model's literals drift;
#   * whether verify_md5 falls back to the whole response when it does not start with "md5"
#     (`strip_prefix("md5").unwrap_or(password_hash)` = lenient, the C29 known finding) or requires the
#     prefix (`strip_prefix("md5") == Some(expected..)`, the proposed repair fixes/C29-*.patch).
# Loaded by bin/extract_consts.py (names read/need/num/ExtractError/re are injected).  Every pattern fails closed.

C29_SRC = "crates/vibesql-server/src/auth/password.rs"


def _zlist(s):
    return "[" + "; ".join(str(ord(c)) for c in s) + "]"


def _fn_body(src, name):
    m = need(re.search(r"pub fn " + name + r"\b.*?\n    \}\n", src, re.S), f"pub fn {name} in password.rs")
    return m.group(0)


def c29_password_consts(out):
    src = read(C29_SRC)
    # only the non-test part of the file
    code = src.split("#[cfg(test)]")[0]
    load = _fn_body(code, "load_from_file")
    vclear = _fn_body(code, "verify_cleartext")
    vmd5 = _fn_body(code, "verify_md5")

    # load_from_file: comment character, separator and splitn limit, storage-format prefixes (in dispatch order)
    m = need(re.search(r"line\.is_empty\(\)\s*\|\|\s*line\.starts_with\('(.)'\)", load), "comment test in load_from_file")
    comment = m.group(1)
    m = need(re.search(r"line\.splitn\((\d+),\s*'(.)'\)", load), "splitn in load_from_file")
    limit, sep = int(m.group(1)), m.group(2)
    need(re.search(r"let line = line\.trim\(\);", load), "line.trim() in load_from_file")
    need(re.search(r"parts\[0\]\.trim\(\)", load), "username trim in load_from_file")
    need(re.search(r"parts\[1\]\.trim\(\)", load), "password trim in load_from_file")
    pref = re.findall(r"password_value\.starts_with\(\"([^\"]*)\"\)", load)
    if len(pref) != 2:
        raise ExtractError(f"load_from_file: expected two starts_with dispatch tests, found {pref}")
    # verify_cleartext: same two prefixes, same order
    pref2 = re.findall(r"stored\.starts_with\(\"([^\"]*)\"\)", vclear)
    if pref2 != pref:
        raise ExtractError(f"verify_cleartext dispatches on {pref2}, load_from_file on {pref}")
    # verify_md5: storage prefix, response prefix, leniency
    m = need(re.search(r"stored\.strip_prefix\(\"([^\"]*)\"\)", vmd5), "stored.strip_prefix in verify_md5")
    store_pref = m.group(1)
    if store_pref != pref[1]:
        raise ExtractError(f"verify_md5 strips {store_pref!r}, load_from_file stores {pref[1]!r}")
    m = need(re.search(r"password_hash\s*\.strip_prefix\(\"([^\"]*)\"\)", vmd5), "password_hash.strip_prefix in verify_md5")
    resp_pref = m.group(1)
    if re.search(r"password_hash\s*\.strip_prefix\(\"[^\"]*\"\)\s*\.unwrap_or\(password_hash\)", vmd5):
        lenient = "true"
    elif re.search(r"password_hash\s*\.strip_prefix\(\"[^\"]*\"\)\s*==\s*Some\(", vmd5):
        lenient = "false"
    else:
        raise ExtractError("verify_md5: neither `.strip_prefix(..).unwrap_or(password_hash)` nor `.strip_prefix(..) == Some(..)`")

    out.append("(* crates/vibesql-server/src/auth/password.rs: literals of load_from_file / verify_cleartext / verify_md5 *)")
    out.append(f"Definition c29_argon2_prefix : list Z := {_zlist(pref[0])}.")
    out.append(f"Definition c29_md5_store_prefix : list Z := {_zlist(pref[1])}.")
    out.append(f"Definition c29_md5_resp_prefix : list Z := {_zlist(resp_pref)}.")
    out.append(f"Definition c29_comment_char : Z := {ord(comment)}.")
    out.append(f"Definition c29_separator_char : Z := {ord(sep)}.")
    out.append(f"Definition c29_splitn_limit : Z := {limit}.")
    out.append("(* verify_md5: true = a response without the \"md5\" prefix is compared as it is (unwrap_or) *)")
    out.append(f"Definition c29_md5_lenient : bool := {lenient}.")


EXTRACTORS = [c29_password_consts]
