# C17 constants: page size and the minimum B+ tree degree (crates/vibesql-storage/src/{page,btree}/mod.rs)
def c17_consts(out):
    src = read("crates/vibesql-storage/src/page/mod.rs")
    m = need(re.search(r"pub const PAGE_SIZE:\s*usize\s*=\s*([0-9_]+)\s*;", src), "PAGE_SIZE in page/mod.rs")
    out.append("(* crates/vibesql-storage/src/page/mod.rs: PAGE_SIZE *)")
    out.append(f"Definition c17_page_size : Z := {num(m.group(1))}.")
    src2 = read("crates/vibesql-storage/src/btree/mod.rs")
    m = need(re.search(r"fn calculate_degree\(.*?\n\}", src2, re.S), "fn calculate_degree in btree/mod.rs")
    body = m.group(0)
    mm = need(re.search(r"degree\.max\(\s*([0-9_]+)\s*\)", body), "degree.max(..) in calculate_degree")
    out.append("(* crates/vibesql-storage/src/btree/mod.rs: calculate_degree, minimum degree *)")
    out.append(f"Definition c17_min_degree : Z := {num(mm.group(1))}.")


EXTRACTORS = [c17_consts]
