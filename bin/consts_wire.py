# Constant extractor for C27/C28 (wire protocol): re-reads every literal tag byte, fixed frame length,
# authentication sub-code, length-formula constant and header size from
# crates/vibesql-server/src/protocol/messages.rs.  Loaded by bin/extract_consts.py (names read/need/num/
# ExtractError/re are injected).  Every pattern fails closed.

WIRE_SRC = "crates/vibesql-server/src/protocol/messages.rs"

BACKEND_VARIANTS = ["AuthenticationOk", "AuthenticationCleartextPassword", "AuthenticationMD5Password",
                    "ParameterStatus", "BackendKeyData", "ReadyForQuery", "RowDescription", "DataRow",
                    "CommandComplete", "ErrorResponse", "NoticeResponse", "EmptyQueryResponse"]
FIXED_LEN = ["AuthenticationOk", "AuthenticationCleartextPassword", "AuthenticationMD5Password",
             "BackendKeyData", "ReadyForQuery", "EmptyQueryResponse"]
AUTH = ["AuthenticationOk", "AuthenticationCleartextPassword", "AuthenticationMD5Password"]


def _byte(lit):
    # b'Q' or b'\n' style literal -> int
    m = re.fullmatch(r"b'(\\?.)'", lit)
    if not m:
        raise ExtractError(f"not a byte literal: {lit}")
    s = m.group(1)
    if len(s) == 1:
        return ord(s)
    esc = {"\\n": 10, "\\r": 13, "\\t": 9, "\\0": 0, "\\\\": 92, "\\'": 39}
    if s in esc:
        return esc[s]
    raise ExtractError(f"unsupported escape in {lit}")


def _const_sum(expr, what):
    """sum of the integer literals of `a + x.len() + 1 + 18`-style expressions (all terms added;
    every non-literal term must be a `.len()` call)."""
    total = 0
    nlen = 0
    for term in expr.split("+"):
        t = term.strip()
        if re.fullmatch(r"\d[\d_]*", t):
            total += num(t)
        elif re.fullmatch(r"[\w.]+\.len\(\)", t):
            nlen += 1
        else:
            raise ExtractError(f"{what}: unexpected term {t!r} in length formula {expr!r}")
    return total, nlen


def _fn_body(src, header_re, what):
    m = need(re.search(header_re, src), what)
    i = src.index("{", m.end() - 1)
    depth = 0
    for j in range(i, len(src)):
        if src[j] == "{":
            depth += 1
        elif src[j] == "}":
            depth -= 1
            if depth == 0:
                return src[i + 1:j]
    raise ExtractError(f"unbalanced braces after {what}")


def wire_consts(out):
    src = read(WIRE_SRC)
    # strip line comments so `// ...` text never matches
    src_nc = re.sub(r"//[^\n]*", "", src)
    out.append(f"(* {WIRE_SRC}: BackendMessage::encode *)")
    enc = _fn_body(src_nc, r"pub fn encode\(&self, buf: &mut BytesMut\)\s*\{", "fn BackendMessage::encode")
    # split into arms at `BackendMessage::Variant`
    pieces = re.split(r"BackendMessage::(\w+)", enc)
    arms = {}
    for k in range(1, len(pieces) - 1, 2):
        arms.setdefault(pieces[k], pieces[k + 1])
    for v in BACKEND_VARIANTS:
        if v not in arms:
            raise ExtractError(f"encode: no arm for BackendMessage::{v}")
    if sorted(arms) != sorted(BACKEND_VARIANTS):
        raise ExtractError(f"encode: variant set changed: {sorted(arms)}")
    for v in BACKEND_VARIANTS:
        body = arms[v]
        # the first statement of every arm writes the tag byte
        m = need(re.search(r"=>\s*\{\s*buf\.put_u8\((b'\\?.')\)\s*;", body), f"encode/{v}: leading put_u8(tag)")
        out.append(f"Definition wire_tag_{v} : Z := {_byte(m.group(1))}.")
        rest = body[m.end():]
        if v in FIXED_LEN:
            m2 = need(re.match(r"\s*buf\.put_i32\((\d[\d_]*)\)\s*;", rest), f"encode/{v}: literal put_i32(len) after the tag")
            out.append(f"Definition wire_fixed_len_{v} : Z := {num(m2.group(1))}.")
            rest2 = rest[m2.end():]
            if v in AUTH:
                m3 = need(re.match(r"\s*buf\.put_i32\((\d[\d_]*)\)\s*;", rest2), f"encode/{v}: authentication sub-code")
                out.append(f"Definition wire_auth_code_{v} : Z := {num(m3.group(1))}.")
    # length formulas
    m = need(re.search(r"let len = ([^;]+);", arms["ParameterStatus"]), "encode/ParameterStatus: let len = ...")
    c, n = _const_sum(m.group(1), "ParameterStatus")
    if n != 2:
        raise ExtractError("ParameterStatus length formula must mention two .len() terms")
    out.append(f"Definition wire_len_base_ParameterStatus : Z := {c}.")
    m = need(re.search(r"let len = ([^;]+);", arms["CommandComplete"]), "encode/CommandComplete: let len = ...")
    c, n = _const_sum(m.group(1), "CommandComplete")
    if n != 1:
        raise ExtractError("CommandComplete length formula must mention one .len() term")
    out.append(f"Definition wire_len_base_CommandComplete : Z := {c}.")
    m = need(re.search(r"let mut len = ([^;]+);", arms["RowDescription"]), "encode/RowDescription: let mut len = ...")
    c, n = _const_sum(m.group(1), "RowDescription base")
    if n != 0:
        raise ExtractError("RowDescription base length must be constant")
    out.append(f"Definition wire_len_base_RowDescription : Z := {c}.")
    m = need(re.search(r"len \+= ([^;]+);", arms["RowDescription"]), "encode/RowDescription: len += ...")
    c, n = _const_sum(m.group(1), "RowDescription per field")
    if n != 1:
        raise ExtractError("RowDescription per-field length must mention one .len() term")
    out.append(f"Definition wire_len_per_field_RowDescription : Z := {c}.")
    m = need(re.search(r"let mut len = ([^;]+);", arms["DataRow"]), "encode/DataRow: let mut len = ...")
    c, n = _const_sum(m.group(1), "DataRow base")
    if n != 0:
        raise ExtractError("DataRow base length must be constant")
    out.append(f"Definition wire_len_base_DataRow : Z := {c}.")
    adds = re.findall(r"len \+= ([^;]+);", arms["DataRow"])
    if len(adds) != 2:
        raise ExtractError(f"encode/DataRow: expected two `len +=` statements, found {len(adds)}")
    c, n = _const_sum(adds[0], "DataRow per value")
    if n != 0:
        raise ExtractError("DataRow per-value header must be constant")
    out.append(f"Definition wire_len_per_value_DataRow : Z := {c}.")
    c, n = _const_sum(adds[1], "DataRow value bytes")
    if (c, n) != (0, 1):
        raise ExtractError("DataRow: second `len +=` must be exactly v.len()")
    m = need(re.search(r"None\s*=>\s*\{\s*buf\.put_i32\((-?\d+)\)", arms["DataRow"]), "encode/DataRow: NULL marker")
    out.append(f"Definition wire_null_marker : Z := ({int(m.group(1))}).")
    out.append(f"(* {WIRE_SRC}: encode_notice_or_error *)")
    noe = _fn_body(src_nc, r"fn encode_notice_or_error\([^)]*\)\s*\{", "fn encode_notice_or_error")
    m = need(re.search(r"let mut len = ([^;]+);", noe), "encode_notice_or_error: let mut len = ...")
    c, n = _const_sum(m.group(1), "notice/error base")
    if n != 0:
        raise ExtractError("notice/error base length must be constant")
    out.append(f"Definition wire_len_base_NoticeOrError : Z := {c}.")
    m = need(re.search(r"len \+= ([^;]+);", noe), "encode_notice_or_error: len += ...")
    c, n = _const_sum(m.group(1), "notice/error per field")
    if n != 1:
        raise ExtractError("notice/error per-field length must mention one .len() term")
    out.append(f"Definition wire_len_per_field_NoticeOrError : Z := {c}.")
    m = need(re.search(r"buf\.put_u8\((\d+)\)\s*;\s*$", noe.strip()), "encode_notice_or_error: trailing terminator put_u8")
    out.append(f"Definition wire_error_terminator : Z := {int(m.group(1))}.")
    # put_cstring terminator
    pc = _fn_body(src_nc, r"fn put_cstring\([^)]*\)\s*\{", "fn put_cstring")
    m = need(re.search(r"buf\.put_slice\(s\.as_bytes\(\)\);\s*buf\.put_u8\((\d+)\);", pc), "put_cstring: slice then terminator")
    out.append(f"Definition wire_cstring_terminator : Z := {int(m.group(1))}.")
    # TransactionStatus::as_byte
    out.append(f"(* {WIRE_SRC}: TransactionStatus::as_byte *)")
    ab = _fn_body(src_nc, r"pub fn as_byte\(&self\) -> u8\s*\{", "fn TransactionStatus::as_byte")
    for v in ["Idle", "InTransaction", "FailedTransaction"]:
        m = need(re.search(r"TransactionStatus::" + v + r"\s*=>\s*(b'\\?.')", ab), f"as_byte arm {v}")
        out.append(f"Definition wire_status_{v} : Z := {_byte(m.group(1))}.")
    # FrontendMessage::decode
    out.append(f"(* {WIRE_SRC}: FrontendMessage::decode / decode_startup *)")
    dec = _fn_body(src_nc, r"pub fn decode\(buf: &mut BytesMut\)[^{]*\{", "fn FrontendMessage::decode")
    m = need(re.search(r"if buf\.len\(\) < (\d+)\s*\{\s*return Ok\(None\);", dec), "decode: header size check")
    out.append(f"Definition wire_header_min : Z := {int(m.group(1))}.")
    mm = need(re.search(r"match msg_type \{(.*)\}\s*$", dec.strip(), re.S), "decode: match msg_type")
    arms_d = re.findall(r"(b'\\?.')\s*=>\s*\{(.*?)Ok\(Some\(FrontendMessage::(\w+)", mm.group(1), re.S)
    got = {name: _byte(lit) for (lit, _, name) in arms_d}
    for name in ["Query", "Password", "Terminate"]:
        if name not in got:
            raise ExtractError(f"decode: no arm producing FrontendMessage::{name}")
        out.append(f"Definition wire_ftag_{name} : Z := {got[name]}.")
    if len(arms_d) != 3:
        raise ExtractError(f"decode: expected 3 message arms, found {len(arms_d)}")
    ds = _fn_body(src_nc, r"pub fn decode_startup\(buf: &mut BytesMut\)[^{]*\{", "fn FrontendMessage::decode_startup")
    m = need(re.search(r"if buf\.len\(\) < (\d+)\s*\{\s*return Ok\(None\);", ds), "decode_startup: header size check")
    out.append(f"Definition wire_startup_header_min : Z := {int(m.group(1))}.")
    m = need(re.search(r"if protocol_version == (\d[\d_]*)\s*\{\s*return Ok\(Some\(FrontendMessage::SSLRequest\)\)", ds),
             "decode_startup: SSL request code")
    out.append(f"Definition wire_ssl_request_code : Z := {num(m.group(1))}.")


EXTRACTORS = [wire_consts]
