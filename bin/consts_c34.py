# C34/C11 constants: the trigger recursion guard (crates/vibesql-executor/src/trigger_execution.rs) and the
# source-order facts the DML model (coq/theories/Store/Atomic.v) transcribes.  Fails closed when a step moved.
def _order(src, what, pats):
    """every pattern must occur, each first occurrence after the previous one's"""
    pos = -1
    for p in pats:
        m = need(re.compile(p, re.S).search(src, pos + 1), f"{what}: `{p}` after offset {pos}")
        pos = m.start()


def c34_consts(out):
    src = read("crates/vibesql-executor/src/trigger_execution.rs")
    m = need(re.search(r"const MAX_TRIGGER_RECURSION_DEPTH:\s*usize\s*=\s*([0-9_]+)\s*;", src),
             "MAX_TRIGGER_RECURSION_DEPTH in trigger_execution.rs")
    out.append("(* crates/vibesql-executor/src/trigger_execution.rs: MAX_TRIGGER_RECURSION_DEPTH, RecursionGuard::new *)")
    out.append(f"Definition c34_max_trigger_recursion_depth : Z := {num(m.group(1))}.")
    g = need(re.search(r"if current\s*(>=|>)\s*MAX_TRIGGER_RECURSION_DEPTH", src), "guard comparison in RecursionGuard::new")
    # number of nested firing levels the guard lets through: `>=` -> MAX, `>` -> MAX + 1
    out.append(f"Definition c34_guard_levels : Z := {num(m.group(1)) + (0 if g.group(1) == '>=' else 1)}.")
    need(re.search(r"depth\.set\(current \+ 1\)", src), "depth.set(current + 1) in RecursionGuard::new")
    # WHEN: Boolean(b) => b, Null => false, anything else an error; NEW preferred over OLD as the base row
    need(re.search(r"SqlValue::Boolean\(b\) => Ok\(b\),\s*vibesql_types::SqlValue::Null => Ok\(false\)", src),
         "WHEN result conversion in evaluate_when_condition")
    need(re.search(r"let row = new_row\.or\(old_row\)", src), "base row of WHEN = new_row.or(old_row)")
    need(re.search(r"filter\(\|trigger\| trigger\.timing == timing && trigger\.enabled\)", src), "find_triggers filter")
    # INSERT: validate all rows -> BEFORE STATEMENT -> (batch | per row: BEFORE, insert, AFTER + single-row undo) -> AFTER STATEMENT
    ins = read("crates/vibesql-executor/src/insert/execution.rs")
    _order(ins, "insert/execution.rs", [
        r"try_bulk_transfer\(", r"validate_row_column_counts\(", r"validator\.validate\(", r"execute_before_statement_triggers\(",
        r"let use_batch_insert", r"insert_rows_batch\(", r"execute_before_triggers\(", r"row_count_before", r"db\.insert_row\(",
        r"execute_after_triggers\(", r"index == target_index", r"execute_after_statement_triggers\("])
    need(re.search(r"if use_batch_insert && validated_rows\.len\(\) > 1", ins), "batch path condition in insert/execution.rs")
    # UPDATE: BEFORE STATEMENT -> select/validate -> cascade check -> all BEFORE ROW -> apply -> all AFTER ROW -> index patch -> AFTER STATEMENT
    upd = read("crates/vibesql-executor/src/update/mod.rs")
    _order(upd, "update/mod.rs", [
        r"execute_before_statement_triggers\(", r"select_rows\(", r"apply_assignments\(", r"validate_row\(",
        r"check_no_child_references\(", r"execute_before_triggers\(", r"update_row_selective\(", r"execute_after_triggers\(",
        r"update_indexes_for_update\(", r"execute_after_statement_triggers\("])
    out.append("(* update/mod.rs: the event the UPDATE executor passes to find_triggers; 0 = Update(None) *)")
    n_none = len(re.findall(r"TriggerEvent::Update\(None\)", upd))
    n_any = len(re.findall(r"TriggerEvent::Update\(", upd))
    if n_none != n_any or n_none == 0:
        raise ExtractError("update/mod.rs no longer passes TriggerEvent::Update(None) everywhere")
    out.append("Definition c34_update_event_is_update_none : bool := true.")
    # DELETE: truncate fast path -> collect -> BEFORE STATEMENT -> all BEFORE ROW -> child references -> delete -> all AFTER ROW -> AFTER STATEMENT
    dele = read("crates/vibesql-executor/src/delete/executor.rs")
    _order(dele, "delete/executor.rs", [
        r"can_use_truncate\(", r"collect_rows_with_scan\(", r"execute_before_statement_triggers\(", r"execute_before_triggers\(",
        r"check_no_child_references\(database", r"delete_where\(", r"execute_after_triggers\(", r"execute_after_statement_triggers\("])
    cat = read("crates/vibesql-catalog/src/store/advanced/triggers.rs")
    need(re.search(r"trigger\.table_name == table_name && event\.as_ref\(\)\.is_none_or\(\|e\| trigger\.event == \*e\)", cat),
         "get_triggers_for_table compares the whole TriggerEvent")


EXTRACTORS = [c34_consts]
