# C34/C11 constants: the trigger recursion guard (crates/vibesql-executor/src/trigger_execution.rs) and the
# source-order facts the DML model (coq/theories/Store/Atomic.v) transcribes.  Fails closed when a step moved.
def _order(src, what, pats):
    """every pattern must occur, each first occurrence after the previous one's"""
    pos = -1
    for p in pats:
        m = need(re.compile(p, re.S).search(src, pos + 1), f"{what}: `{p}` after offset {pos}")
        pos = m.start()


def c34_consts(out):
    src = read("crates/vibesql-executor/src/trigger_execution.rs")
    m = need(re.search(r"const MAX_TRIGGER_RECURSION_DEPTH:\s*usize\s*=\s*([0-9_]+)\s*;", src),
             "MAX_TRIGGER_RECURSION_DEPTH in trigger_execution.rs")
    out.append("(* crates/vibesql-executor/src/trigger_execution.rs: MAX_TRIGGER_RECURSION_DEPTH, RecursionGuard::new *)")
    out.append(f"Definition c34_max_trigger_recursion_depth : Z := {num(m.group(1))}.")
    g = need(re.search(r"if current\s*(>=|>)\s*MAX_TRIGGER_RECURSION_DEPTH", src), "guard comparison in RecursionGuard::new")
    # number of nested firing levels the guard lets through: `>=` -> MAX, `>` -> MAX + 1
    out.append(f"Definition c34_guard_levels : Z := {num(m.group(1)) + (0 if g.group(1) == '>=' else 1)}.")
    need(re.search(r"depth\.set\(current \+ 1\)", src), "depth.set(current + 1) in RecursionGuard::new")
    # WHEN: Boolean(b) => b, Null => false, anything else an error; NEW preferred over OLD as the base row
    need(re.search(r"SqlValue::Boolean\(b\) => Ok\(b\),\s*vibesql_types::SqlValue::Null => Ok\(false\)", src),
         "WHEN result conversion in evaluate_when_condition")
    need(re.search(r"let row = new_row\.or\(old_row\)\.unwrap_or\(&empty_row\)", src),
         "base row of WHEN = new_row.or(old_row), an empty row for statement-level triggers")
    need(re.search(r"filter\(\|trigger\| trigger\.timing == timing && trigger\.enabled\)", src), "find_triggers filter")
    # INSERT: validate all rows -> BEFORE STATEMENT -> (batch | per row: BEFORE, insert, AFTER + single-row undo) -> AFTER STATEMENT
    ins = read("crates/vibesql-executor/src/insert/execution.rs")
    _order(ins, "insert/execution.rs", [
        r"try_bulk_transfer\(", r"validate_row_column_counts\(", r"validator\.validate\(", r"execute_before_statement_triggers\(",
        r"let use_batch_insert", r"insert_rows_batch\(", r"execute_before_triggers\(", r"row_count_before", r"db\.insert_row\(",
        r"execute_after_triggers\(", r"index == target_index", r"execute_after_statement_triggers\("])
    need(re.search(r"if use_batch_insert && validated_rows\.len\(\) > 1", ins), "batch path condition in insert/execution.rs")
    # UPDATE: BEFORE STATEMENT -> select/validate -> cascade check -> all BEFORE ROW -> apply -> all AFTER ROW -> index patch -> AFTER STATEMENT
    upd = read("crates/vibesql-executor/src/update/mod.rs")
    _order(upd, "update/mod.rs", [
        r"execute_before_statement_triggers\(", r"select_rows\(", r"apply_assignments\(", r"validate_row\(",
        r"check_no_child_references\(", r"execute_before_triggers\(", r"update_row_selective\(", r"execute_after_triggers\(",
        r"update_indexes_for_update\(", r"execute_after_statement_triggers\("])
    out.append("(* update/mod.rs: the event the UPDATE executor passes to find_triggers = Update(Some(assigned columns)) *)")
    need(re.search(r"let update_event = vibesql_ast::TriggerEvent::Update\(Some\(\s*stmt\.assignments\.iter\(\)\.map\(\|a\| a\.column\.clone\(\)\)\.collect\(\),?\s*\)\);", upd),
         "update_event = Update(Some(assigned columns)) in update/mod.rs")
    if len(re.findall(r"update_event\.clone\(\)", upd)) != 4 or re.search(r"TriggerEvent::Update\(None\)", upd):
        raise ExtractError("update/mod.rs no longer passes update_event to its four trigger firing calls")
    out.append("Definition c34_update_event_is_assigned_columns : bool := true.")
    # DELETE: truncate fast path -> collect -> BEFORE STATEMENT -> all BEFORE ROW -> child references -> delete -> all AFTER ROW -> AFTER STATEMENT
    dele = read("crates/vibesql-executor/src/delete/executor.rs")
    _order(dele, "delete/executor.rs", [
        r"can_use_truncate\(", r"collect_rows_with_scan\(", r"execute_before_statement_triggers\(", r"execute_before_triggers\(",
        r"check_no_child_references\(database", r"delete_where\(", r"execute_after_triggers\(", r"execute_after_statement_triggers\("])
    cat = read("crates/vibesql-catalog/src/store/advanced/triggers.rs")
    # get_triggers_for_table: table name, then UPDATE events match by column overlap (a missing list on either side
    # matches everything), every other event by equality
    need(re.search(r"trigger\.table_name == table_name\s*&& event\.as_ref\(\)\.is_none_or\(\|e\| match \(&trigger\.event, e\) \{", cat),
         "get_triggers_for_table filter")
    need(re.search(r"\(vibesql_ast::TriggerEvent::Update\(None\), vibesql_ast::TriggerEvent::Update\(_\)\)\s*\| \(vibesql_ast::TriggerEvent::Update\(_\), vibesql_ast::TriggerEvent::Update\(None\)\) => true,", cat),
         "UPDATE without a column list on either side matches")
    need(re.search(r"=> monitored\.iter\(\)\.any\(\|m\| assigned\.iter\(\)\.any\(\|a\| a\.eq_ignore_ascii_case\(m\)\)\),\s*\(have, want\) => have == want,", cat),
         "UPDATE OF columns match by overlap, other events by equality")
    # bulk transfer: falls back when the destination has INSERT triggers; validates every row before the first insert;
    # no append-mode shortcut in the primary-key check
    bulk = read("crates/vibesql-executor/src/insert/bulk_transfer.rs")
    _order(bulk, "insert/bulk_transfer.rs", [
        r"get_triggers_for_table\(dest_table, Some\(vibesql_ast::TriggerEvent::Insert\)\)", r"check_schema_compatibility\(&dest_schema",
        r"for row_values in &source_rows \{", r"enforce_primary_key_constraint\(", r"for row_values in source_rows \{", r"db\.insert_row\(dest_table"])
    cons = read("crates/vibesql-executor/src/insert/constraints.rs")
    if re.search(r"is_in_append_mode\(\)", cons):
        raise ExtractError("insert/constraints.rs consults the append-mode tracker again")


EXTRACTORS = [c34_consts]
