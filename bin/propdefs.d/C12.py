SPEC = dict(
        props="theories/Props/C12.v",
        run_files=["theories/Run/C12Run.v"],
        bin="c12",
        allow_axioms=[],
        level_text="placeholder",
        level_note="placeholder",
        explanation="placeholder",
        assumptions=[],
        run_timeout=1500,
)
