SPEC = dict(
    props="theories/Props/C01.v",
    run_files=["theories/Run/SemRun.v"],
    bin="c01",
    allow_axioms=[],
    mismatch_is_failing_input=True,
    level_text="Proof + differential: the reference semantics (Sem: values, 3VL, expressions incl. CASE/COALESCE/IN/BETWEEN, joins incl. LEFT JOIN, GROUP BY/HAVING/aggregates incl. DISTINCT, DISTINCT, ORDER BY/LIMIT/OFFSET, UNION/INTERSECT/EXCEPT [ALL], scalar/IN/EXISTS subqueries incl. correlated) is an executable Gallina evaluator; theorems prove the bag laws of its combinators for all inputs (set-operation multiplicities, DISTINCT, ORDER BY = sorted permutation with NULLs last, LIMIT/OFFSET = slice). Agreement of the executor with the reference is the property and is decided by evaluating every generated (database, query) on both: a disagreement IS a failing input (replay = the SQL script).",
    level_note="The forall over databases/queries is closed only for the reference semantics' laws; executor agreement is sampled (3840 cases quick). Trusted: Coq kernel; Sem as the stand-in for 'a reference SQL engine' on the common subset (hand-written from the SQL standard's definitions; not cross-checked against SQLite in this check); the generator/printers in harness/src/qgen.rs (typed, so only queries both sides define are produced: no correlated references inside JOIN ... ON, no cross-type comparisons, integers small enough not to overflow).",
    explanation="Each case: a generated database (1-3 tables, 0-6 rows, NULL densities 0-100%) and a generated typed query printed to SQL for vibesql and to a Gallina term for Sem.Eval.run_query; Coq compares bags (and sort-key sequences under ORDER BY; sub-bag + key sequence under LIMIT).",
    assumptions=["value order for ORDER BY: integers numerically, strings bytewise, NULLs last in both directions (as vibesql documents and C08 states)",
                 "numeric results compared by value: Integer/Bigint/Smallint/Numeric/Double that are integral map to the same reference integer"],
)
