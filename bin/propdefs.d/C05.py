SPEC = dict(
    props="theories/Props/C05.v",
    run_files=["theories/Run/SemRun.v"],
    bin="c05",
    allow_axioms=[],
    mismatch_is_failing_input=True,
    level_text="Proof + metamorphic + differential: ten theorems, for all inputs — comma joins commute up to column order, INNER JOIN ON c is the filter of the cross product, the hash table built by insertion is a multimap, hash join / hash semi join / hash anti join (NULL keys skipped, NULL probe keys kept by the anti join) equal the definitional nested-loop evaluation, x IN S is TRUE iff EXISTS an equal element, NOT IN is exactly the NULL-aware anti join and coincides with NOT EXISTS iff no NULL is involved (with the refuting witness otherwise). The executor is tied on every run by families of equivalent formulations executed on one database (FROM permutations, JOIN vs WHERE, derived-table wrapping, IN vs EXISTS, NOT IN vs the NULL-aware NOT EXISTS) that must return equal bags, and every member is also compared with the reference semantics in Coq.",
    level_note="The join mechanism models (Mech/Join.v) are abstractions of hash_join / hash_semi_join.rs / hash_anti_join.rs and of the repaired subquery_to_join.rs; which algorithm the optimizer picks is not modelled (cost-based), so the executor side is sampled (about 4000 queries per quick run, every tenth database larger to cross the size heuristics). Trusted: Coq kernel, Sem as reference, generator/printers.",
    explanation="Five kinds of families; members printed to SQL, executed, bags compared with each other and with Sem.",
    assumptions=["join keys of one family have one type (the generator is typed); the theorems state comparability explicitly"],
)
