SPEC = dict(
    props="theories/Props/C04.v",
    run_files=["theories/Run/SemRun.v"],
    bin="c04",
    allow_axioms=[],
    mismatch_is_failing_input=True,
    level_text="Proof + direct differential + model differential: the parallel operators (par_iter filter / map / filter_map, par_sort_by, par_chunks hash-table build with ordered merge, merge of partial aggregate accumulators) are modelled over an ARBITRARY chunking of their input - the chunk boundaries are exactly what the work-stealing schedule, the thread count and the thresholds decide - and for every chunking the result is proved to be the sequential result (filter / map / filter_map equal and order-preserving; the merged sorted runs a sorted permutation of the input; every hash probe sees the sequential bucket in order; COUNT / SUM / AVG of merged partial accumulators = the accumulator of the whole input). On every run the same generated workload (960 queries over databases of 0-260 rows per table: filters, joins, GROUP BY, DISTINCT, ORDER BY, LIMIT, set operations, subqueries) is executed twice per query in six child processes - PARALLEL_THRESHOLD max (never parallel) / 0 (always) / 100 / hardware default x RAYON_NUM_THREADS 1 / 2 / 4 / 16 - because the configuration is read once per process; the parent compares every configuration with the never-parallel one (multiset; key sequence under ORDER BY) and the repeated executions with each other, and the never-parallel observation plus every observation that differs from it textually is compared with the reference semantics in Coq.",
    level_note="Thread interleavings inside one run are sampled, not enumerated: the theorem side covers them by quantifying over chunkings, under the assumption (stated, not verified) that rayon's collect / par_sort_by / par_chunks combine partial results in input order, which is their documented contract. The operators' Rust code is not translated. Trusted: Coq kernel, Sem, generator/printers, the child-process protocol.",
    explanation="Per case: one query, 6 configurations x 2 executions; Coq shards via sem_mismatches.",
    assumptions=["rayon's ordered collect / stable par_sort_by / par_chunks contracts",
                 "which rows a LIMIT keeps among ORDER BY ties may differ between configurations; each observation is then checked against the reference on its own"],
)
