SPEC = dict(
    props="theories/Props/C32.v",
    run_files=["theories/Run/C32Run.v"],
    bin="c32",
    allow_axioms=[],
    mismatch_is_failing_input=True,
    level_text="Proof + metamorphic + differential: in the reference semantics a view / CTE reference is given meaning by expansion into its defining query as a derived table; theorems (all inputs): a reference expands to exactly the definition as a derived table, a SELECT over a view equals the SELECT with the definition inlined, expansion leaves view-free queries untouched (so introducing views changes nothing else), the meaning depends on the current database only. That the executor's views and CTEs have this meaning is decided on every run: each generated (definitions, query) runs as CREATE VIEW + query, as WITH ... query and with the definitions inlined as derived tables on the same database, before and after DML on the base tables; the three must return the same bag, and each is compared with the reference semantics of the expanded query in Coq.",
    level_note="The executor's view branch (column names/types derived from the defining SELECT, predicate pushdown into the view scan, CTE materialisation) is not modelled as a mechanism: it is tied differentially (about 7000 executions per quick run; definitions include projections with expressions, filters, aggregates, joins, DISTINCT, empty results, views over views). Trusted: Coq kernel, Sem as reference, generator/printers.",
    explanation="Definitions may reference earlier definitions (view over view); referencing queries join views with tables and other views, filter on view columns, aggregate over them.",
    assumptions=[],
)
