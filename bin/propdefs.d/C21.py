SPEC = dict(
        props="theories/Props/C21.v",
        run_files=["theories/Run/C21Run.v"],
        bin="c21",
        allow_axioms=[],
        level_text="Proof: ten theorems over the SqlValue model quantify over all values (reflexive/symmetric/transitive equality, antisymmetric/transitive/total cmp, cmp=Equal iff == outside the one listed interval class, equal values hash to the same byte sequence). The model is tied to the code on every run: type tags and discriminant order are re-extracted from the Rust source, and ~270k ordered pairs (all pairs of a boundary set plus random sets) are evaluated on the real trait impls and on the model inside Coq; the laws are also asserted directly on the implementation's answers.",
        level_note="Trusted: Coq kernel; the hand transcription of comparison.rs/hash.rs/temporal impls into Value/SqlValue.v (validated by the pair matrix, sampled not exhaustive); f32/f64 modelled by bit pattern with a sign/magnitude key; recording Hasher captures bytes written; Interval fields read via Debug.",
        explanation="Theorems over the SqlValue model (all values, no bound); tie = every ordered pair of a boundary set and of random sets: (==, partial_cmp, cmp, hash bytes) of the real trait impls vs the model inside Coq; the laws themselves are also asserted on the implementation's answers.",
        assumptions=["f_key (sign/magnitude key on the bit pattern) orders non-NaN IEEE floats as f32/f64 partial_cmp does (validated on every run by the pair matrix)",
                     "Interval's private fields are read from its derived Debug output"],
)
