SPEC = dict(
    props="theories/Props/C02.v",
    run_files=["theories/Run/SemRun.v"],
    bin="c02",
    allow_axioms=[],
    mismatch_is_failing_input=True,
    level_text="Proof + twin execution + differential: theorems for all inputs about the repaired index path — the range extracted from `col op literal` is complete (every row on which the comparison is TRUE under 3VL is a candidate, NULL keys included in the key order), hence candidates + WHERE re-check equals the filtered full scan for any WHERE clause that implies the comparison; skipping the re-check is refuted (NULL key inside `col < 10`); the index-order claim is sound exactly under its guard (C08). On every run twin databases are built from one generated DDL/DML history (CREATE [UNIQUE] INDEX single/multi-column/DESC interleaved with multi-row INSERT, UPDATE, DELETE with and without WHERE) — only one twin has the indexes — and a battery of WHERE shapes (=,<,<=,>,>=,<>, flipped operands, BETWEEN, IN, AND, OR, IS NULL, mixed) x ORDER BY (positions/aliases/expressions, ASC/DESC) x LIMIT runs on both: bags and key sequences must agree, final table contents must agree, and the indexed side is also compared with the reference semantics on the final state in Coq.",
    level_note="Mechanism models Mech/IndexScan.v and Mech/IndexOrder.v abstract execute_index_scan (range candidates as a filter over the key order; the BTreeMap and the f64 key normalisation are not modelled); index selection is cost-based and not modelled, so the executor side is sampled (about 5000 executions per quick run). Trusted: Coq kernel, Sem as reference, generator/printers.",
    explanation="A history stops being comparable when a UNIQUE index rejects a statement on the indexed side only (counted in the distribution).",
    assumptions=["prefix-length indexes are not generated (CREATE INDEX (col(n)) syntax not exercised)"],
)
