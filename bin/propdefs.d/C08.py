SPEC = dict(
    props="theories/Props/C08.v",
    run_files=["theories/Run/SemRun.v"],
    bin="c08",
    allow_axioms=[],
    mismatch_is_failing_input=True,
    level_text="Proof + direct oracle + differential: theorems for all inputs — the ORDER BY comparator is total, ORDER BY yields a sorted permutation with NULLs last in both directions, LIMIT n OFFSET m is firstn n (skipn m) with its exact length, DISTINCT keeps each row exactly once, and the repaired index scan's 'already sorted' claim is sound under its guard (no NULL sort key among the fetched rows, one common direction; reversal for DESC), with refuting witnesses for each guard dropped. On every run the executor's sequences are checked directly (sorted by an independent comparator, permutation of the unordered result, LIMIT/OFFSET = slice of the full ordered key sequence at boundary values 0/1/len-1/len/len+1/1000, DISTINCT once), on a plain database and on a twin with an index on the sort/filter columns (single, multi-column, DESC), for plain and GROUP BY queries, ORDER BY written as positions, aliases and expressions; every query is also compared with the reference semantics in Coq.",
    level_note="Mechanism model Mech/IndexOrder.v abstracts execute_index_scan's ordering decision; whether the optimizer takes the index path is cost-based and not modelled, so the executor side is sampled (about 11500 executions per quick run). Trusted: Coq kernel, Sem as reference, generator/printers, the harness's independent comparator.",
    explanation="Per case: unordered / ordered / ordered+LIMIT/OFFSET / DISTINCT+ordered forms of one query on twin databases (with/without index).",
    assumptions=["ties: only the key sequence and the bag are compared, as the property says ('ties aside')"],
)
