SPEC = dict(
    props="theories/Props/C06.v",
    run_files=["theories/Run/SemRun.v"],
    bin="c06",
    allow_axioms=[],
    mismatch_is_failing_input=True,
    level_text="Proof + metamorphic + differential: thirteen theorems prove, for every row list and every predicate function with TRUE/FALSE/NULL values, that the rows are the disjoint union of the p / NOT p / p IS NULL parts and that COUNT, SUM, MIN, MAX, DISTINCT, GROUP BY multiplicities and the count-of-TRUEs form combine accordingly, that the reference evaluator's own WHERE filter (filterM over eval_expr) for w / NOT w / w IS NULL succeeds and yields exactly those three parts whenever w evaluates to TRUE/FALSE/NULL on every row (any fuel, any environment), plus conjunct pushdown soundness and agreement of the two truthiness conventions on boolean-or-NULL values. The executor is tied in two ways on every run: the partition relation is evaluated directly on its answers to the four derived queries in seven forms (plain, DISTINCT, COUNT, SUM/MIN/MAX, GROUP BY, HAVING, count-of-TRUE), and every derived query is also compared with the reference semantics evaluated in Coq.",
    level_note="The theorems are about the reference combinators (Sem); the executor's three predicate evaluators (columnar filter, generic evaluator, pushdown path) are reached by the generated shapes but agreement is sampled (about 9000 queries per quick run). Trusted: Coq kernel, Sem as reference, the generator/printers (qgen.rs).",
    explanation="Per case: database, base query Q (1-2 FROM items incl. joins, optional WHERE), predicate p (comparisons, AND/OR/NOT nests, IS NULL, BETWEEN, IN lists with NULL, CASE, subqueries); derived queries Q, Q AND p, Q AND NOT p, Q AND (p IS NULL) in one of seven forms.",
    assumptions=["predicates are well-typed (boolean-or-NULL valued): the generator is typed; the theorems state this hypothesis explicitly (tv (p r) = true)"],
)
