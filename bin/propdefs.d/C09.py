SPEC = dict(
    props="theories/Props/C09.v",
    run_files=["theories/Run/C09Run.v"],
    bin="c09",
    allow_axioms=[],
    mismatch_is_failing_input=True,
    level_text="Proof + direct oracle + differential: theorems for every database, table, statement and predicate about the reference meaning of DML (Mech/Dml.v, built on the reference evaluator Sem): DELETE WHERE p keeps a permutation-complement of exactly the rows SELECT WHERE p returns and reports their number (delete_exact, delete_keeps_unselected); UPDATE changes position by position exactly the selected rows, each to the SET expressions evaluated simultaneously on the pre-update row, and leaves every other row and the row count unchanged (update_exact); INSERT appends exactly the evaluated rows (insert_exact). On every run the executor is tied to it twice: (1) the property's own oracle on the implementation - pre-state snapshot, SELECT * WHERE p on the pre-state, the statement, post-state snapshot, all other tables unchanged - including predicates outside the reference subset (literals of other numeric types against a PRIMARY KEY, non-boolean truth values, reversed operands); (2) the post-state and count are compared in Coq with run_dml on the same pre-state.",
    level_note="The executor's DML code (PK shortcut, scan loop, two-phase update) is not translated; it is sampled (2520 statements per quick run, 15000 thorough) over tables with and without a PRIMARY KEY, 0..120 rows, histories of statements. Constraint rejections are C10's subject and are avoided by the generator (fresh keys, PK column never SET). Trusted: Coq kernel, Sem/Dml as the reference meaning, generator and printers.",
    explanation="Per case: one INSERT / UPDATE / DELETE on a generated database; the statement, pre- and post-state go to Coq shards evaluated with vm_compute (c09_mismatches).",
    assumptions=["row order inside a table is not compared (bags), as SELECT without ORDER BY does not define it",
                 "type coercion on INSERT is exercised only for INTEGER / VARCHAR / NULL literals"],
)
