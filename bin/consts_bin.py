# Constant extractors for C18/C20 (binary persistence format).  Loaded by bin/extract_consts.py
# (namespace provides read, need, num, ExtractError, re).  Every table the codec proofs depend on is
# re-read from /repo's source; a missing/renamed table raises ExtractError (the check then reports a
# broken tie instead of silently keeping a stale numeral).

BIN_KINDS = ["Null", "Smallint", "Integer", "Bigint", "Unsigned", "Numeric", "Float", "Real", "Double",
             "Character", "Varchar", "Boolean", "Date", "Time", "Timestamp", "Interval"]

FMT = "crates/vibesql-storage/src/persistence/binary/format.rs"
EXPR = "crates/vibesql-storage/src/persistence/binary/expression/mod.rs"
OPS = "crates/vibesql-storage/src/persistence/binary/expression/operators.rs"
TYPES = "crates/vibesql-storage/src/persistence/binary/expression/types.rs"
CATALOG = "crates/vibesql-storage/src/persistence/binary/catalog.rs"


def _zlist(xs):
    return "[" + "; ".join(str(x) for x in xs) + "]"


def bin_format_consts(out):
    src = read(FMT)
    m = need(re.search(r'pub const MAGIC: &\[u8; (\d+)\] = b"([^"]*)";', src), "const MAGIC in format.rs")
    magic = [ord(c) for c in m.group(2)]
    if len(magic) != int(m.group(1)):
        raise ExtractError("MAGIC length does not match its type")
    v = need(re.search(r"pub const VERSION: u8 = (\w+);", src), "const VERSION in format.rs")
    out.append("(* %s: MAGIC, VERSION, header layout *)" % FMT)
    out.append("Definition bin_magic : list Z := %s." % _zlist(magic))
    out.append("Definition bin_version : Z := %d." % num(v.group(1)))
    # write_header: flags byte and reserved bytes
    wh = need(re.search(r"pub fn write_header.*?\n\}", src, re.S), "fn write_header").group(0)
    writes = re.findall(r"\.write_all\(([^)]*)\)", wh)
    if len(writes) != 4 or writes[0].strip() != "MAGIC" or writes[1].strip() != "&[VERSION]":
        raise ExtractError("write_header no longer writes MAGIC, VERSION, flags, reserved: %r" % (writes,))
    fl = need(re.match(r"&\[(\d+)\]$", writes[2].strip()), "write_header flags byte")
    rs = need(re.match(r"&\[(\d+); (\d+)\]$", writes[3].strip()), "write_header reserved bytes")
    out.append("Definition bin_header_tail : list Z := %s." % _zlist([int(fl.group(1))] + [int(rs.group(1))] * int(rs.group(2))))
    # read_header: buffers read, in order
    rh = need(re.search(r"pub fn read_header.*?\n\}", src, re.S), "fn read_header").group(0)
    bufs = [int(x) for x in re.findall(r"= \[0u8; (\d+)\];", rh)]
    if bufs != [len(magic), 1, 1, int(rs.group(2))]:
        raise ExtractError("read_header buffer sizes changed: %r" % (bufs,))
    out.append("Definition bin_header_read_sizes : list Z := %s." % _zlist(bufs))
    cmpv = need(re.search(r"if version\[0\] (\S+) VERSION", rh), "read_header version comparison")
    ops = {">": 0, ">=": 1, "!=": 2}
    if cmpv.group(1) not in ops:
        raise ExtractError("read_header version comparison operator %s not understood" % cmpv.group(1))
    out.append("(* read_header rejects when  version <op> VERSION ;  0: >   1: >=   2: != *)")
    out.append("Definition bin_version_reject_op : Z := %d." % ops[cmpv.group(1)])
    if not re.search(r"if &magic != MAGIC", rh):
        raise ExtractError("read_header magic comparison not found")
    # enum TypeTag
    en = need(re.search(r"pub enum TypeTag \{(.*?)\n\}", src, re.S), "enum TypeTag").group(1)
    tags = {mm.group(1): num(mm.group(2)) for mm in re.finditer(r"(\w+)\s*=\s*(0x[0-9A-Fa-f]+|\d+)", en)}
    for k in BIN_KINDS:
        if k not in tags:
            raise ExtractError("enum TypeTag: no variant %s" % k)
    if sorted(tags) != sorted(BIN_KINDS):
        raise ExtractError("enum TypeTag variants changed: %r" % sorted(tags))
    out.append("(* enum TypeTag (repr u8): the byte written by write_sql_value *)")
    for k in BIN_KINDS:
        out.append("Definition bin_tag_%s : Z := %d." % (k, tags[k]))
    # TypeTag::from_u8 table: byte -> kind index (position in BIN_KINDS)
    fu = need(re.search(r"pub fn from_u8\(tag: u8\).*?match tag \{(.*?)\n\s*\}\s*\n\s*\}", src, re.S), "TypeTag::from_u8").group(1)
    table = []
    for mm in re.finditer(r"(0x[0-9A-Fa-f]+|\d+)\s*=>\s*Ok\(TypeTag::(\w+)\)", fu):
        if mm.group(2) not in BIN_KINDS:
            raise ExtractError("from_u8 maps to unknown variant %s" % mm.group(2))
        table.append((num(mm.group(1)), BIN_KINDS.index(mm.group(2))))
    if not table or "_ => Err" not in fu:
        raise ExtractError("TypeTag::from_u8 table not understood")
    out.append("(* TypeTag::from_u8: (byte, kind index) in source order; kind index = position in")
    out.append("   [Null; Smallint; Integer; Bigint; Unsigned; Numeric; Float; Real; Double; Character; Varchar; Boolean; Date; Time; Timestamp; Interval] *)")
    out.append("Definition bin_from_u8_table : list (Z * Z) := [%s]." % "; ".join("(%d, %d)" % p for p in table))


def _simple_enum(src, enum_name, what):
    m = need(re.search(r"impl_simple_enum_serialization!\(\s*%s,.*?\{(.*?)\}\s*\);" % enum_name, src, re.S), what).group(1)
    vals = [int(x) for x in re.findall(r"=>\s*(\d+)", m)]
    if not vals:
        raise ExtractError("no tags for " + what)
    return vals


def bin_expr_consts(out):
    src = read(EXPR)
    en = need(re.search(r"enum ExprTag \{(.*?)\n\}", src, re.S), "enum ExprTag").group(1)
    pairs = [(mm.group(1), num(mm.group(2))) for mm in re.finditer(r"(\w+)\s*=\s*(0x[0-9A-Fa-f]+|\d+)", en)]
    fu = need(re.search(r"fn from_u8\(tag: u8\).*?match tag \{(.*?)\n\s*\}\s*\n\s*\}", src, re.S), "ExprTag::from_u8").group(1)
    table = {mm.group(2): num(mm.group(1)) for mm in re.finditer(r"(0x[0-9A-Fa-f]+|\d+)\s*=>\s*Ok\(ExprTag::(\w+)\)", fu)}
    out.append("(* %s: enum ExprTag and ExprTag::from_u8 *)" % EXPR)
    for name, val in pairs:
        if table.get(name) != val:
            raise ExtractError("ExprTag::from_u8 does not invert the enum for %s" % name)
        out.append("Definition bin_expr_%s : Z := %d." % (name, val))
    out.append("Definition bin_expr_tag_count : Z := %d." % len(pairs))
    md = need(re.search(r"const MAX_EXPRESSION_DEPTH: usize = (\w+);", src), "const MAX_EXPRESSION_DEPTH in expression/mod.rs")
    guard = need(re.search(r"if d\.get\(\) (>=|>) MAX_EXPRESSION_DEPTH", src), "DepthGuard comparison in expression/mod.rs")
    if not re.search(r"pub fn read_expression<R: Read>\(reader: &mut R\) -> Result<Expression, StorageError> \{\s*let _depth = DepthGuard::enter\(\)\?;", src):
        raise ExtractError("read_expression no longer starts with the depth guard")
    # deepest nesting level (1 = outermost call) that is still accepted
    out.append("(* read_expression: DepthGuard, the deepest accepted nesting level (outermost call = 1) *)")
    out.append("Definition bin_max_expr_depth : Z := %d." % (num(md.group(1)) + (1 if guard.group(1) == ">" else 0)))
    ops = read(OPS)
    tys = read(TYPES)
    out.append("(* accepted tag bytes of the simple enums (operators.rs, types.rs) *)")
    out.append("Definition bin_binop_tags : list Z := %s." % _zlist(_simple_enum(ops, "BinaryOperator", "BinaryOperator tags")))
    out.append("Definition bin_unop_tags : list Z := %s." % _zlist(_simple_enum(ops, "UnaryOperator", "UnaryOperator tags")))
    out.append("Definition bin_charunit_tags : list Z := %s." % _zlist(_simple_enum(tys, "CharacterUnit", "CharacterUnit tags")))
    out.append("Definition bin_trimpos_tags : list Z := %s." % _zlist(_simple_enum(tys, "TrimPosition", "TrimPosition tags")))
    out.append("Definition bin_intervalunit_tags : list Z := %s." % _zlist(_simple_enum(tys, "IntervalUnit", "IntervalUnit tags")))
    out.append("Definition bin_fulltext_tags : list Z := %s." % _zlist(_simple_enum(tys, "FulltextMode", "FulltextMode tags")))
    out.append("Definition bin_pseudotable_tags : list Z := %s." % _zlist(_simple_enum(tys, "PseudoTable", "PseudoTable tags")))
    # catalog.rs: direction / timing / event / granularity / action bytes accepted by read_catalog
    cat = read(CATALOG)
    rc = need(re.search(r"pub fn read_catalog.*?\n\}\n", cat, re.S), "fn read_catalog").group(0)

    def arms(var, what):
        m = need(re.search(r"match %s \{(.*?)_ =>" % var, rc, re.S), what).group(1)
        vals = [int(x) for x in re.findall(r"^\s*(\d+)\s*=>", m, re.M)]
        if not vals:
            raise ExtractError("no arms for " + what)
        return vals
    out.append("(* %s: bytes accepted by read_catalog *)" % CATALOG)
    out.append("Definition bin_direction_tags : list Z := %s." % _zlist(arms("direction_byte", "direction byte")))
    out.append("Definition bin_timing_tags : list Z := %s." % _zlist(arms("timing_byte", "timing byte")))
    out.append("Definition bin_event_tags : list Z := %s." % _zlist(arms("event_byte", "event byte")))
    out.append("Definition bin_granularity_tags : list Z := %s." % _zlist(arms("granularity_byte", "granularity byte")))
    out.append("Definition bin_action_tags : list Z := %s." % _zlist(arms("action_type", "action type byte")))


EXTRACTORS = [bin_format_consts, bin_expr_consts]
