#!/usr/bin/env python3
"""baseline_compare.py <cargo-test-log>: compare a `cargo test --workspace --no-fail-fast` log with the pinned
baseline (/root/.vp/BASELINE.json stable_pass): prints baseline tests that no longer pass."""
import json, subprocess, sys, tempfile, os
log = sys.argv[1]
out = tempfile.mktemp(suffix=".json")
subprocess.run([sys.executable, "/w/lib/parse_tests.py", "--kind", "cargo", "--log", log, "--out", out], check=True)
r = json.load(open(out)); os.remove(out)
b = json.load(open("/root/.vp/BASELINE.json"))
passed = set(r["passed"]); failed = set(r["failed"])
stable = set(b["stable_pass"])
missing = sorted(stable - passed)
print(f"passed={len(passed)} failed={len(failed)} baseline={len(stable)} baseline_not_passing={len(missing)}")
for m in missing[:60]:
    print("  ", "FAILED" if m in failed else "MISSING", m)
newfail = sorted(failed - set(b.get("always_fail", [])) - set(b.get("flaky", [])))
print("failed tests not in baseline always_fail/flaky:", len(newfail))
for m in newfail[:40]:
    print("   ", m)
sys.exit(1 if missing else 0)
