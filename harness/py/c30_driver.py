#!/usr/bin/env python3
"""C30 driver: runs call sequences against the REAL vibesql extension module.

usage: c30_driver.py <pymod_dir> <in.json> <out.json>

Input  {"cap": N, "bound_key": bool, "seqs": [{"id": n, "calls": [CALL..]}]}
  CALL = {"sql": str, "params": null | [PARAM..],
          "impl": str | null     text the harness expects substitute_placeholders to produce (null: bind error),
          "kind": int            0 parse error, 1 select, 2 dml, 3 ddl, 4 unsupported   (of "impl"),
          "spec": str | null     text bound by the harness's literal-aware binder (null: refuses),
          "pad":  str | null}    the same with every literal surrounded by spaces (only for structure cases)
  PARAM = ["n"] | ["i", "<decimal>"] | ["b", bool] | ["f", "<u64 bits>"] | ["s", [code points]] | ["o", "bytes"|"list"]

For every sequence four connections are used:
  real    one cursor, cursor.execute(sql, params)            <- the code under test
  shadow  the statement texts the harness's replica of the cursor (cache keyed by the unbound text, LRU
          of capacity cap, cleared after successful DDL) predicts, executed as plain SQL, fresh cursor per call
  ref     "spec" executed as plain SQL, fresh cursor per call (no cache, literal-aware)
  pad     "pad" likewise (only when given)
No result is ever computed by this script itself: every row comes out of the extension module.

Output {"version": str, "seqs": [{"id": n, "calls": [{"real": OBS, "shadow": SH, "ref": OBS|null, "pad": OBS|null}]}]}
  OBS = {"code": 0 ok | 1 ProgrammingError | 2 OperationalError | 3 other, "exc": str, "fetch": RES | null}
  RES = ["rows", [[VAL..]..]] (sorted) | ["count", n]
  SH  = null | {"text": str, "hit": bool, "from": index of the populating call, "obs": OBS}
  VAL = ["n"] | ["i", "<decimal>"] | ["f", "<u64 bits>"] | ["s", [code points]] | ["b", bool] | ["x", repr]
"""
import json
import struct
import sys
from collections import OrderedDict


def main():
    pymod, inp, outp = sys.argv[1], sys.argv[2], sys.argv[3]
    sys.path.insert(0, pymod)
    import vibesql  # noqa: E402  (the real module; an ImportError here must abort the run)

    if not vibesql.__file__.startswith(pymod):
        raise SystemExit("c30_driver: imported vibesql from %s, expected %s" % (vibesql.__file__, pymod))

    def dec_param(p):
        t = p[0]
        if t == "n":
            return None
        if t == "i":
            return int(p[1])
        if t == "b":
            return bool(p[1])
        if t == "f":
            return struct.unpack("<d", struct.pack("<Q", int(p[1])))[0]
        if t == "s":
            return "".join(chr(c) for c in p[1])
        if t == "o":
            return b"ab" if p[1] == "bytes" else [1, 2]
        raise ValueError(p)

    def enc_val(v):
        if v is None:
            return ["n"]
        if isinstance(v, bool):
            return ["b", v]
        if isinstance(v, int):
            return ["i", str(v)]
        if isinstance(v, float):
            bits = struct.unpack("<Q", struct.pack("<d", v))[0]
            if v != v:
                bits = 0x7FF8000000000000
            return ["f", str(bits)]
        if isinstance(v, str):
            return ["s", [ord(c) for c in v]]
        return ["x", repr(v)]

    def fetch_state(cur):
        """what fetchall()/rowcount show now"""
        try:
            rows = cur.fetchall()
            enc = [[enc_val(v) for v in r] for r in rows]
            enc.sort(key=lambda r: json.dumps(r))
            return ["rows", enc]
        except vibesql.ProgrammingError as e:
            if "No query has been executed" in str(e):
                return None
            return ["count", cur.rowcount]

    def run(cur, sql, params, use_params):
        code, exc = 0, ""
        try:
            if use_params:
                cur.execute(sql, params)
            else:
                cur.execute(sql)
        except vibesql.ProgrammingError as e:
            code, exc = 1, str(e)[:200]
        except vibesql.OperationalError as e:
            code, exc = 2, str(e)[:200]
        except BaseException as e:  # noqa: BLE001  (pyo3 panics surface as BaseException subclasses)
            code, exc = 3, (type(e).__name__ + ": " + str(e))[:200]
        return {"code": code, "exc": exc, "fetch": fetch_state(cur)}

    def plain(con, text):
        cur = con.cursor()
        return run(cur, text, None, False)

    job = json.load(open(inp))
    cap = job["cap"]
    bound_key = job.get("bound_key", False)  # the source keys the cache by the bound text (bind first)
    out = []
    for seq in job["seqs"]:
        con_real = vibesql.connect()
        cur_real = con_real.cursor()
        con_shadow = vibesql.connect()
        con_ref = vibesql.connect()
        con_pad = None
        lru = OrderedDict()  # unbound sql -> (text, kind, index of the populating call); last = most recent
        res = []
        for idx, call in enumerate(seq["calls"]):
            sql = call["sql"]
            has_params = call["params"] is not None
            params = tuple(dec_param(p) for p in call["params"]) if has_params else None
            real = run(cur_real, sql, params, has_params)
            # shadow: replica of the cursor's cache protocol, statement texts executed as plain SQL
            sh = None
            if bound_key:
                key = call["impl"]  # bind first; a bind error reaches neither the cache nor the parser
            else:
                key = sql
            if key is not None and key in lru:
                lru.move_to_end(key)
                text, kind, frm = lru[key]
                sh = {"text": text, "hit": True, "from": frm}
            elif call["impl"] is not None:
                text, kind, frm = call["impl"], call["kind"], idx
                sh = {"text": text, "hit": False, "from": idx}
                if kind != 0:
                    lru[key] = (text, kind, idx)
                    if len(lru) > cap:
                        lru.popitem(last=False)
            if sh is not None:
                sh["obs"] = plain(con_shadow, sh["text"])
                if kind == 3 and sh["obs"]["code"] == 0:
                    lru.clear()
            ref = None
            if call.get("spec") is not None:
                ref = plain(con_ref, call["spec"])
            pad = None
            if call.get("pad") is not None:
                if con_pad is None:
                    con_pad = vibesql.connect()
                pad = plain(con_pad, call["pad"])
            res.append({"real": real, "shadow": sh, "ref": ref, "pad": pad})
        out.append({"id": seq["id"], "calls": res})
    with open(outp, "w") as f:
        json.dump({"version": vibesql.connect().version(), "file": vibesql.__file__, "seqs": out}, f)


if __name__ == "__main__":
    main()
