//! Shared by bin/c11 and bin/c34 (included with #[path]): the DML fragment of coq/theories/Store/{Trigger,Atomic}.v
//! as a Rust AST with SQL and Gallina printers, execution of a case on the real engine (tables, set-up rows,
//! triggers installed through TriggerExecutor::create_trigger with a RawSql body), observation of every table in
//! storage order, and a small reference evaluator used by the harness-side oracles.
#![allow(dead_code)]
use serde_json::{json, Value};
use vh::sql::{exec, Outcome};
use vibesql_ast::{AlterTriggerAction, AlterTriggerStmt, Statement, TriggerAction};
use vibesql_catalog::ReferentialAction;
use vibesql_storage::Database;
use vibesql_types::SqlValue;

pub const MISSING: usize = 99; // a table id that is never created ("MISSING")

#[derive(Clone, Debug, PartialEq, Eq, Hash, PartialOrd, Ord)]
pub enum Cell {
    Null,
    Int(i64),
    Str, // the string literal 'x'
}
pub type Row = Vec<Cell>;

#[derive(Clone, Debug, PartialEq)]
pub enum Op {
    Eq,
    Ne,
    Lt,
    Le,
    Gt,
    Ge,
}

#[derive(Clone, Debug, PartialEq)]
pub enum Expr {
    Lit(Cell),
    Col(usize),
    Old(usize),
    New(usize),
    Add(Box<Expr>, i64),
    Case(Box<Cond>, Box<Expr>, Box<Expr>),
}

#[derive(Clone, Debug, PartialEq)]
pub enum Cond {
    Cmp(Op, Expr, Expr),
    And(Box<Cond>, Box<Cond>),
    Or(Box<Cond>, Box<Cond>),
    Not(Box<Cond>),
    IsNull(Expr),
    Const(Option<bool>),
    Val(Expr),
}

#[derive(Clone, Debug, PartialEq)]
pub enum Stmt {
    Insert { t: usize, cols_ok: bool, rows: Vec<Vec<Expr>> },
    InsertSel { t: usize, src: usize, star: bool },
    Update { t: usize, asg: Vec<(usize, Expr)>, w: Option<Cond> },
    Delete { t: usize, w: Option<Cond> },
}

#[derive(Clone, Copy, Debug, PartialEq)]
pub enum Act {
    NoAction,
    Cascade,
    SetNull,
}

#[derive(Clone, Debug, PartialEq)]
pub struct Fk {
    pub col: usize,
    pub parent: usize,
    pub pcol: usize,
    pub on_delete: Act,
    pub on_update: Act,
}

#[derive(Clone, Debug, PartialEq)]
pub struct TableDef {
    pub id: usize,
    pub ncols: usize,
    pub pk: Option<usize>,
    pub notnull: Vec<usize>, // declared NOT NULL (the PK column is added from the real catalog)
    pub checks: Vec<Cond>,
    pub fks: Vec<Fk>,
}

#[derive(Clone, Copy, Debug, PartialEq)]
pub enum Timing {
    Before,
    After,
    InsteadOf,
}
#[derive(Clone, Debug, PartialEq)]
pub enum Ev {
    Insert,
    Update(Option<Vec<usize>>),
    Delete,
}
#[derive(Clone, Copy, Debug, PartialEq)]
pub enum Gran {
    Row,
    Stmt,
}

#[derive(Clone, Debug, PartialEq)]
pub struct Trig {
    pub id: i64,
    pub table: usize,
    pub timing: Timing,
    pub event: Ev,
    pub gran: Gran,
    pub when: Option<Cond>,
    pub enabled: bool,
    pub body: Vec<Stmt>,
}

#[derive(Clone, Debug)]
pub struct Case {
    pub tabs: Vec<TableDef>,
    pub setup: Vec<Stmt>,
    pub trigs: Vec<Trig>,
    pub stmt: Stmt,
}

// ------------------------------------------------------------------------------------------------
// SQL text
// ------------------------------------------------------------------------------------------------
pub fn tname(t: usize) -> String {
    if t >= 90 {
        "MISSING".to_string()
    } else {
        format!("T{}", t)
    }
}
pub fn cname(c: usize) -> String {
    if c >= 50 {
        "NOPE".to_string()
    } else {
        format!("C{}", c)
    }
}
fn cell_sql(c: &Cell) -> String {
    match c {
        Cell::Null => "NULL".into(),
        Cell::Int(i) => {
            assert!(*i >= 0, "harness: negative literal");
            format!("{}", i)
        }
        Cell::Str => "'x'".into(),
    }
}
pub fn expr_sql(e: &Expr) -> String {
    match e {
        Expr::Lit(c) => cell_sql(c),
        Expr::Col(i) => cname(*i),
        Expr::Old(i) => format!("OLD.{}", cname(*i)),
        Expr::New(i) => format!("NEW.{}", cname(*i)),
        Expr::Add(a, k) => {
            if *k >= 0 {
                format!("({} + {})", expr_sql(a), k)
            } else {
                format!("({} - {})", expr_sql(a), -k)
            }
        }
        Expr::Case(c, a, b) => format!("CASE WHEN {} THEN {} ELSE {} END", cond_sql(c), expr_sql(a), expr_sql(b)),
    }
}
fn op_sql(o: &Op) -> &'static str {
    match o {
        Op::Eq => "=",
        Op::Ne => "<>",
        Op::Lt => "<",
        Op::Le => "<=",
        Op::Gt => ">",
        Op::Ge => ">=",
    }
}
pub fn cond_sql(c: &Cond) -> String {
    match c {
        Cond::Cmp(o, a, b) => format!("{} {} {}", expr_sql(a), op_sql(o), expr_sql(b)),
        Cond::And(a, b) => format!("({}) AND ({})", cond_sql(a), cond_sql(b)),
        Cond::Or(a, b) => format!("({}) OR ({})", cond_sql(a), cond_sql(b)),
        Cond::Not(a) => format!("NOT ({})", cond_sql(a)),
        Cond::IsNull(a) => format!("{} IS NULL", expr_sql(a)),
        Cond::Const(Some(true)) => "TRUE".into(),
        Cond::Const(Some(false)) => "FALSE".into(),
        Cond::Const(None) => "NULL".into(),
        Cond::Val(a) => expr_sql(a),
    }
}
pub fn stmt_sql(s: &Stmt, tabs: &[TableDef]) -> String {
    match s {
        Stmt::Insert { t, cols_ok, rows } => {
            let vals: Vec<String> =
                rows.iter().map(|r| format!("({})", r.iter().map(expr_sql).collect::<Vec<_>>().join(", "))).collect();
            if *cols_ok {
                format!("INSERT INTO {} VALUES {}", tname(*t), vals.join(", "))
            } else {
                let n = rows.first().map(|r| r.len()).unwrap_or(1);
                let mut cols: Vec<String> = (0..n).map(cname).collect();
                *cols.last_mut().unwrap() = "NOPE".into();
                format!("INSERT INTO {} ({}) VALUES {}", tname(*t), cols.join(", "), vals.join(", "))
            }
        }
        Stmt::InsertSel { t, src, star } => {
            if *star {
                format!("INSERT INTO {} SELECT * FROM {}", tname(*t), tname(*src))
            } else {
                let n = tabs.iter().find(|x| x.id == *src).map(|x| x.ncols).unwrap_or(1);
                format!("INSERT INTO {} SELECT {} FROM {}", tname(*t), (0..n).map(cname).collect::<Vec<_>>().join(", "), tname(*src))
            }
        }
        Stmt::Update { t, asg, w } => format!(
            "UPDATE {} SET {}{}",
            tname(*t),
            asg.iter().map(|(c, e)| format!("{} = {}", cname(*c), expr_sql(e))).collect::<Vec<_>>().join(", "),
            w.as_ref().map(|c| format!(" WHERE {}", cond_sql(c))).unwrap_or_default()
        ),
        Stmt::Delete { t, w } => {
            format!("DELETE FROM {}{}", tname(*t), w.as_ref().map(|c| format!(" WHERE {}", cond_sql(c))).unwrap_or_default())
        }
    }
}
fn act_sql(a: Act) -> &'static str {
    match a {
        Act::NoAction => "NO ACTION",
        Act::Cascade => "CASCADE",
        Act::SetNull => "SET NULL",
    }
}
pub fn create_table_sql(t: &TableDef) -> String {
    let mut parts: Vec<String> = (0..t.ncols)
        .map(|c| {
            let mut s = format!("{} INTEGER", cname(c));
            if t.pk == Some(c) {
                s.push_str(" PRIMARY KEY");
            } else if t.notnull.contains(&c) {
                s.push_str(" NOT NULL");
            }
            s
        })
        .collect();
    for ck in &t.checks {
        parts.push(format!("CHECK ({})", cond_sql(ck)));
    }
    for fk in &t.fks {
        parts.push(format!(
            "FOREIGN KEY ({}) REFERENCES {} ({}) ON DELETE {} ON UPDATE {}",
            cname(fk.col),
            tname(fk.parent),
            cname(fk.pcol),
            act_sql(fk.on_delete),
            act_sql(fk.on_update)
        ));
    }
    format!("CREATE TABLE {} ({})", tname(t.id), parts.join(", "))
}
pub fn trig_header_sql(tr: &Trig) -> String {
    let timing = match tr.timing {
        Timing::Before => "BEFORE",
        Timing::After => "AFTER",
        Timing::InsteadOf => "INSTEAD OF",
    };
    let ev = match &tr.event {
        Ev::Insert => "INSERT".to_string(),
        Ev::Delete => "DELETE".to_string(),
        Ev::Update(None) => "UPDATE".to_string(),
        Ev::Update(Some(cols)) => format!("UPDATE OF ({})", cols.iter().map(|c| cname(*c)).collect::<Vec<_>>().join(", ")),
    };
    let gran = match tr.gran {
        Gran::Row => "FOR EACH ROW",
        Gran::Stmt => "FOR EACH STATEMENT",
    };
    format!(
        "TR{} {} {} ON {} {}{}",
        tr.id,
        timing,
        ev,
        tname(tr.table),
        gran,
        tr.when.as_ref().map(|c| format!(" WHEN ({})", cond_sql(c))).unwrap_or_default()
    )
}
pub fn trig_body_sql(tr: &Trig, tabs: &[TableDef]) -> String {
    tr.body.iter().map(|s| stmt_sql(s, tabs)).collect::<Vec<_>>().join("; ")
}

// ------------------------------------------------------------------------------------------------
// Gallina text
// ------------------------------------------------------------------------------------------------
fn z(i: i64) -> String {
    if i < 0 {
        format!("({})%Z", i)
    } else {
        format!("{}%Z", i)
    }
}
pub fn cell_coq(c: &Cell) -> String {
    match c {
        Cell::Null => "VNull".into(),
        Cell::Int(i) => format!("(VInt {})", z(*i)),
        Cell::Str => "VStr".into(),
    }
}
pub fn row_coq(r: &Row) -> String {
    format!("[{}]", r.iter().map(cell_coq).collect::<Vec<_>>().join(";"))
}
pub fn rows_coq(rs: &[Row]) -> String {
    format!("[{}]", rs.iter().map(row_coq).collect::<Vec<_>>().join(";"))
}
pub fn expr_coq(e: &Expr) -> String {
    match e {
        Expr::Lit(c) => format!("(ELit {})", cell_coq(c)),
        Expr::Col(i) => format!("(ECol {})", i),
        Expr::Old(i) => format!("(EOld {})", i),
        Expr::New(i) => format!("(ENew {})", i),
        Expr::Add(a, k) => format!("(EAdd {} {})", expr_coq(a), z(*k)),
        Expr::Case(c, a, b) => format!("(ECase {} {} {})", cond_coq(c), expr_coq(a), expr_coq(b)),
    }
}
pub fn cond_coq(c: &Cond) -> String {
    match c {
        Cond::Cmp(o, a, b) => format!("(CCmp Op{:?} {} {})", o, expr_coq(a), expr_coq(b)),
        Cond::And(a, b) => format!("(CAnd {} {})", cond_coq(a), cond_coq(b)),
        Cond::Or(a, b) => format!("(COr {} {})", cond_coq(a), cond_coq(b)),
        Cond::Not(a) => format!("(CNot {})", cond_coq(a)),
        Cond::IsNull(a) => format!("(CIsNull {})", expr_coq(a)),
        Cond::Const(None) => "(CConst None)".into(),
        Cond::Const(Some(b)) => format!("(CConst (Some {}))", b),
        Cond::Val(a) => format!("(CVal {})", expr_coq(a)),
    }
}
fn opt_coq<T>(o: &Option<T>, f: impl Fn(&T) -> String) -> String {
    match o {
        None => "None".into(),
        Some(x) => format!("(Some {})", f(x)),
    }
}
pub fn stmt_coq(s: &Stmt) -> String {
    match s {
        Stmt::Insert { t, cols_ok, rows } => format!(
            "(SInsert {} {} [{}])",
            t,
            cols_ok,
            rows.iter().map(|r| format!("[{}]", r.iter().map(expr_coq).collect::<Vec<_>>().join(";"))).collect::<Vec<_>>().join(";")
        ),
        Stmt::InsertSel { t, src, star } => format!("(SInsertSel {} {} {})", t, src, star),
        Stmt::Update { t, asg, w } => format!(
            "(SUpdate {} [{}] {})",
            t,
            asg.iter().map(|(c, e)| format!("({},{})", c, expr_coq(e))).collect::<Vec<_>>().join(";"),
            opt_coq(w, cond_coq)
        ),
        Stmt::Delete { t, w } => format!("(SDelete {} {})", t, opt_coq(w, cond_coq)),
    }
}
fn act_coq(a: Act) -> &'static str {
    match a {
        Act::NoAction => "ANoAction",
        Act::Cascade => "ACascade",
        Act::SetNull => "ASetNull",
    }
}
pub fn schema_coq(t: &TableDef) -> String {
    format!(
        "(mkSchema {} {} [{}] [{}] [{}])",
        t.ncols,
        opt_coq(&t.pk, |c| c.to_string()),
        t.notnull.iter().map(|c| c.to_string()).collect::<Vec<_>>().join(";"),
        t.checks.iter().map(cond_coq).collect::<Vec<_>>().join(";"),
        t.fks
            .iter()
            .map(|f| format!("(mkFk {} {} {} {} {})", f.col, f.parent, f.pcol, act_coq(f.on_delete), act_coq(f.on_update)))
            .collect::<Vec<_>>()
            .join(";")
    )
}
pub fn trig_coq(tr: &Trig) -> String {
    let timing = match tr.timing {
        Timing::Before => "Before",
        Timing::After => "After",
        Timing::InsteadOf => "InsteadOf",
    };
    let ev = match &tr.event {
        Ev::Insert => "EvInsert".to_string(),
        Ev::Delete => "EvDelete".to_string(),
        Ev::Update(None) => "(EvUpdate None)".to_string(),
        Ev::Update(Some(cols)) => format!("(EvUpdate (Some [{}]))", cols.iter().map(|c| c.to_string()).collect::<Vec<_>>().join(";")),
    };
    let gran = match tr.gran {
        Gran::Row => "GRow",
        Gran::Stmt => "GStmt",
    };
    format!(
        "(mkTrig {} {} {} {} {} {} {} [{}])",
        z(tr.id),
        tr.table,
        timing,
        ev,
        gran,
        opt_coq(&tr.when, cond_coq),
        tr.enabled,
        tr.body.iter().map(stmt_coq).collect::<Vec<_>>().join(";")
    )
}
pub fn obs_coq(obs: &[(usize, Vec<Row>)]) -> String {
    format!("[{}]", obs.iter().map(|(t, rs)| format!("({},{})", t, rows_coq(rs))).collect::<Vec<_>>().join(";"))
}

// ------------------------------------------------------------------------------------------------
// Execution on the real engine
// ------------------------------------------------------------------------------------------------
pub struct Ran {
    pub db: Database,
    /// the tables with the schema facts read back from the real catalog, in `Catalog::list_tables()` order
    pub tabs: Vec<TableDef>,
    /// the triggers in the catalog's iteration order (per table)
    pub trigs: Vec<Trig>,
    pub obs0: Vec<(usize, Vec<Row>)>,
    pub snap0: Value,
    pub res: Outcome,
    pub obs1: Vec<(usize, Vec<Row>)>,
    pub snap1: Value,
    pub setup_failed: Option<String>,
}

fn cell_of(v: &SqlValue) -> Cell {
    match v {
        SqlValue::Null => Cell::Null,
        SqlValue::Integer(i) | SqlValue::Bigint(i) => Cell::Int(*i),
        SqlValue::Smallint(i) => Cell::Int(*i as i64),
        _ => Cell::Str,
    }
}
fn act_of(a: &ReferentialAction) -> Act {
    match a {
        ReferentialAction::Cascade => Act::Cascade,
        ReferentialAction::SetNull => Act::SetNull,
        ReferentialAction::NoAction | ReferentialAction::Restrict => Act::NoAction,
        ReferentialAction::SetDefault => panic!("harness: SET DEFAULT is outside the modelled fragment"),
    }
}
fn tid_of(name: &str) -> usize {
    name.trim_start_matches('T').parse().unwrap_or_else(|_| panic!("harness: table name {}", name))
}

/// rows of every table in storage order (`Table::scan()`), tables in the given order
pub fn observe(db: &Database, order: &[usize]) -> Vec<(usize, Vec<Row>)> {
    order
        .iter()
        .map(|t| {
            let tb = db.get_table(&tname(*t)).unwrap_or_else(|| panic!("harness: table {} vanished", t));
            (*t, tb.scan().iter().map(|r| r.values.iter().map(cell_of).collect()).collect())
        })
        .collect()
}

/// everything a client could see: rows in storage order, the primary-key index of every table (key -> row
/// position), index-driven point lookups for every key present, the catalog listing (tables, triggers with their
/// enabled flag, indexes)
pub fn snapshot(db: &mut Database, order: &[usize]) -> Value {
    let mut sorted = order.to_vec();
    sorted.sort();
    let mut tabs = Vec::new();
    for t in &sorted {
        let name = tname(*t);
        let (rows, pkidx, keys): (Vec<String>, Vec<String>, Vec<SqlValue>) = {
            let tb = db.get_table(&name).unwrap();
            let rows: Vec<String> = tb.scan().iter().map(|r| vh::sql::canon_row(&r.values)).collect();
            let mut pk: Vec<String> = tb
                .primary_key_index()
                .map(|m| m.iter().map(|(k, v)| format!("{}->{}", vh::sql::canon_row(k), v)).collect())
                .unwrap_or_default();
            pk.sort();
            let keys: Vec<SqlValue> =
                if tb.schema.get_primary_key_indices().is_some() { tb.scan().iter().map(|r| r.values[0].clone()).collect() } else { vec![] };
            (rows, pk, keys)
        };
        let mut lookups = Vec::new();
        for k in keys {
            if let SqlValue::Integer(i) = k {
                if i >= 0 {
                    let o = exec(db, &format!("SELECT * FROM {} WHERE C0 = {}", name, i));
                    lookups.push(match o {
                        Outcome::Rows(r) => format!("{}:{:?}", i, vh::sql::canon_bag(&r)),
                        o => format!("{}:{}", i, o.tag()),
                    });
                }
            }
        }
        lookups.sort();
        lookups.dedup();
        tabs.push(json!({"table": name, "rows": rows, "pk_index": pkidx, "lookups": lookups}));
    }
    let mut tl = db.catalog.list_tables();
    tl.sort();
    let mut trs: Vec<String> = db.catalog.list_triggers().iter().map(|n| format!("{}:{}", n, db.catalog.get_trigger(n).map(|t| t.enabled).unwrap_or(false))).collect();
    trs.sort();
    let mut ix = db.list_indexes();
    ix.sort();
    json!({"tables": tabs, "catalog_tables": tl, "triggers": trs, "indexes": ix})
}

pub fn install_trigger(db: &mut Database, tr: &Trig, tabs: &[TableDef]) -> Result<(), String> {
    let text = format!("CREATE TRIGGER {} BEGIN SELECT 1; END", trig_header_sql(tr));
    match vibesql_parser::Parser::parse_sql(&text) {
        Ok(Statement::CreateTrigger(mut s)) => {
            s.triggered_action = TriggerAction::RawSql(trig_body_sql(tr, tabs));
            vibesql_executor::TriggerExecutor::create_trigger(db, &s).map_err(|e| format!("{:?}", e))?;
            if !tr.enabled {
                vibesql_executor::TriggerExecutor::alter_trigger(
                    db,
                    &AlterTriggerStmt { trigger_name: s.trigger_name.clone(), action: AlterTriggerAction::Disable },
                )
                .map_err(|e| format!("{:?}", e))?;
            }
            Ok(())
        }
        Ok(_) => Err("not a trigger statement".into()),
        Err(e) => Err(format!("parse error in `{}`: {:?}", text, e)),
    }
}

/// Build the case on a fresh engine, run the set-up statements, install the triggers, then run the statement
/// under test between two observations.
pub fn run_case(case: &Case) -> Ran {
    let mut db = Database::new();
    let mut setup_failed = None;
    // parents before children
    let mut creation: Vec<&TableDef> = case.tabs.iter().filter(|t| t.fks.is_empty()).collect();
    let mut pending: Vec<&TableDef> = case.tabs.iter().filter(|t| !t.fks.is_empty()).collect();
    while !pending.is_empty() {
        let (ready, rest): (Vec<&TableDef>, Vec<&TableDef>) =
            pending.iter().partition(|t| t.fks.iter().all(|f| creation.iter().any(|c| c.id == f.parent)));
        assert!(!ready.is_empty(), "harness: cyclic or dangling foreign keys");
        creation.extend(ready);
        pending = rest;
    }
    for t in creation {
        let sql = create_table_sql(t);
        let o = exec(&mut db, &sql);
        if !o.is_ok() && setup_failed.is_none() {
            setup_failed = Some(format!("{} -> {:?}", sql, o));
        }
    }
    for s in &case.setup {
        let sql = stmt_sql(s, &case.tabs);
        let o = exec(&mut db, &sql);
        if !o.is_ok() && setup_failed.is_none() {
            setup_failed = Some(format!("{} -> {:?}", sql, o));
        }
    }
    for tr in &case.trigs {
        if let Err(e) = install_trigger(&mut db, tr, &case.tabs) {
            if setup_failed.is_none() {
                setup_failed = Some(format!("trigger TR{}: {}", tr.id, e));
            }
        }
    }
    if setup_failed.is_some() {
        return Ran { db, tabs: vec![], trigs: vec![], obs0: vec![], snap0: Value::Null, res: Outcome::Done, obs1: vec![], snap1: Value::Null, setup_failed };
    }
    // schema facts and iteration orders as the engine has them
    let order: Vec<usize> = db.catalog.list_tables().iter().map(|n| tid_of(n)).collect();
    let mut tabs = Vec::new();
    for t in &order {
        let def = case.tabs.iter().find(|x| x.id == *t).expect("harness: unknown table in catalog");
        let sch = db.catalog.get_table(&tname(*t)).unwrap().clone();
        let pk = sch.get_primary_key_indices().map(|v| {
            assert!(v.len() == 1, "harness: composite pk");
            v[0]
        });
        let notnull: Vec<usize> = sch.columns.iter().enumerate().filter(|(_, c)| !c.nullable).map(|(i, _)| i).collect();
        let fks: Vec<Fk> = sch
            .foreign_keys
            .iter()
            .map(|f| {
                assert!(f.column_indices.len() == 1 && f.parent_column_indices.len() == 1, "harness: composite fk");
                Fk {
                    col: f.column_indices[0],
                    parent: tid_of(&f.parent_table),
                    pcol: f.parent_column_indices[0],
                    on_delete: act_of(&f.on_delete),
                    on_update: act_of(&f.on_update),
                }
            })
            .collect();
        assert!(sch.check_constraints.len() == def.checks.len(), "harness: check constraint count");
        assert!(sch.columns.len() == def.ncols, "harness: column count");
        tabs.push(TableDef { id: *t, ncols: def.ncols, pk, notnull, checks: def.checks.clone(), fks });
    }
    let mut trigs = Vec::new();
    for t in &order {
        let name = tname(*t);
        for td in db.catalog.get_triggers_for_table(&name, None) {
            let id: i64 = td.name.trim_start_matches("TR").parse().expect("harness: trigger name");
            let def = case.trigs.iter().find(|x| x.id == id).expect("harness: unknown trigger");
            let mut d = def.clone();
            d.enabled = td.enabled;
            trigs.push(d);
        }
    }
    let obs0 = observe(&db, &order);
    let snap0 = snapshot(&mut db, &order);
    let res = exec(&mut db, &stmt_sql(&case.stmt, &case.tabs));
    let obs1 = observe(&db, &order);
    let snap1 = snapshot(&mut db, &order);
    Ran { db, tabs, trigs, obs0, snap0, res, obs1, snap1, setup_failed }
}

pub fn res_code(o: &Outcome) -> i64 {
    match o {
        Outcome::Count(n) => *n as i64,
        Outcome::Err(_, _) => -1,
        Outcome::Panic(_) => -2,
        _ => -3,
    }
}

/// Gallina record of one case (`mkCase`, Store/AtomicObs.v)
pub fn case_coq(id: u64, case: &Case, ran: &Ran, audit: Option<(usize, usize)>) -> String {
    format!(
        "(mkCase {}%Z [{}] [{}] [{}] {} {} {} {} {})",
        id,
        ran.tabs.iter().map(|t| format!("({},{})", t.id, schema_coq(t))).collect::<Vec<_>>().join(";"),
        case.setup.iter().map(stmt_coq).collect::<Vec<_>>().join(";"),
        ran.trigs.iter().map(trig_coq).collect::<Vec<_>>().join(";"),
        stmt_coq(&case.stmt),
        z(res_code(&ran.res)),
        obs_coq(&ran.obs0),
        obs_coq(&ran.obs1),
        opt_coq(&audit, |(t, n)| format!("({},{})", t, n)),
    )
}

pub fn case_json(case: &Case) -> Value {
    json!({
        "tables": case.tabs.iter().map(create_table_sql).collect::<Vec<_>>(),
        "setup": case.setup.iter().map(|s| stmt_sql(s, &case.tabs)).collect::<Vec<_>>(),
        "triggers": case.trigs.iter().map(|t| format!("{}{} :: {}", trig_header_sql(t), if t.enabled { "" } else { " [DISABLED]" }, trig_body_sql(t, &case.tabs))).collect::<Vec<_>>(),
        "statement": stmt_sql(&case.stmt, &case.tabs),
    })
}

// ------------------------------------------------------------------------------------------------
// Reference evaluator (harness-side oracle; mirrors the SQL semantics, not the engine's code paths)
// ------------------------------------------------------------------------------------------------
pub struct Env<'a> {
    pub cur: Option<&'a Row>,
    pub old: Option<&'a Row>,
    pub new: Option<&'a Row>,
}
pub fn eval_expr(en: &Env, e: &Expr) -> Option<Cell> {
    match e {
        Expr::Lit(c) => Some(c.clone()),
        Expr::Col(i) => en.cur.and_then(|r| r.get(*i).cloned()),
        Expr::Old(i) => en.old.and_then(|r| r.get(*i).cloned()),
        Expr::New(i) => en.new.and_then(|r| r.get(*i).cloned()),
        Expr::Add(a, k) => match eval_expr(en, a)? {
            Cell::Int(x) => Some(Cell::Int(x + k)),
            Cell::Null => Some(Cell::Null),
            Cell::Str => None,
        },
        Expr::Case(c, a, b) => match eval_cond(en, c)? {
            Some(true) => eval_expr(en, a),
            _ => eval_expr(en, b),
        },
    }
}
/// None = error; Some(None) = UNKNOWN
pub fn eval_cond(en: &Env, c: &Cond) -> Option<Option<bool>> {
    match c {
        Cond::Cmp(o, a, b) => match (eval_expr(en, a)?, eval_expr(en, b)?) {
            (Cell::Int(x), Cell::Int(y)) => Some(Some(match o {
                Op::Eq => x == y,
                Op::Ne => x != y,
                Op::Lt => x < y,
                Op::Le => x <= y,
                Op::Gt => x > y,
                Op::Ge => x >= y,
            })),
            (Cell::Str, _) | (_, Cell::Str) => None,
            _ => Some(None),
        },
        Cond::And(a, b) => match eval_cond(en, a)? {
            Some(false) => Some(Some(false)),
            la => match eval_cond(en, b)? {
                Some(false) => Some(Some(false)),
                Some(true) => Some(la),
                None => Some(None),
            },
        },
        Cond::Or(a, b) => match eval_cond(en, a)? {
            Some(true) => Some(Some(true)),
            la => match eval_cond(en, b)? {
                Some(true) => Some(Some(true)),
                Some(false) => Some(la),
                None => Some(None),
            },
        },
        Cond::Not(a) => Some(eval_cond(en, a)?.map(|b| !b)),
        Cond::IsNull(a) => Some(Some(eval_expr(en, a)? == Cell::Null)),
        Cond::Const(v) => Some(*v),
        Cond::Val(a) => match eval_expr(en, a)? {
            Cell::Null => Some(None),
            _ => None,
        },
    }
}
/// WHERE of UPDATE / DELETE (select/filter.rs where_value_is_true): TRUE selects, FALSE / NULL do not, an integer selects
/// when it is not 0; None = the predicate cannot be evaluated or is neither (UPDATE then fails, DELETE keeps the row)
pub fn where_selects(en: &Env, c: &Cond) -> Option<bool> {
    if let Cond::Val(e) = c {
        return match eval_expr(en, e)? {
            Cell::Null => Some(false),
            Cell::Int(z) => Some(z != 0),
            Cell::Str => None,
        };
    }
    Some(eval_cond(en, c)? == Some(true))
}
pub fn rows_of<'a>(obs: &'a [(usize, Vec<Row>)], t: usize) -> &'a [Row] {
    obs.iter().find(|(i, _)| *i == t).map(|(_, r)| r.as_slice()).unwrap_or(&[])
}

// ------------------------------------------------------------------------------------------------
// The standard world of the two harnesses
// ------------------------------------------------------------------------------------------------
pub const AUD: usize = 4;
pub const ONCE: usize = 5;
pub const SRC_OK: usize = 6;
pub const SRC_NULLABLE: usize = 7;
pub const AUD2: usize = 8;

pub fn lit(i: i64) -> Expr {
    Expr::Lit(Cell::Int(i))
}
pub fn null() -> Expr {
    Expr::Lit(Cell::Null)
}
pub fn eqc(e: Expr, k: i64) -> Cond {
    Cond::Cmp(Op::Eq, e, lit(k))
}

/// the standard world: T0 subject, T1 its parent, T2/T3 its children, T4 audit, T5 "once", T6/T7 sources, T8 second audit
pub fn tables(fk_to_parent: bool, a2: (Act, Act), a3: (Act, Act), t0_pk: bool) -> Vec<TableDef> {
    let mut t0 = TableDef {
        id: 0,
        ncols: 4,
        pk: if t0_pk { Some(0) } else { None },
        notnull: vec![1],
        checks: vec![Cond::Cmp(Op::Lt, Expr::Col(2), lit(100))],
        fks: vec![],
    };
    if fk_to_parent {
        t0.fks.push(Fk { col: 3, parent: 1, pcol: 0, on_delete: Act::NoAction, on_update: Act::NoAction });
    }
    let mut v = vec![t0, TableDef { id: 1, ncols: 2, pk: Some(0), notnull: vec![], checks: vec![], fks: vec![] }];
    if t0_pk {
        v.push(TableDef { id: 2, ncols: 2, pk: Some(0), notnull: vec![], checks: vec![], fks: vec![Fk { col: 1, parent: 0, pcol: 0, on_delete: a2.0, on_update: a2.1 }] });
        v.push(TableDef { id: 3, ncols: 2, pk: Some(0), notnull: vec![], checks: vec![], fks: vec![Fk { col: 1, parent: 0, pcol: 0, on_delete: a3.0, on_update: a3.1 }] });
    }
    v.push(TableDef { id: AUD, ncols: 9, pk: None, notnull: vec![], checks: vec![], fks: vec![] });
    v.push(TableDef { id: ONCE, ncols: 1, pk: Some(0), notnull: vec![], checks: vec![], fks: vec![] });
    v.push(TableDef { id: SRC_OK, ncols: 4, pk: Some(0), notnull: vec![1], checks: vec![], fks: vec![] });
    v.push(TableDef { id: SRC_NULLABLE, ncols: 4, pk: Some(0), notnull: vec![], checks: vec![], fks: vec![] });
    v.push(TableDef { id: AUD2, ncols: 1, pk: None, notnull: vec![], checks: vec![], fks: vec![] });
    v
}

pub fn audit_body(tid: i64, ev: &Ev, gran: Gran) -> Stmt {
    let mut row = vec![lit(tid)];
    let has_old = gran == Gran::Row && !matches!(ev, Ev::Insert);
    let has_new = gran == Gran::Row && !matches!(ev, Ev::Delete);
    for c in 0..4 {
        row.push(if has_old { Expr::Old(c) } else { null() });
    }
    for c in 0..4 {
        row.push(if has_new { Expr::New(c) } else { null() });
    }
    Stmt::Insert { t: AUD, cols_ok: true, rows: vec![row] }
}

/// a body statement that returns Err
pub fn failing_stmt(kind: u64) -> Vec<Stmt> {
    match kind % 4 {
        0 => vec![Stmt::Insert { t: MISSING, cols_ok: true, rows: vec![vec![lit(1)]] }],
        1 => vec![Stmt::Insert { t: AUD2, cols_ok: true, rows: vec![vec![Expr::Lit(Cell::Str)]] }],
        2 => vec![Stmt::Insert { t: ONCE, cols_ok: true, rows: vec![vec![lit(7)]] }], // 7 is in T5 already
        _ => vec![Stmt::Update { t: ONCE, asg: vec![(0, null())], w: None }],         // NULL into the primary key
    }
}


fn stmt_tables(s: &Stmt, out: &mut Vec<usize>) {
    match s {
        Stmt::Insert { t, .. } | Stmt::Update { t, .. } | Stmt::Delete { t, .. } => out.push(*t),
        Stmt::InsertSel { t, src, .. } => {
            out.push(*t);
            out.push(*src);
        }
    }
}

/// drop the tables (and their set-up rows) the case does not need: keeps every table the statement or a trigger
/// touches, their FK parents, the children that have rows, and (optionally) the empty children
pub fn prune_case(case: &mut Case, keep_empty_children: bool) {
    let mut need: Vec<usize> = Vec::new();
    stmt_tables(&case.stmt, &mut need);
    for tr in &case.trigs {
        need.push(tr.table);
        for s in &tr.body {
            stmt_tables(s, &mut need);
        }
    }
    let mut with_rows: Vec<usize> = Vec::new();
    for s in &case.setup {
        stmt_tables(s, &mut with_rows);
    }
    loop {
        let before = need.len();
        for t in &case.tabs {
            let refs_needed = t.fks.iter().any(|f| need.contains(&f.parent));
            if !need.contains(&t.id) && refs_needed && (keep_empty_children || with_rows.contains(&t.id)) {
                need.push(t.id);
            }
            if need.contains(&t.id) {
                for f in &t.fks {
                    if !need.contains(&f.parent) {
                        need.push(f.parent);
                    }
                }
            }
        }
        if need.len() == before {
            break;
        }
    }
    case.tabs.retain(|t| need.contains(&t.id));
    case.setup.retain(|s| {
        let mut v = Vec::new();
        stmt_tables(s, &mut v);
        v.iter().all(|t| need.contains(t))
    });
}
