//! Shared helpers for the correspondence harness.
pub mod rng;
pub mod val;
pub mod out;
pub mod sql;
pub mod qgen;
pub mod semrun;
