//! C10 / C15 correspondence + property oracles (shared by the bins `c10` and `c15`).
//!
//! A case is one statement of a history.  A history = 2 tables (INTEGER columns; PRIMARY KEY none /
//! single / composite / composite declared out of column order; 0-2 UNIQUE constraints; NOT NULL;
//! 0-2 CHECK) and 0-3 user indexes (incl. UNIQUE, multi-column), driven through `vh::sql` by
//! INSERT single / multi / SELECT (bulk and non-bulk path), UPDATE (key-changing, multi-row), DELETE
//! with / without WHERE, TRUNCATE, CREATE / DROP INDEX, ALTER TABLE ADD PRIMARY KEY / UNIQUE / CHECK,
//! BEGIN / COMMIT / ROLLBACK / SAVEPOINT / ROLLBACK TO / RELEASE.
//!
//! After EVERY statement:
//!  * (C10) an independent checker evaluates every declared constraint (as the harness itself
//!    recorded the declarations) on `SELECT * FROM t`;
//!  * (C15) `Table::primary_key_index()`, `Table::unique_indexes()` and every user index's
//!    `IndexData::InMemory` map (public `Database::get_index_data`) are compared with a
//!    from-scratch rebuild of `Table::scan()`;
//!  * the result class and the dumped state go into a Coq shard, where `Store.Dml.step` must
//!    reproduce them.
//! The oracle reports the FIRST statement of a history after which the invariant fails (later
//! statements run on a state outside the invariant and are only compared with the model).
use serde_json::json;
use std::collections::{BTreeMap, HashMap};
use vh::out::*;
use vh::rng::Rng;
use vh::sql::{exec, must, Outcome};
use vibesql_storage::{Database, IndexData};
use vibesql_types::SqlValue;

#[derive(Clone, Copy, PartialEq)]
pub enum Prop {
    C10,
    C15,
}

type V = Option<i64>;
type Row = Vec<V>;

const NULLC: i64 = -7777777;

// ------------------------------------------------------------------------------------------
// predicates, expressions, statements
// ------------------------------------------------------------------------------------------

#[derive(Clone, Copy, Debug, PartialEq)]
enum Op {
    Eq,
    Ne,
    Lt,
    Le,
    Gt,
    Ge,
}
impl Op {
    fn sql(self) -> &'static str {
        match self {
            Op::Eq => "=",
            Op::Ne => "<>",
            Op::Lt => "<",
            Op::Le => "<=",
            Op::Gt => ">",
            Op::Ge => ">=",
        }
    }
    fn coq(self) -> &'static str {
        match self {
            Op::Eq => "OEq",
            Op::Ne => "ONe",
            Op::Lt => "OLt",
            Op::Le => "OLe",
            Op::Gt => "OGt",
            Op::Ge => "OGe",
        }
    }
    fn ev(self, a: i64, b: i64) -> bool {
        match self {
            Op::Eq => a == b,
            Op::Ne => a != b,
            Op::Lt => a < b,
            Op::Le => a <= b,
            Op::Gt => a > b,
            Op::Ge => a >= b,
        }
    }
}

#[derive(Clone, Debug)]
enum Pred {
    CmpC(usize, Op, i64),
    CmpCol(usize, Op, usize),
    IsNull(usize),
    NotNull(usize),
    And(Box<Pred>, Box<Pred>),
    Or(Box<Pred>, Box<Pred>),
}
impl Pred {
    fn sql(&self) -> String {
        match self {
            Pred::CmpC(c, o, v) => format!("c{} {} {}", c, o.sql(), v),
            Pred::CmpCol(a, o, b) => format!("c{} {} c{}", a, o.sql(), b),
            Pred::IsNull(c) => format!("c{} IS NULL", c),
            Pred::NotNull(c) => format!("c{} IS NOT NULL", c),
            Pred::And(p, q) => format!("({}) AND ({})", p.sql(), q.sql()),
            Pred::Or(p, q) => format!("({}) OR ({})", p.sql(), q.sql()),
        }
    }
    fn coq(&self) -> String {
        match self {
            Pred::CmpC(c, o, v) => format!("(PCmpC {} {} {})", c, o.coq(), zl(*v)),
            Pred::CmpCol(a, o, b) => format!("(PCmpCol {} {} {})", a, o.coq(), b),
            Pred::IsNull(c) => format!("(PIsNull {})", c),
            Pred::NotNull(c) => format!("(PNotNull {})", c),
            Pred::And(p, q) => format!("(PAnd {} {})", p.coq(), q.coq()),
            Pred::Or(p, q) => format!("(POr {} {})", p.coq(), q.coq()),
        }
    }
    /// the harness's own three-valued evaluation (used by the C10 checker)
    fn ev(&self, r: &[V]) -> Option<bool> {
        match self {
            Pred::CmpC(c, o, v) => r[*c].map(|x| o.ev(x, *v)),
            Pred::CmpCol(a, o, b) => match (r[*a], r[*b]) {
                (Some(x), Some(y)) => Some(o.ev(x, y)),
                _ => None,
            },
            Pred::IsNull(c) => Some(r[*c].is_none()),
            Pred::NotNull(c) => Some(r[*c].is_some()),
            Pred::And(p, q) => match (p.ev(r), q.ev(r)) {
                (Some(false), _) | (_, Some(false)) => Some(false),
                (Some(true), Some(true)) => Some(true),
                _ => None,
            },
            Pred::Or(p, q) => match (p.ev(r), q.ev(r)) {
                (Some(true), _) | (_, Some(true)) => Some(true),
                (Some(false), Some(false)) => Some(false),
                _ => None,
            },
        }
    }
}

#[derive(Clone, Debug)]
enum SExpr {
    Const(V),
    Col(usize),
    AddC(usize, i64),
}
impl SExpr {
    fn sql(&self) -> String {
        match self {
            SExpr::Const(None) => "NULL".into(),
            SExpr::Const(Some(v)) => format!("{}", v),
            SExpr::Col(c) => format!("c{}", c),
            SExpr::AddC(c, k) => {
                if *k < 0 {
                    format!("c{} - {}", c, -k)
                } else {
                    format!("c{} + {}", c, k)
                }
            }
        }
    }
    fn coq(&self) -> String {
        match self {
            SExpr::Const(None) => "(EConst None)".into(),
            SExpr::Const(Some(v)) => format!("(EConst (Some {}))", zl(*v)),
            SExpr::Col(c) => format!("(ECol {})", c),
            SExpr::AddC(c, k) => format!("(EAddC {} {})", c, zl(*k)),
        }
    }
    fn ev(&self, r: &[V]) -> V {
        match self {
            SExpr::Const(v) => *v,
            SExpr::Col(c) => r[*c],
            SExpr::AddC(c, k) => r[*c].map(|x| x.wrapping_add(*k)),
        }
    }
}

#[derive(Clone, Debug)]
enum Stmt {
    Insert { t: usize, rows: Vec<Row> },
    InsertSelect { dst: usize, src: usize, sel: Vec<Row> },
    Update { t: usize, asg: Vec<(usize, SExpr)>, w: Option<Pred> },
    Delete { t: usize, w: Option<Pred> },
    Truncate { t: usize },
    CreateIndex { name: i64, t: usize, uniq: bool, cols: Vec<usize> },
    DropIndex { name: i64 },
    AddPk { t: usize, cols: Vec<usize> },
    AddUnique { t: usize, cols: Vec<usize> },
    AddCheck { t: usize, c: Pred },
    Begin,
    Commit,
    Rollback,
    Savepoint(i64),
    RollbackTo(i64),
    Release(i64),
}

fn zl(z: i64) -> String {
    if z < 0 {
        format!("({})%Z", z)
    } else {
        format!("{}%Z", z)
    }
}
fn vz(v: &V) -> String {
    match v {
        None => format!("({})", NULLC),
        Some(x) if *x < 0 => format!("({})", x),
        Some(x) => format!("{}", x),
    }
}
fn row_coq(r: &[V]) -> String {
    format!("[{}]", r.iter().map(vz).collect::<Vec<_>>().join(";"))
}
fn rows_coq(rs: &[Row]) -> String {
    format!("[{}]%Z", rs.iter().map(|r| row_coq(r)).collect::<Vec<_>>().join(";"))
}
fn nats(l: &[usize]) -> String {
    format!("[{}]", l.iter().map(|x| x.to_string()).collect::<Vec<_>>().join(";"))
}
fn cols_sql(l: &[usize]) -> String {
    l.iter().map(|c| format!("c{}", c)).collect::<Vec<_>>().join(", ")
}
fn val_sql(v: &V) -> String {
    match v {
        None => "NULL".into(),
        Some(x) => format!("{}", x),
    }
}

impl Stmt {
    fn sql(&self) -> String {
        match self {
            Stmt::Insert { t, rows } => format!(
                "INSERT INTO t{} VALUES {}",
                t,
                rows.iter().map(|r| format!("({})", r.iter().map(val_sql).collect::<Vec<_>>().join(", "))).collect::<Vec<_>>().join(", ")
            ),
            Stmt::InsertSelect { dst, src, .. } => format!("INSERT INTO t{} SELECT * FROM t{}", dst, src),
            Stmt::Update { t, asg, w } => format!(
                "UPDATE t{} SET {}{}",
                t,
                asg.iter().map(|(c, e)| format!("c{} = {}", c, e.sql())).collect::<Vec<_>>().join(", "),
                w.as_ref().map(|p| format!(" WHERE {}", p.sql())).unwrap_or_default()
            ),
            Stmt::Delete { t, w } => format!("DELETE FROM t{}{}", t, w.as_ref().map(|p| format!(" WHERE {}", p.sql())).unwrap_or_default()),
            Stmt::Truncate { t } => format!("TRUNCATE TABLE t{}", t),
            Stmt::CreateIndex { name, t, uniq, cols } => {
                format!("CREATE {}INDEX ix{} ON t{} ({})", if *uniq { "UNIQUE " } else { "" }, name, t, cols_sql(cols))
            }
            Stmt::DropIndex { name } => format!("DROP INDEX ix{}", name),
            Stmt::AddPk { t, cols } => format!("ALTER TABLE t{} ADD CONSTRAINT apk PRIMARY KEY ({})", t, cols_sql(cols)),
            Stmt::AddUnique { t, cols } => format!("ALTER TABLE t{} ADD CONSTRAINT auq UNIQUE ({})", t, cols_sql(cols)),
            Stmt::AddCheck { t, c } => format!("ALTER TABLE t{} ADD CHECK ({})", t, c.sql()),
            Stmt::Begin => "BEGIN".into(),
            Stmt::Commit => "COMMIT".into(),
            Stmt::Rollback => "ROLLBACK".into(),
            Stmt::Savepoint(n) => format!("SAVEPOINT s{}", n),
            Stmt::RollbackTo(n) => format!("ROLLBACK TO SAVEPOINT s{}", n),
            Stmt::Release(n) => format!("RELEASE SAVEPOINT s{}", n),
        }
    }
    fn coq(&self) -> String {
        let w_coq = |w: &Option<Pred>| w.as_ref().map(|p| format!("(Some {})", p.coq())).unwrap_or("None".into());
        match self {
            Stmt::Insert { t, rows } => format!("SInsert {} (drs {})", t, rows_coq(rows)),
            Stmt::InsertSelect { dst, src, sel } => format!("SInsertSelect {} {} (drs {})", dst, src, rows_coq(sel)),
            Stmt::Update { t, asg, w } => format!(
                "SUpdate {} [{}] {}",
                t,
                asg.iter().map(|(c, e)| format!("({}, {})", c, e.coq())).collect::<Vec<_>>().join(";"),
                w_coq(w)
            ),
            Stmt::Delete { t, w } => format!("SDelete {} {}", t, w_coq(w)),
            Stmt::Truncate { t } => format!("STruncate {}", t),
            Stmt::CreateIndex { name, t, uniq, cols } => format!("SCreateIndex {} {} {} {}", zl(*name), t, uniq, nats(cols)),
            Stmt::DropIndex { name } => format!("SDropIndex {}", zl(*name)),
            Stmt::AddPk { t, cols } => format!("SAddPk {} {}", t, nats(cols)),
            Stmt::AddUnique { t, cols } => format!("SAddUnique {} {}", t, nats(cols)),
            Stmt::AddCheck { t, c } => format!("SAddCheck {} {}", t, c.coq()),
            Stmt::Begin => "SBegin".into(),
            Stmt::Commit => "SCommit".into(),
            Stmt::Rollback => "SRollback".into(),
            Stmt::Savepoint(n) => format!("SSavepoint {}", zl(*n)),
            Stmt::RollbackTo(n) => format!("SRollbackTo {}", zl(*n)),
            Stmt::Release(n) => format!("SRelease {}", zl(*n)),
        }
    }
    fn kind(&self) -> &'static str {
        match self {
            Stmt::Insert { rows, .. } => {
                if rows.len() == 1 {
                    "insert-1"
                } else {
                    "insert-n"
                }
            }
            Stmt::InsertSelect { .. } => "insert-select",
            Stmt::Update { .. } => "update",
            Stmt::Delete { w: Some(_), .. } => "delete-where",
            Stmt::Delete { w: None, .. } => "delete-all",
            Stmt::Truncate { .. } => "truncate",
            Stmt::CreateIndex { .. } => "create-index",
            Stmt::DropIndex { .. } => "drop-index",
            Stmt::AddPk { .. } => "alter-add-pk",
            Stmt::AddUnique { .. } => "alter-add-unique",
            Stmt::AddCheck { .. } => "alter-add-check",
            Stmt::Begin => "begin",
            Stmt::Commit => "commit",
            Stmt::Rollback => "rollback",
            Stmt::Savepoint(_) => "savepoint",
            Stmt::RollbackTo(_) => "rollback-to",
            Stmt::Release(_) => "release",
        }
    }
    fn target(&self) -> Option<usize> {
        match self {
            Stmt::Insert { t, .. }
            | Stmt::Update { t, .. }
            | Stmt::Delete { t, .. }
            | Stmt::Truncate { t }
            | Stmt::CreateIndex { t, .. }
            | Stmt::AddPk { t, .. }
            | Stmt::AddUnique { t, .. }
            | Stmt::AddCheck { t, .. } => Some(*t),
            Stmt::InsertSelect { dst, .. } => Some(*dst),
            _ => None,
        }
    }
}

// ------------------------------------------------------------------------------------------
// what the harness itself declared (independent of the engine's bookkeeping)
// ------------------------------------------------------------------------------------------

#[derive(Clone, Debug)]
struct UIdx {
    name: i64,
    uniq: bool,
    cols: Vec<usize>,
}

#[derive(Clone, Debug)]
struct Decl {
    ncols: usize,
    notnull: Vec<bool>,
    pk: Option<Vec<usize>>,
    uniqs: Vec<Vec<usize>>,
    /// (predicate, added by ALTER and not (yet) visible to the executors)
    checks: Vec<(Pred, bool)>,
    uidx: Vec<UIdx>,
}

impl Decl {
    fn create_sql(&self, t: usize) -> String {
        let mut parts: Vec<String> = (0..self.ncols).map(|c| format!("c{} INTEGER{}", c, if self.notnull[c] && !self.pk.as_ref().map(|p| p.contains(&c)).unwrap_or(false) { " NOT NULL" } else { "" })).collect();
        if let Some(pk) = &self.pk {
            parts.push(format!("PRIMARY KEY ({})", cols_sql(pk)));
        }
        for u in &self.uniqs {
            parts.push(format!("UNIQUE ({})", cols_sql(u)));
        }
        for (c, _) in &self.checks {
            parts.push(format!("CHECK ({})", c.sql()));
        }
        format!("CREATE TABLE t{} ({})", t, parts.join(", "))
    }
    fn out_of_order(cols: &[usize]) -> bool {
        cols.windows(2).any(|w| w[0] >= w[1])
    }
}

fn proj(cols: &[usize], r: &[V]) -> Row {
    cols.iter().map(|c| r[*c]).collect()
}

// ------------------------------------------------------------------------------------------
// observation of the implementation
// ------------------------------------------------------------------------------------------

#[derive(Clone, Debug, Default)]
struct TObs {
    rows: Vec<Row>,
    pk: Option<Vec<(Row, usize)>>,
    uq: Vec<Vec<(Row, usize)>>,
    mode: bool,
    uidx: Vec<(i64, Vec<(Row, Vec<usize>)>)>,
}

fn conv(v: &SqlValue) -> V {
    match v {
        SqlValue::Null => None,
        SqlValue::Integer(i) | SqlValue::Bigint(i) => Some(*i),
        SqlValue::Double(f) | SqlValue::Numeric(f) => Some(*f as i64),
        other => panic!("harness: unexpected value {:?}", other),
    }
}
fn conv_row(r: &[SqlValue]) -> Row {
    r.iter().map(conv).collect()
}

fn observe(db: &Database, t: usize) -> TObs {
    let name = format!("T{}", t);
    let tb = db.get_table(&name).unwrap_or_else(|| panic!("harness: table {} missing", name));
    let mut o = TObs::default();
    o.rows = tb.scan().iter().map(|r| conv_row(&r.values)).collect();
    o.pk = tb.primary_key_index().map(|m| {
        let mut v: Vec<(Row, usize)> = m.iter().map(|(k, i)| (conv_row(k), *i)).collect();
        v.sort();
        v
    });
    o.uq = tb
        .unique_indexes()
        .iter()
        .map(|m| {
            let mut v: Vec<(Row, usize)> = m.iter().map(|(k, i)| (conv_row(k), *i)).collect();
            v.sort();
            v
        })
        .collect();
    o.mode = tb.is_in_append_mode();
    let mut names = db.list_indexes();
    names.sort();
    for ix in names {
        let md = db.get_index(&ix).unwrap_or_else(|| panic!("harness: index metadata {} missing", ix));
        if md.table_name.to_uppercase() != name {
            continue;
        }
        let id: i64 = ix.trim_start_matches("IX").parse().unwrap_or_else(|_| panic!("harness: index name {}", ix));
        match db.get_index_data(&ix) {
            Some(IndexData::InMemory { data }) => {
                o.uidx.push((id, data.iter().map(|(k, v)| (conv_row(k), v.clone())).collect()));
            }
            _ => panic!("harness: index {} is not in memory", ix),
        }
    }
    o.uidx.sort_by_key(|x| x.0);
    o
}

fn key_coq(k: &[V]) -> String {
    format!("{}%Z", row_coq(k))
}
impl TObs {
    fn coq(&self) -> String {
        let m = |v: &Vec<(Row, usize)>| format!("[{}]", v.iter().map(|(k, i)| format!("({},{})", key_coq(k), i)).collect::<Vec<_>>().join(";"));
        format!(
            "OT {} {} [{}] {} [{}]",
            rows_coq(&self.rows),
            match &self.pk {
                Some(v) => format!("(Some {})", m(v)),
                None => "None".into(),
            },
            self.uq.iter().map(m).collect::<Vec<_>>().join(";"),
            self.mode,
            self.uidx
                .iter()
                .map(|(n, d)| format!(
                    "({}, [{}])",
                    zl(*n),
                    d.iter().map(|(k, ids)| format!("({},{})", key_coq(k), nats(ids))).collect::<Vec<_>>().join(";")
                ))
                .collect::<Vec<_>>()
                .join(";")
        )
    }
}

// ------------------------------------------------------------------------------------------
// the two oracles
// ------------------------------------------------------------------------------------------

#[derive(Clone, Debug, PartialEq)]
enum Viol {
    // C10
    Pk,
    Uniq(usize),
    NotNull(usize),
    Check(usize),
    UniqIndex(i64),
    // C15
    PkMap,
    UqMap(usize),
    UserIndex(i64),
    IndexSet,
}
impl Viol {
    fn is_c10(&self) -> bool {
        matches!(self, Viol::Pk | Viol::Uniq(_) | Viol::NotNull(_) | Viol::Check(_) | Viol::UniqIndex(_))
    }
}

fn has_dup<I: Iterator<Item = Row>>(it: I) -> bool {
    let mut seen: HashMap<Row, ()> = HashMap::new();
    for k in it {
        if seen.insert(k, ()).is_some() {
            return true;
        }
    }
    false
}

/// C10: every declared constraint evaluated on the table contents
fn check_constraints(d: &Decl, rows: &[Row]) -> Vec<Viol> {
    let mut v = Vec::new();
    if let Some(pk) = &d.pk {
        if has_dup(rows.iter().map(|r| proj(pk, r))) {
            v.push(Viol::Pk);
        }
    }
    for (i, u) in d.uniqs.iter().enumerate() {
        if has_dup(rows.iter().map(|r| proj(u, r)).filter(|k| k.iter().all(|x| x.is_some()))) {
            v.push(Viol::Uniq(i));
        }
    }
    for c in 0..d.ncols {
        if d.notnull[c] && rows.iter().any(|r| r[c].is_none()) {
            v.push(Viol::NotNull(c));
        }
    }
    for (i, (p, _)) in d.checks.iter().enumerate() {
        if rows.iter().any(|r| p.ev(r) == Some(false)) {
            v.push(Viol::Check(i));
        }
    }
    for u in &d.uidx {
        if u.uniq && has_dup(rows.iter().map(|r| proj(&u.cols, r)).filter(|k| k.iter().all(|x| x.is_some()))) {
            v.push(Viol::UniqIndex(u.name));
        }
    }
    v
}

/// C15: every index structure against a from-scratch rebuild of the scan
fn check_mirror(d: &Decl, o: &TObs) -> Vec<Viol> {
    let mut v = Vec::new();
    let rebuild = |cols: &[usize], skip_null: bool| -> Vec<(Row, usize)> {
        let mut m: BTreeMap<Row, usize> = BTreeMap::new();
        for (i, r) in o.rows.iter().enumerate() {
            let k = proj(cols, r);
            if skip_null && k.iter().any(|x| x.is_none()) {
                continue;
            }
            m.insert(k, i);
        }
        m.into_iter().collect()
    };
    match (&d.pk, &o.pk) {
        (Some(cols), Some(m)) => {
            if *m != rebuild(cols, false) {
                v.push(Viol::PkMap);
            }
        }
        (None, None) => {}
        _ => v.push(Viol::PkMap),
    }
    if d.uniqs.len() != o.uq.len() {
        v.push(Viol::UqMap(usize::MAX));
    } else {
        for (i, cols) in d.uniqs.iter().enumerate() {
            if o.uq[i] != rebuild(cols, true) {
                v.push(Viol::UqMap(i));
            }
        }
    }
    if d.uidx.len() != o.uidx.len() || d.uidx.iter().any(|u| !o.uidx.iter().any(|(n, _)| *n == u.name)) {
        v.push(Viol::IndexSet);
    }
    for u in &d.uidx {
        if let Some((_, data)) = o.uidx.iter().find(|(n, _)| *n == u.name) {
            let mut exp: BTreeMap<Row, Vec<usize>> = BTreeMap::new();
            for (i, r) in o.rows.iter().enumerate() {
                exp.entry(proj(&u.cols, r)).or_default().push(i);
            }
            let mut got: BTreeMap<Row, Vec<usize>> = BTreeMap::new();
            let mut dup_key = false;
            for (k, ids) in data {
                let mut s = ids.clone();
                s.sort();
                if got.insert(k.clone(), s).is_some() {
                    dup_key = true;
                }
            }
            if dup_key || got != exp {
                v.push(Viol::UserIndex(u.name));
            }
        }
    }
    v
}

// ------------------------------------------------------------------------------------------
// history generation
// ------------------------------------------------------------------------------------------

#[derive(Clone, Copy, PartialEq, Debug)]
enum Profile {
    NoUserIndex,
    NoDelete,
    All,
}

struct Hist {
    decl: Vec<Decl>,
    in_txn: bool,
    saves: Vec<i64>,
    next_ix: i64,
    profile: Profile,
    /// the open transaction began over a UNIQUE index whose table already held duplicate keys:
    /// ROLLBACK would re-create indexes in HashMap order and stop at the refused one (not reproducible)
    no_rollback: bool,
}

fn gen_pred(r: &mut Rng, ncols: usize, depth: u32) -> Pred {
    let c = r.below(ncols as u64) as usize;
    let ops = [Op::Eq, Op::Ne, Op::Lt, Op::Le, Op::Gt, Op::Ge];
    match r.below(if depth == 0 { 10 } else { 7 }) {
        0..=3 => Pred::CmpC(c, *r.pick(&ops), r.range(0, 9)),
        4 => Pred::CmpCol(c, *r.pick(&ops), r.below(ncols as u64) as usize),
        5 => Pred::IsNull(c),
        6 => Pred::NotNull(c),
        7 | 8 => Pred::And(Box::new(gen_pred(r, ncols, depth + 1)), Box::new(gen_pred(r, ncols, depth + 1))),
        _ => Pred::Or(Box::new(gen_pred(r, ncols, depth + 1)), Box::new(gen_pred(r, ncols, depth + 1))),
    }
}

/// a CHECK that most small rows satisfy
fn gen_check(r: &mut Rng, ncols: usize) -> Pred {
    let c = r.below(ncols as u64) as usize;
    match r.below(5) {
        0 => Pred::CmpC(c, Op::Le, r.range(6, 12)),
        1 => Pred::CmpC(c, Op::Ne, r.range(0, 9)),
        2 => Pred::Or(Box::new(Pred::CmpC(c, Op::Ge, r.range(0, 3))), Box::new(Pred::IsNull((c + 1) % ncols))),
        3 => Pred::CmpCol(c, Op::Le, (c + 1) % ncols),
        _ => Pred::And(Box::new(Pred::CmpC(c, Op::Ge, 0)), Box::new(Pred::CmpC((c + 1) % ncols, Op::Lt, r.range(8, 14)))),
    }
}

fn gen_cols(r: &mut Rng, ncols: usize, n: usize) -> Vec<usize> {
    let mut v: Vec<usize> = Vec::new();
    while v.len() < n.min(ncols) {
        let c = r.below(ncols as u64) as usize;
        if !v.contains(&c) {
            v.push(c);
        }
    }
    v
}

fn gen_decl(r: &mut Rng, ncols: usize, second: bool, first: Option<&Decl>) -> Decl {
    let mut d = Decl { ncols, notnull: vec![false; ncols], pk: None, uniqs: vec![], checks: vec![], uidx: vec![] };
    // primary key shape
    let pk_shape = if second { r.below(6) } else { r.below(10) };
    d.pk = match pk_shape {
        0 | 1 => None,
        2..=6 => Some(vec![0]),
        7 => Some(vec![0, 1]),
        8 => Some(vec![1, 0]), // declared out of column order
        _ => Some(vec![1]),
    };
    for c in 0..ncols {
        if r.chance(1, 6) {
            d.notnull[c] = true;
        }
    }
    if let Some(pk) = &d.pk {
        for c in pk {
            d.notnull[*c] = true;
        }
    }
    if second {
        // often make the second table a bulk-transfer partner of the first: NOT NULL wherever the first is
        if let Some(f) = first {
            if r.chance(3, 4) {
                for c in 0..ncols.min(f.ncols) {
                    if f.notnull[c] {
                        d.notnull[c] = true;
                    }
                }
            }
        }
    }
    let nu = match r.below(10) {
        0..=3 => 0,
        4..=7 => 1,
        _ => 2,
    };
    for _ in 0..nu {
        let cols = match r.below(6) {
            0..=2 => vec![1 + r.below(ncols as u64 - 1) as usize],
            3 => gen_cols(r, ncols, 2),
            4 => {
                let mut c = gen_cols(r, ncols, 2);
                c.sort();
                c.reverse(); // out of column order
                c
            }
            _ => {
                let mut c = gen_cols(r, ncols, 2);
                c.sort();
                c
            }
        };
        d.uniqs.push(cols);
    }
    let nc = match r.below(10) {
        0..=4 => 0,
        5..=8 => 1,
        _ => 2,
    };
    for _ in 0..nc {
        d.checks.push((gen_check(r, ncols), false));
    }
    d
}

fn gen_val(r: &mut Rng) -> V {
    match r.below(20) {
        0 | 1 => None,
        2 => Some(r.range(10, 14)),
        _ => Some(r.range(0, 9)),
    }
}

fn gen_row(r: &mut Rng, d: &Decl, rows: &[Row], fresh_pk: bool) -> Row {
    let mut row: Row = (0..d.ncols).map(|c| if d.notnull[c] && r.chance(9, 10) { Some(r.range(0, 9)) } else { gen_val(r) }).collect();
    if fresh_pk {
        if let Some(pk) = &d.pk {
            // ascending key: larger than everything present (drives the append-mode tracker)
            let c = pk[0];
            let mx = rows.iter().filter_map(|x| x[c]).max().unwrap_or(0);
            row[c] = Some(mx + 1 + r.below(2) as i64);
        }
    }
    row
}

fn gen_stmt(r: &mut Rng, h: &Hist, cur: &[TObs]) -> Stmt {
    let nt = h.decl.len();
    let t = if r.chance(3, 4) { 0 } else { r.below(nt as u64) as usize };
    let d = &h.decl[t];
    let rows = &cur[t].rows;
    let allow_uidx = h.profile != Profile::NoUserIndex;
    let allow_del = h.profile != Profile::NoDelete;
    loop {
        let k = r.below(100);
        match k {
            0..=19 => {
                let fresh = r.chance(1, 2);
                return Stmt::Insert { t, rows: vec![gen_row(r, d, rows, fresh)] };
            }
            20..=33 => {
                let n = 2 + r.below(3) as usize;
                let fresh = r.chance(1, 2);
                let mut rs: Vec<Row> = Vec::new();
                for _ in 0..n {
                    let mut all = rows.clone();
                    all.extend(rs.iter().cloned());
                    let mut row = gen_row(r, d, &all, fresh);
                    // sometimes repeat a key of an earlier row of the same statement
                    if !rs.is_empty() && r.chance(1, 6) {
                        let src = r.pick(&rs).clone();
                        let c = r.below(d.ncols as u64) as usize;
                        row[c] = src[c];
                    }
                    rs.push(row);
                }
                return Stmt::Insert { t, rows: rs };
            }
            34..=39 => {
                if nt < 2 {
                    continue;
                }
                let src = if r.chance(1, 10) { t } else { (t + 1) % nt };
                return Stmt::InsertSelect { dst: t, src, sel: vec![] };
            }
            40..=59 => {
                let na = 1 + r.below(2) as usize;
                let mut asg = Vec::new();
                for _ in 0..na {
                    let c = r.below(d.ncols as u64) as usize;
                    let e = match r.below(10) {
                        0..=4 => SExpr::Const(gen_val(r)),
                        5 | 6 => SExpr::Col(r.below(d.ncols as u64) as usize),
                        7 => SExpr::AddC(c, 10 + r.range(0, 5)),
                        8 => SExpr::AddC(c, r.range(-3, 3)),
                        _ => SExpr::AddC(r.below(d.ncols as u64) as usize, r.range(-2, 2)),
                    };
                    asg.push((c, e));
                }
                let w = match r.below(10) {
                    0 | 1 => None,
                    2..=4 => {
                        // a WHERE that hits an existing row through some column (often the PK column: fast path)
                        let c = if let (Some(pk), true) = (&d.pk, r.chance(1, 2)) { pk[0] } else { r.below(d.ncols as u64) as usize };
                        let v = if rows.is_empty() { r.range(0, 9) } else { r.pick(rows)[c].unwrap_or(0) };
                        Some(Pred::CmpC(c, Op::Eq, v))
                    }
                    _ => Some(gen_pred(r, d.ncols, 0)),
                };
                return Stmt::Update { t, asg, w };
            }
            60..=69 => {
                if !allow_del {
                    continue;
                }
                let w = match r.below(10) {
                    0..=4 => {
                        let c = if let (Some(pk), true) = (&d.pk, r.chance(2, 3)) { pk[0] } else { r.below(d.ncols as u64) as usize };
                        let v = if rows.is_empty() { r.range(0, 9) } else { r.pick(rows)[c].unwrap_or(0) };
                        Pred::CmpC(c, Op::Eq, v)
                    }
                    _ => gen_pred(r, d.ncols, 0),
                };
                return Stmt::Delete { t, w: Some(w) };
            }
            70 | 71 => {
                if !allow_del {
                    continue;
                }
                return Stmt::Delete { t, w: None };
            }
            72 | 73 => {
                if !allow_del {
                    continue;
                }
                return Stmt::Truncate { t };
            }
            74..=80 => {
                if !allow_uidx || h.in_txn {
                    continue;
                }
                if h.decl.iter().map(|d| d.uidx.len()).sum::<usize>() >= 3 && r.chance(3, 4) {
                    continue;
                }
                let n = if r.chance(2, 3) { 1 } else { 2 };
                let name = if r.chance(1, 12) && !d.uidx.is_empty() { d.uidx[0].name } else { h.next_ix };
                return Stmt::CreateIndex { name, t, uniq: r.chance(1, 2), cols: gen_cols(r, d.ncols, n) };
            }
            81 | 82 => {
                if !allow_uidx || h.in_txn {
                    continue;
                }
                let all: Vec<i64> = h.decl.iter().flat_map(|d| d.uidx.iter().map(|u| u.name)).collect();
                let name = if all.is_empty() || r.chance(1, 8) { 99 } else { *r.pick(&all) };
                return Stmt::DropIndex { name };
            }
            83..=86 => {
                if h.in_txn {
                    continue;
                }
                match r.below(4) {
                    0 => return Stmt::AddPk { t, cols: if r.chance(2, 3) { vec![0] } else { gen_cols(r, d.ncols, 2) } },
                    1 | 2 => {
                        let n = if r.chance(2, 3) { 1 } else { 2 };
                        return Stmt::AddUnique { t, cols: gen_cols(r, d.ncols, n) };
                    }
                    _ => return Stmt::AddCheck { t, c: gen_check(r, d.ncols) },
                }
            }
            87..=89 => return Stmt::Begin,
            90 | 91 => return Stmt::Commit,
            92 | 93 => {
                if h.no_rollback {
                    continue;
                }
                return Stmt::Rollback;
            }
            94 | 95 => return Stmt::Savepoint(r.range(1, 3)),
            96 | 97 => {
                if !allow_del && allow_uidx {
                    continue;
                }
                let n = if h.saves.is_empty() || r.chance(1, 6) { r.range(1, 3) } else { *r.pick(&h.saves) };
                return Stmt::RollbackTo(n);
            }
            _ => {
                let n = if h.saves.is_empty() || r.chance(1, 6) { r.range(1, 3) } else { *r.pick(&h.saves) };
                return Stmt::Release(n);
            }
        }
    }
}

// ------------------------------------------------------------------------------------------
// scripted histories: one per known class, so that every class is reproduced on every run
// ------------------------------------------------------------------------------------------

fn base_decl(ncols: usize, pk: Option<Vec<usize>>, uniqs: Vec<Vec<usize>>, nn: &[usize]) -> Decl {
    let mut d = Decl { ncols, notnull: vec![false; ncols], pk, uniqs, checks: vec![], uidx: vec![] };
    for c in nn {
        d.notnull[*c] = true;
    }
    if let Some(pk) = d.pk.clone() {
        for c in pk {
            d.notnull[c] = true;
        }
    }
    d
}
fn ins(t: usize, rows: &[&[i64]]) -> Stmt {
    Stmt::Insert { t, rows: rows.iter().map(|r| r.iter().map(|x| if *x == NULLC { None } else { Some(*x) }).collect()).collect() }
}

fn scripted(k: usize) -> Option<(Vec<Decl>, Vec<Stmt>)> {
    let plain = || base_decl(3, None, vec![], &[]);
    let pk0 = || base_decl(3, Some(vec![0]), vec![], &[]);
    Some(match k {
        // multi-row UPDATE gives two rows the same new PRIMARY KEY
        0 => (vec![pk0(), plain()], vec![ins(0, &[&[1, 10, 100], &[2, 20, 200], &[3, 30, 300]]), Stmt::Update { t: 0, asg: vec![(0, SExpr::Const(Some(7)))], w: Some(Pred::CmpC(0, Op::Ge, 2)) }, ins(0, &[&[7, 1, 1]])]),
        // ... and the same UNIQUE key (copied from a column with duplicates)
        1 => (
            vec![base_decl(3, Some(vec![0]), vec![vec![1]], &[]), plain()],
            vec![ins(0, &[&[1, 10, 5], &[2, 20, 5], &[3, 30, 6]]), Stmt::Update { t: 0, asg: vec![(1, SExpr::Col(2))], w: None }],
        ),
        // multi-row INSERT with equal keys passes a UNIQUE index
        2 => (
            vec![pk0(), plain()],
            vec![Stmt::CreateIndex { name: 1, t: 0, uniq: true, cols: vec![1] }, ins(0, &[&[1, 10, 0]]), ins(0, &[&[2, 10, 0]]), ins(0, &[&[3, 40, 0], &[4, 40, 0]])],
        ),
        // UPDATE against a UNIQUE index: a single-row collision is rejected (repaired), two rows given the same new key are not
        3 => (
            vec![pk0(), plain()],
            vec![Stmt::CreateIndex { name: 1, t: 0, uniq: true, cols: vec![1] }, ins(0, &[&[1, 10, 0], &[2, 20, 0]]), Stmt::Update { t: 0, asg: vec![(1, SExpr::Const(Some(10)))], w: Some(Pred::CmpC(0, Op::Eq, 2)) }, Stmt::Update { t: 0, asg: vec![(1, SExpr::Const(Some(30)))], w: None }],
        ),
        // DELETE ... WHERE leaves user indexes stale
        4 => (
            vec![pk0(), plain()],
            vec![Stmt::CreateIndex { name: 1, t: 0, uniq: false, cols: vec![1] }, ins(0, &[&[1, 10, 0], &[2, 20, 0], &[3, 30, 0]]), Stmt::Delete { t: 0, w: Some(Pred::CmpC(0, Op::Eq, 1)) }, ins(0, &[&[4, 40, 0]])],
        ),
        // DELETE without WHERE
        5 => (vec![pk0(), plain()], vec![Stmt::CreateIndex { name: 1, t: 0, uniq: false, cols: vec![1] }, ins(0, &[&[1, 10, 0], &[2, 20, 0]]), Stmt::Delete { t: 0, w: None }, ins(0, &[&[4, 40, 0]])]),
        // TRUNCATE
        6 => (vec![pk0(), plain()], vec![Stmt::CreateIndex { name: 1, t: 0, uniq: true, cols: vec![1] }, ins(0, &[&[1, 10, 0], &[2, 20, 0]]), Stmt::Truncate { t: 0 }, ins(0, &[&[4, 10, 0]])]),
        // the former append-mode shortcut of the bulk-transfer path (repaired: the statement is rejected)
        7 => (
            vec![pk0(), base_decl(3, None, vec![], &[0])],
            vec![ins(0, &[&[1, 0, 0]]), ins(0, &[&[2, 0, 0]]), ins(0, &[&[3, 0, 0]]), ins(0, &[&[4, 0, 0]]), ins(1, &[&[2, 9, 9]]), Stmt::InsertSelect { dst: 0, src: 1, sel: vec![] }],
        ),
        // composite key declared out of column order (repaired: probe keys are built in declaration order)
        8 => (vec![base_decl(3, Some(vec![1, 0]), vec![], &[]), plain()], vec![ins(0, &[&[1, 2, 0]]), ins(0, &[&[2, 1, 0]]), ins(0, &[&[1, 2, 1]])]),
        9 => (vec![base_decl(3, Some(vec![0]), vec![vec![2, 1]], &[]), plain()], vec![ins(0, &[&[1, 1, 2]]), ins(0, &[&[2, 2, 1]]), ins(0, &[&[3, 1, 2]])]),
        // CREATE UNIQUE INDEX over duplicates is refused (repaired); ALTER TABLE ADD UNIQUE / PRIMARY KEY / CHECK over rows that violate it
        10 => (vec![pk0(), plain()], vec![ins(0, &[&[1, 10, 0], &[2, 10, 0]]), Stmt::CreateIndex { name: 1, t: 0, uniq: true, cols: vec![1] }]),
        11 => (vec![pk0(), plain()], vec![ins(0, &[&[1, 10, 0], &[2, 10, 0]]), Stmt::AddUnique { t: 0, cols: vec![1] }]),
        12 => (vec![plain(), plain()], vec![ins(0, &[&[1, 10, 0], &[1, 20, 0]]), Stmt::AddPk { t: 0, cols: vec![0] }]),
        13 => (vec![pk0(), plain()], vec![ins(0, &[&[1, 10, 0]]), Stmt::AddCheck { t: 0, c: Pred::CmpC(1, Op::Lt, 5) }]),
        // ALTER TABLE ADD CHECK is not enforced afterwards (until another ALTER copies the schema)
        14 => (
            vec![pk0(), plain()],
            vec![Stmt::AddCheck { t: 0, c: Pred::CmpC(1, Op::Lt, 5) }, ins(0, &[&[1, 1, 0]]), ins(0, &[&[2, 9, 0]])],
        ),
        15 => (
            vec![pk0(), plain()],
            vec![Stmt::AddCheck { t: 0, c: Pred::CmpC(1, Op::Lt, 5) }, Stmt::AddUnique { t: 0, cols: vec![2] }, ins(0, &[&[1, 1, 0]]), ins(0, &[&[2, 9, 1]])],
        ),
        // ROLLBACK rebuilds the user indexes (repaired); ROLLBACK TO SAVEPOINT leaves them as they were (C14)
        16 => (vec![pk0(), plain()], vec![Stmt::CreateIndex { name: 1, t: 0, uniq: false, cols: vec![1] }, ins(0, &[&[1, 10, 0]]), Stmt::Begin, ins(0, &[&[2, 20, 0]]), Stmt::Rollback]),
        17 => (
            vec![pk0(), plain()],
            vec![Stmt::CreateIndex { name: 1, t: 0, uniq: false, cols: vec![1] }, Stmt::Begin, ins(0, &[&[1, 10, 0]]), Stmt::Savepoint(1), ins(0, &[&[2, 20, 0]]), Stmt::RollbackTo(1), Stmt::Commit],
        ),
        // i64 overflow in SET c = c + k (now an evaluation error, formerly a panic)
        18 => (vec![pk0(), plain()], vec![ins(0, &[&[1, 9223372036854775807, 0]]), Stmt::Update { t: 0, asg: vec![(1, SExpr::AddC(1, 1))], w: None }]),
        // a clean, long-ish history exercising the accepted paths
        19 => (
            vec![base_decl(4, Some(vec![0, 1]), vec![vec![2], vec![1, 3]], &[3]), base_decl(4, None, vec![], &[0, 1, 3])],
            vec![
                ins(0, &[&[1, 1, 1, 1], &[1, 2, 2, 1], &[2, 1, NULLC, 2]]),
                ins(0, &[&[1, 1, 5, 5]]),
                ins(0, &[&[3, 3, 2, 3]]),
                ins(0, &[&[3, 3, NULLC, 3]]),
                Stmt::Update { t: 0, asg: vec![(0, SExpr::AddC(0, 10))], w: None },
                Stmt::Update { t: 0, asg: vec![(2, SExpr::Const(Some(1)))], w: Some(Pred::CmpC(0, Op::Eq, 13)) },
                Stmt::Delete { t: 0, w: Some(Pred::CmpC(2, Op::Eq, 2)) },
                ins(1, &[&[5, 5, 5, 5], &[6, 6, NULLC, 6]]),
                Stmt::InsertSelect { dst: 0, src: 1, sel: vec![] },
                Stmt::InsertSelect { dst: 0, src: 1, sel: vec![] },
                Stmt::InsertSelect { dst: 1, src: 0, sel: vec![] },
                Stmt::Truncate { t: 0 },
            ],
        ),
        // the single-column-PK fast path of DELETE / UPDATE on a table that already holds duplicate keys
        // (a state outside the invariant; compared with the model only): `c0 = 7` goes through the map and
        // sees ONE row, `c0 = -4` is not a literal for the parser and goes through the scan
        20 => (
            vec![pk0(), plain()],
            vec![
                ins(0, &[&[1, 10, 100], &[2, 20, 200], &[3, 30, 300]]),
                Stmt::Update { t: 0, asg: vec![(0, SExpr::Const(Some(7)))], w: Some(Pred::CmpC(0, Op::Ge, 2)) },
                Stmt::Update { t: 0, asg: vec![(1, SExpr::Const(Some(0)))], w: Some(Pred::CmpC(0, Op::Eq, 7)) },
                Stmt::Delete { t: 0, w: Some(Pred::CmpC(0, Op::Eq, 7)) },
                Stmt::Delete { t: 0, w: Some(Pred::CmpC(0, Op::Eq, 7)) },
            ],
        ),
        21 => (
            vec![pk0(), plain()],
            vec![
                ins(0, &[&[1, 10, 100], &[2, 20, 200], &[3, 30, 300]]),
                Stmt::Update { t: 0, asg: vec![(0, SExpr::Const(Some(-4)))], w: Some(Pred::CmpC(0, Op::Ge, 2)) },
                Stmt::Update { t: 0, asg: vec![(1, SExpr::Const(Some(0)))], w: Some(Pred::CmpC(0, Op::Eq, -4)) },
                Stmt::Delete { t: 0, w: Some(Pred::CmpC(0, Op::Eq, -4)) },
            ],
        ),
        _ => return None,
    })
}

// ------------------------------------------------------------------------------------------
// the harness's own replay of AppendModeTracker (only used to CLASSIFY a duplicate primary key
// let in by the bulk-transfer path; the flag itself is compared with the model after every statement)
// ------------------------------------------------------------------------------------------

#[derive(Clone, Debug, Default)]
struct TrackerSim {
    last: Option<Row>,
    mode: bool,
    streak: usize,
}

fn key_gt(a: &[V], b: &[V]) -> bool {
    for (x, y) in a.iter().zip(b.iter()) {
        match (x, y) {
            (Some(x), Some(y)) => {
                if x != y {
                    return x > y;
                }
            }
            _ => return false,
        }
    }
    a.len() > b.len()
}

impl TrackerSim {
    fn update(&mut self, pk: &[V]) {
        if let Some(last) = &self.last {
            if key_gt(pk, last) {
                self.streak += 1;
                if self.streak >= 3 {
                    self.mode = true;
                }
            } else {
                self.mode = false;
                self.streak = 0;
            }
        }
        self.last = Some(pk.to_vec());
    }
}

// ------------------------------------------------------------------------------------------
// classification of a first violation
// ------------------------------------------------------------------------------------------

struct Pre {
    rows: Vec<Row>,
    #[allow(dead_code)]
    mode: bool,
    decl: Decl,
    trk: TrackerSim,
    /// rows the statement appended (after-state rows beyond the pre-state length)
    appended: Vec<Row>,
}

/// did the bulk-transfer path accept, while the table was in append mode, a key that was already present?
fn append_mode_let_a_duplicate_in(pre: &Pre) -> bool {
    let pk = match &pre.decl.pk {
        Some(p) => p.clone(),
        None => return false,
    };
    let mut trk = pre.trk.clone();
    let mut present: Vec<Row> = pre.rows.iter().map(|r| proj(&pk, r)).collect();
    for r in &pre.appended {
        let k = proj(&pk, r);
        if trk.mode && present.contains(&k) {
            return true;
        }
        trk.update(&k);
        present.push(k);
    }
    false
}

/// new rows an UPDATE would write for the rows its WHERE selects (harness's own evaluation)
fn update_images(pre: &Pre, asg: &[(usize, SExpr)], w: &Option<Pred>) -> Vec<(Row, Row)> {
    pre.rows
        .iter()
        .filter(|r| w.as_ref().map(|p| p.ev(r) == Some(true)).unwrap_or(true))
        .map(|r| {
            let mut n = r.clone();
            for (c, e) in asg {
                n[*c] = e.ev(r);
            }
            (r.clone(), n)
        })
        .collect()
}

fn nonnull(k: &Row) -> bool {
    k.iter().all(|x| x.is_some())
}

fn classify(prop: Prop, stmt: &Stmt, v: &Viol, pre: &Pre, bulk: bool) -> &'static str {
    let d = &pre.decl;
    let key_cols = |v: &Viol| -> Option<Vec<usize>> {
        match v {
            Viol::Pk => d.pk.clone(),
            Viol::Uniq(i) => d.uniqs.get(*i).cloned(),
            Viol::UniqIndex(n) => d.uidx.iter().find(|u| u.name == *n).map(|u| u.cols.clone()),
            _ => None,
        }
    };
    match prop {
        Prop::C10 => match (stmt, v) {
            (Stmt::Insert { .. }, Viol::Pk | Viol::Uniq(_)) | (Stmt::InsertSelect { .. }, Viol::Pk | Viol::Uniq(_)) if !bulk && key_cols(v).map(|c| Decl::out_of_order(&c)).unwrap_or(false) => {
                "composite-key-validated-in-column-order"
            }
            (Stmt::Insert { rows, .. }, Viol::UniqIndex(_)) if rows.len() > 1 => {
                let cols = key_cols(v).unwrap();
                let ks: Vec<Row> = rows.iter().map(|r| proj(&cols, r)).filter(nonnull).collect();
                if has_dup(ks.into_iter()) {
                    "unique-index-batch-insert-duplicates"
                } else {
                    "constraint-violated"
                }
            }
            (Stmt::InsertSelect { .. }, Viol::UniqIndex(_)) if !bulk => "unique-index-batch-insert-duplicates",
            (Stmt::InsertSelect { .. }, Viol::Pk) if bulk && append_mode_let_a_duplicate_in(pre) => "append-mode-bulk-transfer-duplicate-pk",
            (Stmt::Update { asg, w, .. }, Viol::Pk | Viol::Uniq(_) | Viol::UniqIndex(_)) => {
                let cols = key_cols(v).unwrap();
                let imgs = update_images(pre, asg, w);
                let ks: Vec<Row> = imgs.iter().filter(|(o, n)| proj(&cols, o) != proj(&cols, n)).map(|(_, n)| proj(&cols, n)).filter(|k| matches!(v, Viol::Pk) || nonnull(k)).collect();
                if has_dup(ks.into_iter()) {
                    "multirow-update-same-new-key"
                } else {
                    "constraint-violated"
                }
            }
            (Stmt::CreateIndex { uniq: true, name, .. }, Viol::UniqIndex(n)) if n == name => "create-unique-index-over-duplicates",
            (Stmt::AddUnique { .. }, Viol::Uniq(i)) if *i + 1 == d.uniqs.len() + 1 => "alter-add-constraint-unvalidated",
            (Stmt::AddPk { .. }, Viol::Pk) => "alter-add-constraint-unvalidated",
            (Stmt::AddCheck { .. }, Viol::Check(i)) if *i == d.checks.len() => "alter-add-constraint-unvalidated",
            (Stmt::Insert { .. } | Stmt::InsertSelect { .. } | Stmt::Update { .. }, Viol::Check(i)) if d.checks.get(*i).map(|c| c.1).unwrap_or(false) => "alter-add-check-not-enforced",
            _ => "constraint-violated",
        },
        Prop::C15 => match (stmt, v) {
            (Stmt::Delete { w: Some(_), .. }, Viol::UserIndex(_)) => "delete-where-leaves-user-index-stale",
            (Stmt::Delete { w: None, .. }, Viol::UserIndex(_)) => "delete-all-leaves-user-index-stale",
            (Stmt::Truncate { .. }, Viol::UserIndex(_)) => "truncate-leaves-user-index-stale",
            (Stmt::Rollback, Viol::UserIndex(_)) => "rollback-leaves-user-index-stale",
            (Stmt::RollbackTo(_), Viol::UserIndex(_)) => "savepoint-undo-leaves-user-index-stale",
            _ => "index-mismatch",
        },
    }
}

// ------------------------------------------------------------------------------------------
// main
// ------------------------------------------------------------------------------------------

fn schema_coq(db: &Database, t: usize, d: &Decl) -> String {
    // the model's initial schema is read back from the engine's own TableSchema
    let tb = db.get_table(&format!("T{}", t)).expect("table");
    let s = &tb.schema;
    let nn: Vec<String> = s.columns.iter().map(|c| (!c.nullable).to_string()).collect();
    let pk = match s.get_primary_key_indices() {
        Some(p) => format!("(Some {})", nats(&p)),
        None => "None".into(),
    };
    let uq: Vec<String> = s.get_unique_constraint_indices().iter().map(|u| nats(u)).collect();
    assert_eq!(s.check_constraints.len(), d.checks.len(), "harness: CHECK count");
    assert_eq!(s.get_primary_key_indices(), d.pk, "harness: PK columns");
    assert_eq!(s.get_unique_constraint_indices(), d.uniqs, "harness: UNIQUE columns");
    assert_eq!(s.columns.iter().map(|c| !c.nullable).collect::<Vec<_>>(), d.notnull, "harness: NOT NULL flags");
    format!("mk_schema {} [{}] {} [{}] [{}]", s.columns.len(), nn.join(";"), pk, uq.join(";"), d.checks.iter().map(|c| c.0.coq()).collect::<Vec<_>>().join(";"))
}

pub fn run(prop: Prop) {
    let args = parse_args();
    quiet_panics();
    let pname = if prop == Prop::C10 { "C10" } else { "C15" };
    let mut sum = Summary::default();
    sum.nontrivial_rule = "a case is one statement of a history with the engine's result and the dumped state after it; non-trivial = the statement was accepted and changed the target table's rows or index set, or was rejected with an error (no-op statements such as an UPDATE selecting no row are not counted); distinct = distinct (schema, pre-state rows, statement) texts".into();
    let mut log = CaseLog::new(&args);
    let n_scripted = (0..).take_while(|k| scripted(*k).is_some()).count();
    let (n_random, len) = if args.thorough { (3000usize, 40usize) } else { (560usize, 25usize) };
    let per_shard = if args.thorough { 100 } else { 37 };
    let total = n_scripted + n_random;
    let only_h: Option<Vec<u64>> = args.only.as_ref().map(|ids| ids.iter().map(|i| i / 1000).collect());
    let mut shard_text: Vec<String> = Vec::new();
    let mut shard_k = 0usize;
    let (run_mod, mism_fn) = if prop == Prop::C10 { ("Run.C10Run", "c10_mismatches") } else { ("Run.C10Run Run.C15Run", "c15_mismatches") };
    let header = format!("From Coq Require Import List ZArith Bool.\nImport ListNotations.\nFrom VibeSQL Require Import Store.Table Store.UserIndex Store.Constraints Store.Dml {}.\n", run_mod);
    let flush = |texts: &mut Vec<String>, k: &mut usize, args: &Args| {
        if texts.is_empty() {
            return;
        }
        let mut s = header.clone();
        let mut names = Vec::new();
        for (i, t) in texts.iter().enumerate() {
            s.push_str(&format!("Definition h{} : history := {}.\n", i, t));
            names.push(format!("h{}", i));
        }
        s.push_str(&format!("Eval vm_compute in ({} [{}]).\n", mism_fn, names.join(";")));
        write_shard(args, *k, &s);
        *k += 1;
        texts.clear();
    };

    for h in 0..total {
        if let Some(oh) = &only_h {
            if !oh.contains(&(h as u64)) {
                continue;
            }
        }
        let base = (h as u64) * 1000;
        let mut r = Rng::new(args.seed, &format!("c10c15/{}", h));
        let script = if h < n_scripted { scripted(h) } else { None };
        let profile = match r.below(10) {
            0..=3 => Profile::NoUserIndex,
            4..=6 => Profile::NoDelete,
            _ => Profile::All,
        };
        let decls: Vec<Decl> = match &script {
            Some((d, _)) => d.clone(),
            None => {
                let ncols = 3 + r.below(2) as usize;
                let d0 = gen_decl(&mut r, ncols, false, None);
                let n1 = if r.chance(4, 5) { ncols } else { 7 - ncols };
                let d1 = gen_decl(&mut r, n1, true, Some(&d0));
                vec![d0, d1]
            }
        };
        let mut db = Database::new();
        for (t, d) in decls.iter().enumerate() {
            must(&mut db, &d.create_sql(t));
        }
        let schemas: Vec<String> = decls.iter().enumerate().map(|(t, d)| schema_coq(&db, t, d)).collect();
        let mut hist = Hist { decl: decls, in_txn: false, saves: vec![], next_ix: 1, profile, no_rollback: false };
        // declared state at BEGIN (ROLLBACK restores catalog + tables; user indexes are outside)
        let mut txn_decl: Option<Vec<Decl>> = None;
        let mut dirty = false;
        let mut trks: Vec<TrackerSim> = vec![TrackerSim::default(); hist.decl.len()];
        let mut txn_trks: Option<Vec<TrackerSim>> = None;
        let mut stmts_coq: Vec<String> = Vec::new();
        let mut obs_coq: Vec<String> = Vec::new();
        let nst = match &script {
            Some((_, s)) => s.len(),
            None => len,
        };
        sum.count(&format!("history_profile_{:?}", if script.is_some() { Profile::All } else { profile }));
        for j in 0..nst {
            let id = base + j as u64;
            let cur: Vec<TObs> = (0..hist.decl.len()).map(|t| observe(&db, t)).collect();
            let stmt = match &script {
                Some((_, s)) => s[j].clone(),
                None => gen_stmt(&mut r, &hist, &cur),
            };
            // what the query executor returns for the source (its row order is not the model's business)
            let stmt = match stmt {
                Stmt::InsertSelect { dst, src, .. } => {
                    let o = exec(&mut db, &format!("SELECT * FROM t{}", src));
                    let sel: Vec<Row> = o.rows().map(|rs| rs.iter().map(|r| conv_row(r)).collect()).unwrap_or_default();
                    Stmt::InsertSelect { dst, src, sel }
                }
                s => s,
            };
            let sql = stmt.sql();
            let tgt = stmt.target();
            let mut pre = tgt.map(|t| Pre { rows: cur[t].rows.clone(), mode: cur[t].mode, decl: hist.decl[t].clone(), trk: trks[t].clone(), appended: vec![] });
            let bulk = if let Stmt::InsertSelect { dst, src, .. } = &stmt {
                let (d, s) = (&hist.decl[*dst], &hist.decl[*src]);
                dst != src && d.ncols == s.ncols && (0..d.ncols).all(|c| !(d.notnull[c] && !s.notnull[c]))
            } else {
                false
            };
            let out = exec(&mut db, &sql);
            sum.evaluations += 1;
            let code: i64 = match &out {
                Outcome::Count(n) => *n as i64,
                Outcome::Done => 0,
                Outcome::Rows(_) => 0,
                Outcome::Err(..) => -1,
                Outcome::Panic(_) => -2,
            };
            sum.count(&format!("stmt_{}", stmt.kind()));
            sum.count(&format!("result_{}", match &out {
                Outcome::Err(c, _) => format!("err_{:?}", c),
                Outcome::Panic(_) => "panic".into(),
                _ => "ok".into(),
            }));
            if std::env::var("C10_TRACE").ok().and_then(|x| x.parse::<usize>().ok()) == Some(h) {
                if j == 0 {
                    for (t, d) in hist.decl.iter().enumerate() {
                        eprintln!("TRACE {}", d.create_sql(t));
                    }
                }
                eprintln!("TRACE [{}] {}  => {}", j, sql, match &out { Outcome::Err(_, m) => format!("ERR {}", m), o => o.tag() });
                if let Some(t) = tgt {
                    let o = observe(&db, t);
                    eprintln!("TRACE      rows={:?} pk={:?} uq={:?} mode={} uidx={:?}", o.rows, o.pk, o.uq, o.mode, o.uidx);
                }
            }
            // bookkeeping of what is declared
            if out.is_ok() {
                match &stmt {
                    Stmt::CreateIndex { name, t, uniq, cols } => {
                        hist.decl[*t].uidx.push(UIdx { name: *name, uniq: *uniq, cols: cols.clone() });
                        hist.next_ix += 1;
                    }
                    Stmt::DropIndex { name } => {
                        for d in hist.decl.iter_mut() {
                            d.uidx.retain(|u| u.name != *name);
                        }
                    }
                    Stmt::AddPk { t, cols } => {
                        hist.decl[*t].pk = Some(cols.clone());
                        for c in hist.decl[*t].checks.iter_mut() {
                            c.1 = false;
                        }
                    }
                    Stmt::AddUnique { t, cols } => {
                        hist.decl[*t].uniqs.push(cols.clone());
                        for c in hist.decl[*t].checks.iter_mut() {
                            c.1 = false;
                        }
                    }
                    Stmt::AddCheck { t, c } => hist.decl[*t].checks.push((c.clone(), true)),
                    Stmt::Begin => {
                        hist.no_rollback = (0..hist.decl.len()).any(|t| check_constraints(&hist.decl[t], &cur[t].rows).iter().any(|v| matches!(v, Viol::UniqIndex(_))));
                        hist.in_txn = true;
                        hist.saves.clear();
                        txn_decl = Some(hist.decl.clone());
                    }
                    Stmt::Commit => {
                        hist.in_txn = false;
                        hist.saves.clear();
                        txn_decl = None;
                    }
                    Stmt::Rollback => {
                        hist.in_txn = false;
                        hist.saves.clear();
                        if let Some(td) = txn_decl.take() {
                            for (d, o) in hist.decl.iter_mut().zip(td.into_iter()) {
                                let u = d.uidx.clone();
                                *d = o;
                                d.uidx = u;
                            }
                        }
                    }
                    Stmt::Savepoint(n) => hist.saves.push(*n),
                    _ => {}
                }
            }
            // observation after the statement
            let dump_ts: Vec<usize> = match tgt {
                Some(t) => vec![t],
                None => (0..hist.decl.len()).collect(),
            };
            let after: Vec<TObs> = (0..hist.decl.len()).map(|t| observe(&db, t)).collect();
            // the harness's replay of the append-mode tracker (classification only)
            if let (Some(p), Some(t)) = (pre.as_mut(), tgt) {
                if after[t].rows.len() >= cur[t].rows.len() && after[t].rows[..cur[t].rows.len()] == cur[t].rows[..] {
                    p.appended = after[t].rows[cur[t].rows.len()..].to_vec();
                }
                match &stmt {
                    Stmt::Insert { .. } | Stmt::InsertSelect { .. } => {
                        if let Some(pk) = &p.decl.pk {
                            for r in &p.appended {
                                trks[t].update(&proj(pk, r));
                            }
                        }
                    }
                    Stmt::Delete { w: None, .. } | Stmt::Truncate { .. } if out.is_ok() => trks[t] = TrackerSim::default(),
                    _ => {}
                }
            }
            if out.is_ok() {
                match &stmt {
                    Stmt::Begin => txn_trks = Some(trks.clone()),
                    Stmt::Commit => txn_trks = None,
                    Stmt::Rollback => {
                        if let Some(tt) = txn_trks.take() {
                            trks = tt;
                        }
                    }
                    _ => {}
                }
            }
            for t in 0..hist.decl.len() {
                if trks[t].mode != after[t].mode {
                    sum.finding("harness-tracker-replay-differs", id, format!("after `{}`: harness replay of the append-mode flag of t{} = {}, engine = {}", sql, t, trks[t].mode, after[t].mode), json!({"history": h, "statement": j}));
                    trks[t].mode = after[t].mode;
                }
            }
            stmts_coq.push(stmt.coq());
            obs_coq.push(format!("({}, [{}])", zl(code), dump_ts.iter().map(|t| format!("({}, {})", t, after[*t].coq())).collect::<Vec<_>>().join(";")));
            sum.model_cases += 1;
            let changed = tgt.map(|t| after[t].rows != cur[t].rows || after[t].uidx.len() != cur[t].uidx.len()).unwrap_or(false);
            if changed || !out.is_ok() {
                sum.nontrivial(&format!("{}|{:?}|{}", schemas.join("/"), tgt.map(|t| &cur[t].rows), sql));
            }
            let case = json!({"history": h, "statement": j, "sql": sql, "result": out.tag(),
                "tables": hist.decl.iter().enumerate().map(|(t, d)| d.create_sql(t)).collect::<Vec<_>>(),
                "indexes": hist.decl.iter().flat_map(|d| d.uidx.iter().map(|u| format!("ix{}{}({:?})", u.name, if u.uniq {" UNIQUE"} else {""}, u.cols))).collect::<Vec<_>>()});
            if h < n_scripted || j < 3 || !out.is_ok() && h % 50 == 0 {
                log.log(id, case.clone());
            }
            if h == n_scripted && j < 4 {
                sum.sample(json!({"sql": sql, "result": out.tag(), "rows_after": tgt.map(|t| format!("{:?}", after[t].rows))}));
            }
            // ---- the property's own oracle, on the implementation ----
            if let Outcome::Panic(p) = &out {
                let known_overflow = matches!(&stmt, Stmt::Update { asg, .. } if asg.iter().any(|(_, e)| matches!(e, SExpr::AddC(..)))) && p.contains("overflow");
                if !known_overflow {
                    sum.finding("statement-panicked", id, format!("{} panicked: {}", sql, p), case.clone());
                    log.log(id, case.clone());
                }
            }
            if !dirty {
                let mut viols: Vec<(usize, Viol)> = Vec::new();
                for t in 0..hist.decl.len() {
                    // C10 reads the table through SQL
                    let sel = exec(&mut db, &format!("SELECT * FROM t{}", t));
                    let rows: Vec<Row> = match sel.rows() {
                        Some(rs) => rs.iter().map(|r| conv_row(r)).collect(),
                        None => panic!("harness: SELECT * failed: {:?}", sel),
                    };
                    let mut a = rows.clone();
                    let mut b = after[t].rows.clone();
                    a.sort();
                    b.sort();
                    if a != b {
                        sum.finding("select-star-differs-from-scan", id, format!("SELECT * FROM t{} differs from Table::scan()", t), case.clone());
                    }
                    for v in check_constraints(&hist.decl[t], &rows) {
                        viols.push((t, v));
                    }
                    for v in check_mirror(&hist.decl[t], &after[t]) {
                        viols.push((t, v));
                    }
                }
                if !viols.is_empty() {
                    dirty = true;
                    sum.count("histories_leaving_the_invariant");
                    for (t, v) in &viols {
                        if v.is_c10() != (prop == Prop::C10) {
                            continue;
                        }
                        let cls = match (&pre, tgt) {
                            (Some(p), Some(tt)) if tt == *t => classify(prop, &stmt, v, p, bulk),
                            _ => {
                                // ROLLBACK / ROLLBACK TO have no single target table
                                let p = Pre { rows: cur[*t].rows.clone(), mode: cur[*t].mode, decl: hist.decl[*t].clone(), trk: trks[*t].clone(), appended: vec![] };
                                classify(prop, &stmt, v, &p, bulk)
                            }
                        };
                        sum.finding(cls, id, format!("after `{}` ({}): table t{} violates {:?}; rows {:?}", sql, out.tag(), t, v, after[*t].rows), case.clone());
                        log.log(id, case.clone());
                    }
                }
            }
        }
        if args.only.is_none() {
            shard_text.push(format!("({}, [{}], [{}], [{}])", zl(base as i64), schemas.join(";"), stmts_coq.join(";\n "), obs_coq.join(";\n ")));
            if shard_text.len() >= per_shard {
                flush(&mut shard_text, &mut shard_k, &args);
            }
        }
    }
    flush(&mut shard_text, &mut shard_k, &args);
    sum.notes.push(format!("{}: {} scripted + {} random histories; the oracle reports the first statement of a history after which the invariant fails", pname, n_scripted, n_random));
    sum.write(&args);
}
