//! C12 harness, part 3: schema families, statement generator, scripted histories.
#![allow(dead_code)]
use super::c12_core::*;
use vh::rng::Rng;

pub fn col(notnull: bool, default: V) -> Col {
    Col { notnull, default }
}
pub fn tab(id: usize, ncols: usize, pk: Option<Vec<usize>>) -> Tab {
    Tab { id, cols: (0..ncols).map(|_| col(false, None)).collect(), pk, fks: vec![], dropped: false }
}
pub fn fk(cols: &[usize], parent: usize, pcols: &[usize], ondel: Act, onupd: Act, how: How) -> Fk {
    Fk { cols: cols.to_vec(), parent, pcols: pcols.to_vec(), ondel, onupd, how }
}

pub fn rand_act(r: &mut Rng) -> Act {
    match r.below(100) {
        0..=34 => Act::Cascade,
        35..=59 => Act::SetNull,
        60..=84 => Act::NoAction,
        _ => Act::SetDefault,
    }
}

pub const N_PROFILES: u64 = 12;

pub fn profile_name(p: u64) -> &'static str {
    match p {
        0 => "chain",
        1 => "selfref",
        2 => "fan",
        3 => "twofk",
        4 => "comments",
        5 => "childpk",
        6 => "composite",
        7 => "nonpk",
        8 => "setdefault",
        9 => "random",
        10 => "selfref-child",
        _ => "selfref-allcascade",
    }
}

pub fn gen_schema(r: &mut Rng, profile: u64) -> Vec<Tab> {
    let a = |r: &mut Rng| rand_act(r);
    match profile {
        0 => {
            let t0 = tab(0, 2, Some(vec![0]));
            let mut t1 = tab(1, 3, Some(vec![0]));
            t1.fks.push(fk(&[1], 0, &[0], a(r), a(r), How::Create));
            let mut t2 = tab(2, 2, Some(vec![0]));
            t2.fks.push(fk(&[1], 1, &[0], a(r), a(r), How::Create));
            vec![t0, t1, t2]
        }
        1 => {
            let mut t0 = tab(0, 3, Some(vec![0]));
            t0.fks.push(fk(&[1], 0, &[0], a(r), a(r), How::Alter));
            let mut t1 = tab(1, 2, Some(vec![0]));
            t1.fks.push(fk(&[1], 0, &[0], a(r), a(r), How::Create));
            vec![t0, t1]
        }
        2 => {
            let t0 = tab(0, 2, Some(vec![0]));
            let mut t1 = tab(1, 2, Some(vec![0]));
            t1.fks.push(fk(&[1], 0, &[0], a(r), a(r), How::Create));
            let mut t2 = tab(2, 2, Some(vec![0]));
            t2.fks.push(fk(&[1], 0, &[0], a(r), a(r), How::Create));
            vec![t0, t1, t2]
        }
        3 => {
            let t0 = tab(0, 2, Some(vec![0]));
            let mut t1 = tab(1, 3, Some(vec![0]));
            t1.fks.push(fk(&[1], 0, &[0], a(r), a(r), How::Create));
            t1.fks.push(fk(&[2], 0, &[0], a(r), a(r), How::Create));
            vec![t0, t1]
        }
        4 => {
            let t0 = tab(0, 1, Some(vec![0]));
            let mut t1 = tab(1, 3, Some(vec![0]));
            t1.fks.push(fk(&[1], 0, &[0], if r.chance(3, 4) { Act::Cascade } else { a(r) }, a(r), How::Create));
            t1.fks.push(fk(&[2], 1, &[0], if r.chance(3, 4) { Act::SetNull } else { a(r) }, a(r), How::Alter));
            vec![t0, t1]
        }
        5 => {
            let t0 = tab(0, 2, Some(vec![0]));
            let mut t1 = tab(1, 2, Some(vec![0]));
            t1.fks.push(fk(&[0], 0, &[0], a(r), a(r), How::Create));
            let mut t2 = tab(2, 2, Some(vec![0]));
            t2.fks.push(fk(&[1], 1, &[0], a(r), a(r), How::Create));
            vec![t0, t1, t2]
        }
        6 => {
            let t0 = tab(0, 3, Some(vec![0, 1]));
            let mut t1 = tab(1, 3, Some(vec![0]));
            let cols: &[usize] = if r.chance(1, 4) { &[2, 1] } else { &[1, 2] };
            t1.fks.push(fk(cols, 0, &[0, 1], a(r), a(r), How::Create));
            vec![t0, t1]
        }
        7 => {
            let t0 = tab(0, 2, Some(vec![0]));
            let mut t1 = tab(1, 2, Some(vec![0]));
            t1.fks.push(fk(&[1], 0, &[1], a(r), a(r), How::Create));
            vec![t0, t1]
        }
        8 => {
            let t0 = tab(0, 2, Some(vec![0]));
            let mut t1 = tab(1, 3, Some(vec![0]));
            t1.cols[1].default = if r.chance(1, 4) { None } else { Some(r.range(1, 4)) };
            let (d, u) = if r.chance(1, 2) { (Act::SetDefault, a(r)) } else { (a(r), Act::SetDefault) };
            t1.fks.push(fk(&[1], 0, &[0], d, u, How::Create));
            vec![t0, t1]
        }
        9 => {
            let n = 3 + r.below(2) as usize;
            let mut ts: Vec<Tab> = (0..n).map(|i| tab(i, 3, if i > 0 && r.chance(1, 8) { None } else { Some(vec![0]) })).collect();
            for i in 0..n {
                let nf = if i == 0 { r.below(2) } else { 1 + r.below(2) } as usize;
                for k in 0..nf {
                    let mut p = r.below(n as u64) as usize;
                    if ts[p].pk.is_none() {
                        p = 0;
                    }
                    if p > i {
                        p = i; // a later table would close a multi-table cycle or needs ALTER: use a self reference
                    }
                    let how = if p < i { How::Create } else { How::Alter };
                    let c = 1 + k;
                    if r.chance(1, 10) {
                        ts[i].cols[c].notnull = true;
                    }
                    if r.chance(1, 5) {
                        ts[i].cols[c].default = Some(r.range(1, 4));
                    }
                    let f = fk(&[c], p, &[0], a(r), a(r), how);
                    ts[i].fks.push(f);
                }
            }
            ts
        }
        10 => {
            // self-referencing child below a parent
            let t0 = tab(0, 2, Some(vec![0]));
            let mut t1 = tab(1, 3, Some(vec![0]));
            t1.fks.push(fk(&[1], 0, &[0], a(r), a(r), How::Create));
            t1.fks.push(fk(&[2], 1, &[0], a(r), a(r), How::Alter));
            vec![t0, t1]
        }
        _ => {
            let mut t0 = tab(0, 2, Some(vec![0]));
            t0.fks.push(fk(&[1], 0, &[0], Act::Cascade, a(r), How::Alter));
            vec![t0]
        }
    }
}

fn small(r: &mut Rng) -> i64 {
    r.range(1, 9)
}

fn pick_row<'a>(r: &mut Rng, rows: &'a [Row]) -> Option<&'a Row> {
    if rows.is_empty() {
        None
    } else {
        Some(&rows[r.below(rows.len() as u64) as usize])
    }
}

fn rows_of<'a>(st: &'a State, t: usize) -> &'a [Row] {
    st.iter().find(|(i, _)| *i == t).map(|(_, r)| r.as_slice()).unwrap_or(&[])
}

fn gen_row(r: &mut Rng, tabs: &[Tab], st: &State, t: usize) -> Row {
    let tb = &tabs[t];
    let mut row: Row = (0..tb.cols.len())
        .map(|c| {
            if tb.pk.as_ref().map(|p| p.contains(&c)).unwrap_or(false) {
                // mostly fresh keys
                let used: Vec<i64> = rows_of(st, t).iter().filter_map(|x| x[c]).collect();
                let mut v = small(r);
                if r.chance(4, 5) {
                    for _ in 0..6 {
                        if !used.contains(&v) {
                            break;
                        }
                        v = small(r) + if r.chance(1, 3) { 9 } else { 0 };
                    }
                }
                Some(v)
            } else if r.chance(1, 6) && !tb.cols[c].notnull {
                None
            } else {
                Some(small(r))
            }
        })
        .collect();
    for f in &tb.fks {
        match r.below(100) {
            0..=69 => {
                if let Some(p) = pick_row(r, rows_of(st, f.parent)) {
                    for (c, pc) in f.cols.iter().zip(f.pcols.iter()) {
                        // never overwrite the row's own primary key with NULL
                        if p[*pc].is_some() || !tb.cols[*c].notnull {
                            row[*c] = p[*pc];
                        }
                    }
                }
            }
            70..=84 => {
                for c in &f.cols {
                    if !tb.cols[*c].notnull && !tb.pk.as_ref().map(|p| p.contains(c)).unwrap_or(false) {
                        row[*c] = None;
                    }
                }
            }
            _ => {}
        }
    }
    row
}

fn key_pred(r: &mut Rng, tabs: &[Tab], st: &State, t: usize) -> Option<Pred> {
    let tb = &tabs[t];
    let kc = tb.pk.as_ref().map(|p| p[0]).unwrap_or(0);
    let existing = |r: &mut Rng| pick_row(r, rows_of(st, t)).and_then(|x| x[kc]).unwrap_or_else(|| small(r));
    match r.below(100) {
        0..=39 => Some(Pred::Cmp(kc, Op::Eq, existing(r))),
        40..=54 => Some(Pred::Cmp(kc, Op::Lt, small(r) + 1)),
        55..=59 => Some(Pred::Cmp(kc, Op::Ge, small(r))),
        60..=77 => Some(Pred::Or(Box::new(Pred::Cmp(kc, Op::Eq, existing(r))), Box::new(Pred::Cmp(kc, Op::Eq, existing(r))))),
        78..=85 => None,
        86..=90 => {
            let c = tb.fks.first().map(|f| f.cols[0]).unwrap_or(tb.cols.len() - 1);
            Some(Pred::IsNull(c))
        }
        91..=95 => {
            let c = tb.fks.first().map(|f| f.cols[0]).unwrap_or(tb.cols.len() - 1);
            Some(Pred::Cmp(c, Op::Eq, small(r)))
        }
        _ => Some(Pred::And(Box::new(Pred::Cmp(kc, Op::Ge, small(r))), Box::new(Pred::Cmp(kc, Op::Lt, small(r) + 6)))),
    }
}

pub fn gen_stmt(r: &mut Rng, tabs: &[Tab], st: &State, j: usize, len: usize) -> Stmt {
    let live: Vec<usize> = tabs.iter().filter(|t| !t.dropped).map(|t| t.id).collect();
    let t = *r.pick(&live);
    let tb = &tabs[t];
    let empty_bias = rows_of(st, t).len() < 2;
    let k = r.below(100);
    if k < 40 || (empty_bias && k < 70) {
        // parents first: prefer inserting into a parent whose children would otherwise dangle
        let n = if r.chance(1, 5) { 2 + r.below(2) as usize } else { 1 };
        let mut rows = Vec::new();
        let mut st2 = st.clone();
        for _ in 0..n {
            let row = gen_row(r, tabs, &st2, t);
            if r.chance(1, 2) {
                // let later rows of the batch see the earlier ones (the engine does not)
                if let Some(e) = st2.iter_mut().find(|(i, _)| *i == t) {
                    e.1.push(row.clone());
                }
            }
            rows.push(row);
        }
        return Stmt::Insert { t, rows };
    }
    if k < 64 {
        let kc = tb.pk.as_ref().map(|p| p[0]).unwrap_or(0);
        let has_pk = tb.pk.is_some();
        let fkcol = tb.fks.first().map(|f| f.cols[0]);
        let kind = r.below(100);
        let existing_key = |r: &mut Rng| pick_row(r, rows_of(st, t)).and_then(|x| x[kc]).unwrap_or_else(|| small(r));
        if kind < 30 && has_pk {
            // shift primary keys (injective)
            let wh = if r.chance(1, 2) { key_pred(r, tabs, st, t) } else { None };
            let mut asg = vec![(kc, Expr::Add(kc, *r.pick(&[10i64, 20, 1])))];
            if r.chance(1, 6) {
                if let Some(fc) = fkcol {
                    if fc != kc {
                        asg.push((fc, Expr::Lit(Some(existing_key(r)))));
                    }
                }
            }
            return Stmt::Update { t, asg, wh };
        }
        if kind < 45 && has_pk && tb.pk.as_ref().unwrap().len() == 1 {
            let x = existing_key(r);
            return Stmt::Update { t, asg: vec![(kc, Expr::Lit(Some(small(r) + if r.chance(1, 2) { 20 } else { 0 })))], wh: Some(Pred::Cmp(kc, Op::Eq, x)) };
        }
        if kind < 85 {
            if let Some(f) = if tb.fks.is_empty() { None } else { Some(&tb.fks[r.below(tb.fks.len() as u64) as usize]) } {
                let mut asg = Vec::new();
                let how = r.below(100);
                let prow = pick_row(r, rows_of(st, f.parent)).cloned();
                for (c, pc) in f.cols.iter().zip(f.pcols.iter()) {
                    let e = match how {
                        0..=54 => Expr::Lit(prow.as_ref().map(|p| p[*pc]).unwrap_or(Some(small(r)))),
                        55..=69 => Expr::Lit(None),
                        70..=79 => Expr::Default,
                        80..=89 => Expr::Lit(Some(small(r))),
                        _ => Expr::Col(kc),
                    };
                    asg.push((*c, e));
                }
                return Stmt::Update { t, asg, wh: key_pred(r, tabs, st, t) };
            }
        }
        let c = tb.cols.len() - 1;
        return Stmt::Update { t, asg: vec![(c, Expr::Lit(if r.chance(1, 6) { None } else { Some(small(r)) }))], wh: key_pred(r, tabs, st, t) };
    }
    if k < 86 {
        return Stmt::Delete { t, wh: key_pred(r, tabs, st, t) };
    }
    if k < 90 {
        // INSERT INTO t SELECT * FROM src: mostly from a table with the same number of columns
        let same: Vec<usize> = live.iter().cloned().filter(|x| tabs[*x].cols.len() == tb.cols.len() && (*x != t || r.chance(1, 4))).collect();
        let src = if !same.is_empty() && r.chance(9, 10) { *r.pick(&same) } else { *r.pick(&live) };
        let simple = r.chance(1, 2);
        return Stmt::InsertSelect { dst: t, src, simple, sel: vec![] };
    }
    if k < 95 {
        return Stmt::Truncate { t, cascade: r.chance(1, 2) };
    }
    if k < 97 && j * 2 > len {
        return Stmt::Drop { t };
    }
    // ALTER TABLE ADD FOREIGN KEY in the middle of a history
    let mut p = *r.pick(&live);
    // a key that closes a cycle through several tables is refused (and costs the table): rarely
    let reaches = |from: usize, to: usize| -> bool {
        let mut seen = vec![from];
        let mut todo = vec![from];
        while let Some(x) = todo.pop() {
            if x == to {
                return true;
            }
            for f in &tabs[x].fks {
                if f.parent != x && !seen.contains(&f.parent) {
                    seen.push(f.parent);
                    todo.push(f.parent);
                }
            }
        }
        false
    };
    if p != t && reaches(p, t) && !r.chance(1, 12) {
        p = t;
    }
    if r.chance(1, 2) && k < 99 {
        return Stmt::Delete { t, wh: key_pred(r, tabs, st, t) };
    }
    if let Some(ppk) = &tabs[p].pk {
        if ppk.len() == 1 && tb.cols.len() >= 2 {
            let c = 1 + r.below((tb.cols.len() - 1) as u64) as usize;
            return Stmt::AddFk { t, fk: fk(&[c], p, &[ppk[0]], rand_act(r), rand_act(r), How::Alter) };
        }
    }
    Stmt::Delete { t, wh: key_pred(r, tabs, st, t) }
}

// ------------------------------------------------------------------------------------------
// scripted histories: one per known class (and a few boundary scripts)

fn ins(t: usize, rows: &[&[i64]]) -> Stmt {
    Stmt::Insert { t, rows: rows.iter().map(|r| r.iter().map(|v| if *v == -1 { None } else { Some(*v) }).collect()).collect() }
}
fn del_eq(t: usize, c: usize, k: i64) -> Stmt {
    Stmt::Delete { t, wh: Some(Pred::Cmp(c, Op::Eq, k)) }
}
fn or(a: Pred, b: Pred) -> Pred {
    Pred::Or(Box::new(a), Box::new(b))
}

pub fn scripted(k: usize) -> Option<(&'static str, Vec<Tab>, Vec<Stmt>)> {
    use Act::*;
    let selfref = |d: Act, u: Act| {
        let mut t0 = tab(0, 2, Some(vec![0]));
        t0.fks.push(fk(&[1], 0, &[0], d, u, How::Alter));
        vec![t0]
    };
    let pc = |d: Act, u: Act| {
        let t0 = tab(0, 2, Some(vec![0]));
        let mut t1 = tab(1, 2, Some(vec![0]));
        t1.fks.push(fk(&[1], 0, &[0], d, u, How::Create));
        vec![t0, t1]
    };
    Some(match k {
        0 => (
            "index-shift",
            selfref(Cascade, Cascade),
            vec![ins(0, &[&[1, -1]]), ins(0, &[&[2, 1]]), ins(0, &[&[3, -1], &[4, -1]]), ins(0, &[&[5, 4]]),
                 Stmt::Delete { t: 0, wh: Some(or(Pred::Cmp(0, Op::Eq, 1), Pred::Cmp(0, Op::Eq, 3))) }],
        ),
        1 => {
            let t0 = tab(0, 1, Some(vec![0]));
            let mut t1 = tab(1, 3, Some(vec![0]));
            t1.fks.push(fk(&[1], 0, &[0], Cascade, NoAction, How::Create));
            t1.fks.push(fk(&[2], 1, &[0], SetNull, NoAction, How::Alter));
            ("stale-row", vec![t0, t1], vec![ins(0, &[&[1], &[2]]), ins(1, &[&[1, 1, -1]]), ins(1, &[&[2, 1, 1]]), ins(1, &[&[3, 2, -1]]), del_eq(0, 0, 1)])
        }
        2 => {
            let mut s = pc(SetDefault, SetDefault);
            s[1].cols[1].default = Some(7);
            ("set-default", s, vec![ins(0, &[&[1, 0], &[2, 0]]), ins(1, &[&[1, 1], &[2, 2]]), del_eq(0, 0, 1),
                 Stmt::Update { t: 0, asg: vec![(0, Expr::Lit(Some(5)))], wh: Some(Pred::Cmp(0, Op::Eq, 2)) }])
        }
        3 => {
            let t0 = tab(0, 2, Some(vec![0]));
            let mut t1 = tab(1, 2, Some(vec![0]));
            t1.fks.push(fk(&[1], 0, &[0], Cascade, Cascade, How::Create));
            let mut t2 = tab(2, 2, Some(vec![0]));
            t2.fks.push(fk(&[1], 0, &[0], NoAction, NoAction, How::Create));
            ("partial-delete-then-update", vec![t0, t1, t2],
             vec![ins(0, &[&[1, 0], &[2, 0], &[3, 0]]), ins(1, &[&[1, 1], &[2, 2]]), ins(2, &[&[1, 2]]),
                  Stmt::Delete { t: 0, wh: Some(Pred::Cmp(0, Op::Lt, 3)) },
                  ins(1, &[&[1, 1]]),
                  Stmt::Update { t: 0, asg: vec![(0, Expr::Add(0, 10))], wh: Some(Pred::Cmp(0, Op::Lt, 3)) }])
        }
        4 => {
            let t0 = tab(0, 2, Some(vec![0]));
            let mut t1 = tab(1, 3, Some(vec![0]));
            t1.fks.push(fk(&[1], 0, &[0], NoAction, Cascade, How::Create));
            t1.fks.push(fk(&[2], 0, &[0], NoAction, Cascade, How::Create));
            ("two-fks-overwrite", vec![t0, t1], vec![ins(0, &[&[3, 0]]), ins(1, &[&[1, 3, 3]]),
                 Stmt::Update { t: 0, asg: vec![(0, Expr::Lit(Some(33)))], wh: Some(Pred::Cmp(0, Op::Eq, 3)) }])
        }
        5 => {
            let t0 = tab(0, 1, Some(vec![0]));
            let mut t1 = tab(1, 1, Some(vec![0]));
            t1.fks.push(fk(&[0], 0, &[0], SetNull, Cascade, How::Create));
            let mut t2 = tab(2, 2, Some(vec![0]));
            t2.fks.push(fk(&[1], 1, &[0], NoAction, Cascade, How::Create));
            ("child-pk-side-effect", vec![t0, t1, t2], vec![ins(0, &[&[1], &[2]]), ins(1, &[&[1], &[2]]), ins(2, &[&[1, 1]]),
                 Stmt::Update { t: 0, asg: vec![(0, Expr::Lit(Some(5)))], wh: Some(Pred::Cmp(0, Op::Eq, 1)) },
                 del_eq(0, 0, 2)])
        }
        6 => (
            "self-ref-pk-update",
            selfref(Cascade, Cascade),
            vec![ins(0, &[&[1, -1], &[2, -1]]), ins(0, &[&[3, 1]]), Stmt::Update { t: 0, asg: vec![(0, Expr::Add(0, 10))], wh: None }],
        ),
        7 => ("drop-referenced", pc(NoAction, NoAction), vec![ins(0, &[&[1, 0]]), ins(1, &[&[1, 1]]), Stmt::Drop { t: 0 }, ins(1, &[&[2, 1]]), ins(1, &[&[3, -1]]), del_eq(1, 0, 1)]),
        8 => {
            let t0 = tab(0, 2, Some(vec![0]));
            let t1 = tab(1, 2, Some(vec![0]));
            ("add-fk-unvalidated", vec![t0, t1], vec![ins(0, &[&[1, 0]]), ins(1, &[&[1, 42]]),
                 Stmt::AddFk { t: 1, fk: fk(&[1], 0, &[0], NoAction, NoAction, How::Alter) }, ins(1, &[&[2, 43]]), ins(1, &[&[3, 1]])])
        }
        9 => {
            let t0 = tab(0, 3, Some(vec![0, 1]));
            let mut t1 = tab(1, 3, Some(vec![0]));
            t1.fks.push(fk(&[2, 1], 0, &[0, 1], Cascade, Cascade, How::Create));
            ("fk-out-of-order", vec![t0, t1], vec![ins(0, &[&[1, 2, 0]]), ins(1, &[&[1, 2, 1]]), ins(1, &[&[2, 1, 2]]),
                 Stmt::Update { t: 1, asg: vec![(1, Expr::Lit(Some(2))), (2, Expr::Lit(Some(1)))], wh: Some(Pred::Cmp(0, Op::Eq, 2)) }, del_eq(0, 0, 1)])
        }
        10 => {
            let t0 = tab(0, 2, Some(vec![0]));
            let mut t1 = tab(1, 2, Some(vec![0]));
            t1.fks.push(fk(&[1], 0, &[1], Cascade, Cascade, How::Create));
            ("non-pk-reference", vec![t0, t1], vec![ins(0, &[&[1, 100], &[100, 5]]), ins(1, &[&[1, 100]]), ins(1, &[&[2, 1]]), del_eq(0, 0, 1)])
        }
        11 => {
            let t0 = tab(0, 2, Some(vec![0]));
            let mut t1 = tab(1, 2, Some(vec![0]));
            t1.fks.push(fk(&[1], 0, &[0], Cascade, Cascade, How::ColumnLevel));
            ("column-level-references", vec![t0, t1], vec![ins(0, &[&[1, 0]]), ins(1, &[&[1, 5]])])
        }
        12 => (
            "cascade-cycle-crash",
            selfref(Cascade, NoAction),
            vec![ins(0, &[&[1, -1]]), Stmt::Update { t: 0, asg: vec![(1, Expr::Lit(Some(1)))], wh: Some(Pred::Cmp(0, Op::Eq, 1)) }, del_eq(0, 0, 1)],
        ),
        13 => (
            "two-row-cycle-crash",
            selfref(Cascade, NoAction),
            vec![ins(0, &[&[1, -1]]), ins(0, &[&[2, 1]]), ins(0, &[&[3, -1]]),
                 Stmt::Update { t: 0, asg: vec![(1, Expr::Lit(Some(2)))], wh: Some(Pred::Cmp(0, Op::Eq, 1)) }, del_eq(0, 0, 3), del_eq(0, 0, 2)],
        ),
        14 => (
            "i64-overflow",
            pc(Cascade, Cascade),
            vec![ins(0, &[&[9223372036854775807, 0], &[1, 0]]), ins(1, &[&[1, 9223372036854775807]]),
                 Stmt::Update { t: 0, asg: vec![(0, Expr::Add(0, 1))], wh: Some(Pred::Cmp(0, Op::Ge, 5)) },
                 Stmt::Update { t: 0, asg: vec![(0, Expr::Add(0, 1))], wh: None }],
        ),
        15 => {
            let mut s = pc(SetNull, SetNull);
            s[1].cols[1].notnull = true;
            ("set-null-on-not-null", s, vec![ins(0, &[&[1, 0], &[2, 0]]), ins(1, &[&[1, 1], &[2, 2]]), del_eq(0, 0, 1),
                 Stmt::Update { t: 0, asg: vec![(0, Expr::Add(0, 10))], wh: None }, ins(1, &[&[3, -1]])])
        }
        16 => {
            let t0 = tab(0, 2, Some(vec![0]));
            let mut t1 = tab(1, 2, Some(vec![0]));
            t1.fks.push(fk(&[1], 0, &[0], NoAction, NoAction, How::Create));
            let mut t2 = tab(2, 2, Some(vec![0]));
            t2.fks.push(fk(&[1], 1, &[0], NoAction, NoAction, How::Create));
            ("truncate-guards", vec![t0, t1, t2], vec![ins(0, &[&[1, 0]]), ins(1, &[&[1, 1]]), ins(2, &[&[1, 1]]),
                 Stmt::Truncate { t: 0, cascade: false }, Stmt::Truncate { t: 2, cascade: false }, ins(2, &[&[1, 1]]),
                 Stmt::Delete { t: 0, wh: None }, Stmt::Delete { t: 2, wh: None }, ins(2, &[&[2, 1]]),
                 Stmt::Truncate { t: 0, cascade: true }])
        }
        17 => {
            let t0 = tab(0, 2, Some(vec![0]));
            let mut t1 = tab(1, 2, Some(vec![0]));
            t1.fks.push(fk(&[1], 0, &[0], Cascade, NoAction, How::Create));
            ("add-fk-cycle", vec![t0, t1], vec![ins(0, &[&[1, -1]]), ins(1, &[&[1, 1]]),
                 Stmt::AddFk { t: 0, fk: fk(&[1], 1, &[0], Cascade, NoAction, How::Alter) }, ins(0, &[&[2, -1]])])
        }
        18 => (
            "no-action-exact",
            pc(NoAction, NoAction),
            vec![ins(0, &[&[1, 0], &[2, 0]]), ins(1, &[&[1, 1], &[2, -1]]), del_eq(0, 0, 1), del_eq(0, 0, 2),
                 Stmt::Update { t: 0, asg: vec![(0, Expr::Lit(Some(9)))], wh: Some(Pred::Cmp(0, Op::Eq, 1)) },
                 Stmt::Update { t: 1, asg: vec![(1, Expr::Lit(Some(2)))], wh: None }, del_eq(1, 0, 1), del_eq(0, 0, 1)],
        ),
        19 => {
            let t0 = tab(0, 2, Some(vec![0]));
            let mut t1 = tab(1, 2, Some(vec![0]));
            t1.fks.push(fk(&[1], 0, &[0], Cascade, Cascade, How::Create));
            let mut t2 = tab(2, 2, Some(vec![0]));
            t2.fks.push(fk(&[1], 1, &[0], Cascade, Cascade, How::Create));
            ("cascade-chain-exact", vec![t0, t1, t2], vec![ins(0, &[&[1, 0], &[2, 0]]), ins(1, &[&[1, 1], &[2, 1], &[3, 2]]), ins(2, &[&[1, 1], &[2, 3], &[3, -1]]),
                 Stmt::Update { t: 0, asg: vec![(0, Expr::Add(0, 10))], wh: None }, del_eq(0, 0, 11)])
        }
        20 => {
            let t0 = tab(0, 2, Some(vec![0]));
            let mut t1 = tab(1, 2, Some(vec![0]));
            t1.fks.push(fk(&[1], 0, &[0], Cascade, Cascade, How::Create));
            let t2 = tab(2, 2, Some(vec![0]));
            let sel = |dst: usize, src: usize, simple: bool| Stmt::InsertSelect { dst, src, simple, sel: vec![] };
            ("insert-select", vec![t0, t1, t2], vec![ins(0, &[&[1, 0], &[2, 0]]), ins(2, &[&[10, 1], &[11, 5], &[12, 2]]),
                 sel(1, 2, true), sel(1, 2, false), del_eq(2, 0, 11), Stmt::Delete { t: 1, wh: None }, sel(1, 2, true),
                 sel(1, 1, true), sel(2, 1, false), sel(0, 1, true)])
        }
        21 => {
            // bulk transfer into a self-referencing table: a row may reference an earlier row of the same statement
            let mut t0 = tab(0, 2, Some(vec![0]));
            t0.fks.push(fk(&[1], 0, &[0], NoAction, NoAction, How::Alter));
            let t1 = tab(1, 2, Some(vec![0]));
            let sel = |dst: usize, src: usize, simple: bool| Stmt::InsertSelect { dst, src, simple, sel: vec![] };
            ("insert-select-self-ref", vec![t0, t1], vec![ins(1, &[&[1, -1], &[2, 1], &[3, 2]]), sel(0, 1, false), sel(0, 1, true),
                 del_eq(0, 0, 3), ins(1, &[&[4, 9]]), Stmt::Delete { t: 0, wh: Some(Pred::Cmp(0, Op::Ge, 2)) }, sel(0, 1, true)])
        }
        22 => {
            let mut sc = pc(NoAction, SetNull);
            sc[1].cols[1].default = None;
            ("unchanged-key-update", sc, vec![ins(0, &[&[2, 0], &[3, 0]]), ins(1, &[&[7, 2], &[8, 3]]),
                 Stmt::Update { t: 0, asg: vec![(0, Expr::Lit(Some(2)))], wh: Some(Pred::Cmp(0, Op::Eq, 2)) },
                 Stmt::Update { t: 0, asg: vec![(0, Expr::Col(0)), (1, Expr::Lit(Some(5)))], wh: None }])
        }
        _ => return None,
    })
}
