//! Common command line and output conventions of the per-property harness binaries.
//!
//! Every binary is called as `<bin> --seed N --tier quick|thorough --out DIR [--only ids]` and writes
//! into DIR: `shard_<k>.v` (Coq case files evaluated against the model; each must end with an
//! `Eval vm_compute` whose value is the `list Z` of disagreeing case ids), `impl.json` (summary,
//! see `Summary`) and `cases.jsonl` (id -> printable case, for replay files).
use serde_json::{json, Value};
use std::collections::BTreeMap;
use std::io::Write;
use std::path::PathBuf;

pub struct Args {
    pub seed: u64,
    pub thorough: bool,
    pub out: PathBuf,
    pub only: Option<Vec<u64>>,
    pub extra: BTreeMap<String, String>,
}

pub fn parse_args() -> Args {
    let mut a = Args { seed: 1, thorough: false, out: PathBuf::from("."), only: None, extra: BTreeMap::new() };
    let argv: Vec<String> = std::env::args().collect();
    let mut i = 1;
    while i < argv.len() {
        let k = argv[i].as_str();
        let v = argv.get(i + 1).cloned().unwrap_or_default();
        match k {
            "--seed" => a.seed = v.parse().unwrap_or(1),
            "--tier" => a.thorough = v == "thorough",
            "--out" => a.out = PathBuf::from(&v),
            "--only" => a.only = Some(v.split(',').filter_map(|x| x.parse().ok()).collect()),
            _ => {
                a.extra.insert(k.trim_start_matches("--").to_string(), v);
            }
        }
        i += 2;
    }
    std::fs::create_dir_all(&a.out).ok();
    a
}

/// A violation of the property observed on the implementation itself (the property's own oracle).
pub struct Finding {
    pub class: String, // classifier slug; compared with KNOWN_FINDINGS
    pub case_id: u64,
    pub what: String,
    pub case: Value,
}

#[derive(Default)]
pub struct Summary {
    pub evaluations: u64,
    pub distinct: std::collections::HashSet<u64>,
    pub nontrivial_rule: String,
    pub samples: Vec<Value>,
    pub distribution: BTreeMap<String, u64>,
    pub findings: Vec<Finding>,
    pub notes: Vec<String>,
    pub model_cases: u64,
}

impl Summary {
    pub fn count(&mut self, key: &str) {
        *self.distribution.entry(key.to_string()).or_insert(0) += 1;
    }
    pub fn count_n(&mut self, key: &str, n: u64) {
        *self.distribution.entry(key.to_string()).or_insert(0) += n;
    }
    pub fn nontrivial(&mut self, canonical: &str) {
        self.distinct.insert(fxhash(canonical.as_bytes()));
    }
    pub fn sample(&mut self, v: Value) {
        if self.samples.len() < 6 {
            self.samples.push(v);
        }
    }
    pub fn finding(&mut self, class: &str, case_id: u64, what: String, case: Value) {
        self.findings.push(Finding { class: class.to_string(), case_id, what, case });
    }
    pub fn write(&self, args: &Args) {
        let mut per_class: BTreeMap<String, Vec<&Finding>> = BTreeMap::new();
        for f in &self.findings {
            per_class.entry(f.class.clone()).or_default().push(f);
        }
        let findings: Vec<Value> = per_class
            .iter()
            .map(|(c, fs)| {
                json!({"class": c, "count": fs.len(),
                       "examples": fs.iter().take(3).map(|f| json!({"case_id": f.case_id, "what": f.what, "case": f.case})).collect::<Vec<_>>()})
            })
            .collect();
        let j = json!({
            "evaluations": self.evaluations,
            "distinct_nontrivial": self.distinct.len(),
            "rule": self.nontrivial_rule,
            "samples": self.samples,
            "distribution": self.distribution,
            "findings": findings,
            "notes": self.notes,
            "model_cases": self.model_cases,
        });
        let mut f = std::fs::File::create(args.out.join("impl.json")).expect("impl.json");
        f.write_all(serde_json::to_string_pretty(&j).unwrap().as_bytes()).unwrap();
    }
}

pub fn fxhash(b: &[u8]) -> u64 {
    let mut h: u64 = 0xcbf29ce484222325;
    for x in b {
        h = (h ^ *x as u64).wrapping_mul(0x100000001b3);
    }
    h
}

pub struct CaseLog(std::io::BufWriter<std::fs::File>);
impl CaseLog {
    pub fn new(args: &Args) -> CaseLog {
        CaseLog(std::io::BufWriter::new(std::fs::File::create(args.out.join("cases.jsonl")).expect("cases.jsonl")))
    }
    pub fn log(&mut self, id: u64, v: Value) {
        writeln!(self.0, "{}", json!({"id": id, "case": v})).unwrap();
    }
}

pub fn write_shard(args: &Args, k: usize, text: &str) {
    std::fs::write(args.out.join(format!("shard_{:03}.v", k)), text).expect("write shard");
}

/// Silence panic messages (the harness catches panics and reports them itself).
pub fn quiet_panics() {
    std::panic::set_hook(Box::new(|info| {
        // panics raised by the harness itself (set-up failures, internal bugs) must stay visible
        let msg = if let Some(s) = info.payload().downcast_ref::<&str>() {
            s.to_string()
        } else if let Some(s) = info.payload().downcast_ref::<String>() {
            s.clone()
        } else {
            String::new()
        };
        let in_harness = info.location().map(|l| l.file().contains("/verif/") || l.file().starts_with("src/")).unwrap_or(false);
        if in_harness || msg.starts_with("harness") {
            eprintln!("harness panic: {} at {:?}", msg, info.location().map(|l| format!("{}:{}", l.file(), l.line())));
        }
    }));
}
