//! SqlValue generators, Coq printers and a recording hasher (shared by several properties).
use crate::rng::Rng;
use std::hash::Hasher;
use vibesql_types::{Date, Interval, SqlValue, Time, Timestamp};

/// Hasher that records every byte written (all `write_*` defaults funnel into `write`).
#[derive(Default)]
pub struct RecHasher(pub Vec<u8>);
impl Hasher for RecHasher {
    fn finish(&self) -> u64 {
        0
    }
    fn write(&mut self, bytes: &[u8]) {
        self.0.extend_from_slice(bytes);
    }
}

pub fn zlit(z: i128) -> String {
    if z < 0 {
        format!("({})", z)
    } else {
        format!("{}", z)
    }
}

pub fn bytes_lit(b: &[u8]) -> String {
    let v: Vec<String> = b.iter().map(|x| x.to_string()).collect();
    format!("[{}]", v.join(";"))
}

/// (months, days, microseconds) of an Interval, read from its derived Debug output
/// (the fields are private).
pub fn interval_triple(iv: &Interval) -> (i64, i64, i64) {
    let d = format!("{:?}", iv);
    let grab = |key: &str| -> i64 {
        let k = format!("{}: ", key);
        let p = d.rfind(&k).expect("Interval Debug field");
        let rest = &d[p + k.len()..];
        let end = rest.find(|c: char| !(c == '-' || c.is_ascii_digit())).unwrap_or(rest.len());
        rest[..end].parse().expect("Interval Debug number")
    };
    (grab("months"), grab("days"), grab("microseconds"))
}

/// Gallina term of type `sqlvalue` (theories/Value/SqlValue.v).
pub fn coq_value(v: &SqlValue) -> String {
    match v {
        SqlValue::Integer(i) => format!("(VInteger {})", zlit(*i as i128)),
        SqlValue::Smallint(i) => format!("(VSmallint {})", zlit(*i as i128)),
        SqlValue::Bigint(i) => format!("(VBigint {})", zlit(*i as i128)),
        SqlValue::Unsigned(u) => format!("(VUnsigned {})", zlit(*u as i128)),
        SqlValue::Numeric(f) => format!("(VNumeric {})", f.to_bits()),
        SqlValue::Float(f) => format!("(VFloat {})", f.to_bits()),
        SqlValue::Real(f) => format!("(VReal {})", f.to_bits()),
        SqlValue::Double(f) => format!("(VDouble {})", f.to_bits()),
        SqlValue::Character(s) => format!("(VCharacter {})", bytes_lit(s.as_bytes())),
        SqlValue::Varchar(s) => format!("(VVarchar {})", bytes_lit(s.as_bytes())),
        SqlValue::Boolean(b) => format!("(VBoolean {})", b),
        SqlValue::Date(d) => format!("(VDate {} {} {})", zlit(d.year as i128), d.month, d.day),
        SqlValue::Time(t) => format!("(VTime {} {} {} {})", t.hour, t.minute, t.second, t.nanosecond),
        SqlValue::Timestamp(ts) => format!(
            "(VTimestamp {} {} {} {} {} {} {})",
            zlit(ts.date.year as i128),
            ts.date.month,
            ts.date.day,
            ts.time.hour,
            ts.time.minute,
            ts.time.second,
            ts.time.nanosecond
        ),
        SqlValue::Interval(iv) => {
            let (m, d, u) = interval_triple(iv);
            format!("(VInterval {} {} {})", zlit(m as i128), zlit(d as i128), zlit(u as i128))
        }
        SqlValue::Null => "VNull".to_string(),
    }
}

pub const F64_SPECIAL: &[u64] = &[
    0x0000000000000000, // +0
    0x8000000000000000, // -0
    0x0000000000000001, // min subnormal
    0x8000000000000001,
    0x000fffffffffffff, // max subnormal
    0x0010000000000000, // min normal
    0x3ff0000000000000, // 1.0
    0x3ff0000000000001, // 1.0 + ulp
    0xbff0000000000000, // -1.0
    0x3ff8000000000000, // 1.5
    0x4340000000000000, // 2^53
    0x4340000000000001, // 2^53 + 2
    0x433fffffffffffff, // 2^53 - 1
    0x43e0000000000000, // 2^63
    0xc3e0000000000000, // -2^63
    0x7fefffffffffffff, // MAX
    0xffefffffffffffff, // -MAX
    0x7ff0000000000000, // +inf
    0xfff0000000000000, // -inf
    0x7ff8000000000000, // canonical NaN
    0x7ff0000000000001, // signalling NaN
    0xfff8000000000000, // negative NaN
    0x7fffffffffffffff, // NaN all ones
    0x4014000000000000, // 5.0
    0x4024000000000000, // 10.0
];

pub const F32_SPECIAL: &[u32] = &[
    0x00000000, 0x80000000, 0x00000001, 0x80000001, 0x007fffff, 0x00800000, 0x3f800000, 0x3f800001,
    0xbf800000, 0x4b800000, 0x7f7fffff, 0xff7fffff, 0x7f800000, 0xff800000, 0x7fc00000, 0x7f800001,
    0xffc00000, 0x7fffffff, 0x40a00000,
];

pub const I64_SPECIAL: &[i64] = &[
    0, 1, -1, 2, 5, 10, 127, 128, 255, 256, -128, -129, 32767, 32768, -32768, -32769, 2147483647,
    2147483648, -2147483648, -2147483649, 9007199254740991, 9007199254740992, 9007199254740993,
    -9007199254740993, i64::MAX, i64::MIN, i64::MAX - 1, i64::MIN + 1,
];

pub const STR_SPECIAL: &[&str] = &[
    "", "a", "A", "ab", "a ", " a", "b", "abc", "'", "''", "\"", "\\", ";", "--", "-- x", "\n", "a\nb",
    "?", ",", "NULL", "null", "0", "é", "ée", "日本", "😀", "a\u{0}b", "\u{7f}", "\u{80}", "zz",
];

pub const INTERVAL_SPECIAL: &[&str] = &[
    "0 DAY", "1 MONTH", "30 DAY", "1 YEAR", "12 MONTH", "360 DAY", "1 DAY", "24 HOUR", "86400 SECOND",
    "1440 MINUTE", "1-6 YEAR TO MONTH", "18 MONTH", "2 DAY", "1 HOUR", "60 MINUTE", "3600 SECOND",
    "1.5 SECOND", "0.000001 SECOND", "-1 DAY", "-1 MONTH", "-30 DAY", "5 12:30:45 DAY TO SECOND",
    "12:30:45 HOUR TO SECOND", "", "garbage", "2147483647 MONTH", "2147483647 DAY",
];

fn date(y: i32, m: u8, d: u8) -> Date {
    Date { year: y, month: m, day: d }
}
fn time(h: u8, mi: u8, s: u8, ns: u32) -> Time {
    Time { hour: h, minute: mi, second: s, nanosecond: ns }
}

/// The boundary set: every variant, with the values at which the trait impls change behaviour.
pub fn boundary_values() -> Vec<SqlValue> {
    let mut v = vec![SqlValue::Null];
    for &i in I64_SPECIAL {
        v.push(SqlValue::Integer(i));
        v.push(SqlValue::Bigint(i));
        if i >= i16::MIN as i64 && i <= i16::MAX as i64 {
            v.push(SqlValue::Smallint(i as i16));
        }
        if i >= 0 {
            v.push(SqlValue::Unsigned(i as u64));
        }
    }
    v.push(SqlValue::Unsigned(u64::MAX));
    v.push(SqlValue::Unsigned(1u64 << 63));
    for &b in F64_SPECIAL {
        v.push(SqlValue::Double(f64::from_bits(b)));
        v.push(SqlValue::Numeric(f64::from_bits(b)));
    }
    for &b in F32_SPECIAL {
        v.push(SqlValue::Float(f32::from_bits(b)));
        v.push(SqlValue::Real(f32::from_bits(b)));
    }
    for s in STR_SPECIAL {
        v.push(SqlValue::Varchar(s.to_string()));
        v.push(SqlValue::Character(s.to_string()));
    }
    v.push(SqlValue::Boolean(false));
    v.push(SqlValue::Boolean(true));
    for &(y, m, d) in &[(2024, 1, 1), (2024, 1, 2), (2024, 2, 1), (2023, 12, 31), (0, 1, 1), (-1, 12, 31), (9999, 12, 31), (i32::MAX, 12, 31), (i32::MIN, 1, 1)] {
        v.push(SqlValue::Date(date(y, m, d)));
        v.push(SqlValue::Timestamp(Timestamp { date: date(y, m, d), time: time(0, 0, 0, 0) }));
    }
    for &(h, mi, s, ns) in &[(0, 0, 0, 0), (0, 0, 0, 1), (0, 0, 1, 0), (0, 1, 0, 0), (1, 0, 0, 0), (23, 59, 59, 999_999_999), (12, 30, 45, 500_000_000)] {
        v.push(SqlValue::Time(time(h, mi, s, ns)));
        v.push(SqlValue::Timestamp(Timestamp { date: date(2024, 1, 1), time: time(h, mi, s, ns) }));
    }
    for s in INTERVAL_SPECIAL {
        v.push(SqlValue::Interval(Interval::new(s.to_string())));
    }
    v
}

pub fn random_string(r: &mut Rng) -> String {
    if r.chance(1, 4) {
        return r.pick(STR_SPECIAL).to_string();
    }
    let n = r.below(6);
    let alphabet: Vec<char> = "abAB01 '\"\\;-\n?,é日😀\u{0}".chars().collect();
    (0..n).map(|_| *r.pick(&alphabet)).collect()
}

pub fn random_f64_bits(r: &mut Rng) -> u64 {
    match r.below(4) {
        0 => *r.pick(F64_SPECIAL),
        1 => {
            // neighbour of a special value
            let b = *r.pick(F64_SPECIAL);
            b.wrapping_add(r.below(5)).wrapping_sub(2)
        }
        2 => ((r.range(-1000, 1000)) as f64 / 4.0).to_bits(),
        _ => r.next(),
    }
}

pub fn random_f32_bits(r: &mut Rng) -> u32 {
    match r.below(4) {
        0 => *r.pick(F32_SPECIAL),
        1 => r.pick(F32_SPECIAL).wrapping_add(r.below(5) as u32).wrapping_sub(2),
        2 => ((r.range(-1000, 1000)) as f32 / 4.0).to_bits(),
        _ => r.next() as u32,
    }
}

pub fn random_i64(r: &mut Rng) -> i64 {
    match r.below(4) {
        0 => *r.pick(I64_SPECIAL),
        1 => r.pick(I64_SPECIAL).wrapping_add(r.range(-2, 2)),
        2 => r.range(-20, 20),
        _ => r.next() as i64,
    }
}

pub fn random_interval(r: &mut Rng) -> Interval {
    let s = match r.below(8) {
        0 => r.pick(INTERVAL_SPECIAL).to_string(),
        1 => format!("{} MONTH", r.range(-40, 40)),
        2 => format!("{} DAY", r.range(-1300, 1300)),
        3 => format!("{} YEAR", r.range(-4, 4)),
        4 => format!("{} HOUR", r.range(-30000, 30000)),
        5 => format!("{} SECOND", r.range(-3_000_000, 3_000_000) * 3600),
        6 => format!("{}-{} YEAR TO MONTH", r.range(0, 3), r.range(0, 11)),
        _ => format!("{} MINUTE", r.range(-50000, 50000) * 60),
    };
    Interval::new(s)
}

pub fn random_value(r: &mut Rng) -> SqlValue {
    match r.below(17) {
        0 => SqlValue::Null,
        1 => SqlValue::Integer(random_i64(r)),
        2 => SqlValue::Smallint(random_i64(r) as i16),
        3 => SqlValue::Bigint(random_i64(r)),
        4 => SqlValue::Unsigned(random_i64(r) as u64),
        5 => SqlValue::Numeric(f64::from_bits(random_f64_bits(r))),
        6 => SqlValue::Float(f32::from_bits(random_f32_bits(r))),
        7 => SqlValue::Real(f32::from_bits(random_f32_bits(r))),
        8 | 16 => SqlValue::Double(f64::from_bits(random_f64_bits(r))),
        9 => SqlValue::Character(random_string(r)),
        10 => SqlValue::Varchar(random_string(r)),
        11 => SqlValue::Boolean(r.chance(1, 2)),
        12 => SqlValue::Date(date(r.range(2023, 2025) as i32, r.range(1, 12) as u8, r.range(1, 31) as u8)),
        13 => SqlValue::Time(time(r.range(0, 23) as u8, r.range(0, 59) as u8, r.range(0, 59) as u8, (r.below(3) * 500_000_000).min(999_999_999) as u32)),
        14 => SqlValue::Timestamp(Timestamp {
            date: date(r.range(2023, 2025) as i32, r.range(1, 12) as u8, r.range(1, 3) as u8),
            time: time(r.range(0, 1) as u8, r.range(0, 1) as u8, r.range(0, 59) as u8, 0),
        }),
        _ => SqlValue::Interval(random_interval(r)),
    }
}
