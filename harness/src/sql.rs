//! Run SQL text against a `vibesql_storage::Database` through the parser and the executor crates'
//! public entry points (the same dispatch the repository's sqllogictest adapter uses).  Every call is
//! wrapped in `catch_unwind`; errors are mapped to a small enum so that message text is never compared.
use std::panic::{catch_unwind, AssertUnwindSafe};
use vibesql_ast::Statement;
use vibesql_executor::ExecutorError;
use vibesql_parser::Parser;
use vibesql_storage::Database;
use vibesql_types::SqlValue;

#[derive(Debug, Clone, PartialEq, Eq, Hash, PartialOrd, Ord)]
pub enum ErrClass {
    Parse,
    Constraint,
    Type,
    NotFound,
    Permission,
    Unsupported,
    Other,
}

#[derive(Debug, Clone)]
pub enum Outcome {
    Rows(Vec<Vec<SqlValue>>),
    Count(usize),
    Done,
    Err(ErrClass, String),
    Panic(String),
}

impl Outcome {
    pub fn is_ok(&self) -> bool {
        matches!(self, Outcome::Rows(_) | Outcome::Count(_) | Outcome::Done)
    }
    pub fn rows(&self) -> Option<&Vec<Vec<SqlValue>>> {
        if let Outcome::Rows(r) = self {
            Some(r)
        } else {
            None
        }
    }
    pub fn tag(&self) -> String {
        match self {
            Outcome::Rows(r) => format!("rows:{}", r.len()),
            Outcome::Count(n) => format!("count:{}", n),
            Outcome::Done => "ok".into(),
            Outcome::Err(c, _) => format!("err:{:?}", c),
            Outcome::Panic(_) => "panic".into(),
        }
    }
}

pub fn classify(e: &ExecutorError) -> ErrClass {
    use ExecutorError::*;
    match e {
        TableNotFound(_) | ColumnNotFound { .. } | InvalidTableQualifier { .. } | IndexNotFound(_) | TriggerNotFound(_)
        | SchemaNotFound(_) | RoleNotFound(_) | TypeNotFound(_) | ConstraintNotFound { .. } => ErrClass::NotFound,
        PermissionDenied { .. } => ErrClass::Permission,
        ConstraintViolation(_) | MultiplePrimaryKeys => ErrClass::Constraint,
        TypeMismatch { .. } | CastError { .. } | TypeConversionError { .. } | DivisionByZero => ErrClass::Type,
        UnsupportedExpression(_) | UnsupportedFeature(_) => ErrClass::Unsupported,
        other => {
            let s = format!("{:?}", other);
            if s.starts_with("TypeError") || s.contains("overflow") {
                ErrClass::Type
            } else {
                ErrClass::Other
            }
        }
    }
}

fn panic_text(p: Box<dyn std::any::Any + Send>) -> String {
    if let Some(s) = p.downcast_ref::<&str>() {
        s.to_string()
    } else if let Some(s) = p.downcast_ref::<String>() {
        s.clone()
    } else {
        "panic".into()
    }
}

pub fn parse(sql: &str) -> Result<Statement, Outcome> {
    match catch_unwind(AssertUnwindSafe(|| Parser::parse_sql(sql))) {
        Ok(Ok(s)) => Ok(s),
        Ok(Err(e)) => Err(Outcome::Err(ErrClass::Parse, format!("{:?}", e))),
        Err(p) => Err(Outcome::Panic(panic_text(p))),
    }
}

fn ex<T>(r: Result<T, ExecutorError>, f: impl FnOnce(T) -> Outcome) -> Outcome {
    match r {
        Ok(v) => f(v),
        Err(e) => Outcome::Err(classify(&e), format!("{:?}", e)),
    }
}

fn st<T, E: std::fmt::Debug>(r: Result<T, E>) -> Outcome {
    match r {
        Ok(_) => Outcome::Done,
        Err(e) => Outcome::Err(ErrClass::Other, format!("{:?}", e)),
    }
}

/// Execute an already parsed statement.
pub fn exec_stmt(db: &mut Database, stmt: &Statement) -> Outcome {
    let r = catch_unwind(AssertUnwindSafe(|| match stmt {
        Statement::Select(s) => ex(vibesql_executor::SelectExecutor::new(db).execute(s), |rows| {
            Outcome::Rows(rows.into_iter().map(|r| r.values).collect())
        }),
        Statement::CreateTable(s) => ex(vibesql_executor::CreateTableExecutor::execute(s, db), |_| Outcome::Done),
        Statement::Insert(s) => ex(vibesql_executor::InsertExecutor::execute(db, s), Outcome::Count),
        Statement::Update(s) => ex(vibesql_executor::UpdateExecutor::execute(s, db), Outcome::Count),
        Statement::Delete(s) => ex(vibesql_executor::DeleteExecutor::execute(s, db), Outcome::Count),
        Statement::DropTable(s) => ex(vibesql_executor::DropTableExecutor::execute(s, db), |_| Outcome::Done),
        Statement::AlterTable(s) => ex(vibesql_executor::AlterTableExecutor::execute(s, db), |_| Outcome::Done),
        Statement::TruncateTable(s) => ex(vibesql_executor::TruncateTableExecutor::execute(s, db), Outcome::Count),
        Statement::CreateIndex(s) => ex(vibesql_executor::IndexExecutor::execute(s, db), |_| Outcome::Done),
        Statement::DropIndex(s) => ex(vibesql_executor::IndexExecutor::execute_drop(s, db), |_| Outcome::Done),
        Statement::CreateView(s) => ex(vibesql_executor::advanced_objects::execute_create_view(s, db), |_| Outcome::Done),
        Statement::DropView(s) => ex(vibesql_executor::advanced_objects::execute_drop_view(s, db), |_| Outcome::Done),
        Statement::CreateTrigger(s) => ex(vibesql_executor::TriggerExecutor::create_trigger(db, s), |_| Outcome::Done),
        Statement::DropTrigger(s) => ex(vibesql_executor::TriggerExecutor::drop_trigger(db, s), |_| Outcome::Done),
        Statement::Grant(s) => ex(vibesql_executor::GrantExecutor::execute_grant(s, db), |_| Outcome::Done),
        Statement::Revoke(s) => ex(vibesql_executor::RevokeExecutor::execute_revoke(s, db), |_| Outcome::Done),
        Statement::CreateRole(s) => ex(vibesql_executor::RoleExecutor::execute_create_role(s, db), |_| Outcome::Done),
        Statement::DropRole(s) => ex(vibesql_executor::RoleExecutor::execute_drop_role(s, db), |_| Outcome::Done),
        Statement::BeginTransaction(_) => st(db.begin_transaction()),
        Statement::Commit(_) => st(db.commit_transaction()),
        Statement::Rollback(_) => st(db.rollback_transaction()),
        Statement::Savepoint(s) => st(db.create_savepoint(s.name.clone())),
        Statement::RollbackToSavepoint(s) => st(db.rollback_to_savepoint(s.name.clone())),
        Statement::ReleaseSavepoint(s) => st(db.release_savepoint(s.name.clone())),
        _ => Outcome::Err(ErrClass::Unsupported, "statement kind not dispatched by the harness".into()),
    }));
    match r {
        Ok(o) => o,
        Err(p) => Outcome::Panic(panic_text(p)),
    }
}

/// Parse and execute one statement.
pub fn exec(db: &mut Database, sql: &str) -> Outcome {
    match parse(sql) {
        Ok(stmt) => exec_stmt(db, &stmt),
        Err(o) => o,
    }
}

/// Run a script; panics (in the harness sense) if a set-up statement fails.
pub fn must(db: &mut Database, sql: &str) {
    let o = exec(db, sql);
    if !o.is_ok() {
        panic!("harness set-up statement failed: {} -> {:?}", sql, o);
    }
}

/// Numeric value of a SqlValue for "compare by value, not storage type".
pub fn num_of(v: &SqlValue) -> Option<f64> {
    match v {
        SqlValue::Integer(i) | SqlValue::Bigint(i) => Some(*i as f64),
        SqlValue::Smallint(i) => Some(*i as f64),
        SqlValue::Unsigned(u) => Some(*u as f64),
        SqlValue::Numeric(f) | SqlValue::Double(f) => Some(*f),
        SqlValue::Float(f) | SqlValue::Real(f) => Some(*f as f64),
        _ => None,
    }
}

/// Canonical text of a value: integers and integral floats print alike; strings are quoted.
pub fn canon_value(v: &SqlValue) -> String {
    match v {
        SqlValue::Null => "NULL".into(),
        SqlValue::Integer(i) | SqlValue::Bigint(i) => format!("{}", i),
        SqlValue::Smallint(i) => format!("{}", i),
        SqlValue::Unsigned(u) => format!("{}", u),
        SqlValue::Numeric(_) | SqlValue::Double(_) | SqlValue::Float(_) | SqlValue::Real(_) => {
            let f = num_of(v).unwrap();
            if f.is_finite() && f == f.trunc() && f.abs() < 9.0e15 {
                format!("{}", f as i64)
            } else if f.is_nan() {
                "NaN".into()
            } else {
                format!("{:?}", f)
            }
        }
        SqlValue::Character(s) | SqlValue::Varchar(s) => format!("'{}'", s),
        SqlValue::Boolean(b) => format!("{}", b),
        other => format!("{}", other),
    }
}

pub fn canon_row(r: &[SqlValue]) -> String {
    r.iter().map(canon_value).collect::<Vec<_>>().join("|")
}

/// Sorted multiset of canonical rows.
pub fn canon_bag(rows: &[Vec<SqlValue>]) -> Vec<String> {
    let mut v: Vec<String> = rows.iter().map(|r| canon_row(r)).collect();
    v.sort();
    v
}

pub fn canon_seq(rows: &[Vec<SqlValue>]) -> Vec<String> {
    rows.iter().map(|r| canon_row(r)).collect()
}
