//! Shared by the C13 and C14 harness binaries: the statement language of the transaction model
//! (coq/theories/Store/Savepoint.v `op`), its execution on the real engine, observation of the
//! engine (tables, catalog index listing, storage indexes with contents, a battery of point
//! queries) and the Gallina printers for the shards.
use serde_json::{json, Value};
use std::panic::{catch_unwind, AssertUnwindSafe};
use vh::rng::Rng;
use vh::sql::*;
use vh::val::{bytes_lit, coq_value};
use vibesql_storage::database::TransactionChange;
use vibesql_storage::{Database, IndexData, Row};
use vibesql_types::SqlValue;

pub const COLS: [&[&str]; 2] = [&["G", "A", "B", "V", "C"], &["G", "A", "B"]];
/// index name -> (table, column): the generator never puts two indexes on one column
pub const INDEXES: [(i64, usize); 3] = [(0, 1), (0, 2), (1, 1)];
/// (table, column, constant) asked as `WHERE col = k` and `WHERE col = k ORDER BY G`
pub fn battery() -> Vec<(i64, usize, i64)> {
    let mut v = Vec::new();
    for (t, c) in [(0i64, 1usize), (0, 2), (1, 1), (1, 2)] {
        for k in 1..=4 {
            v.push((t, c, k));
        }
    }
    v
}

pub fn tname(t: i64) -> String {
    format!("T{}", t)
}
pub fn cname(t: i64, c: usize) -> String {
    COLS.get(t as usize).and_then(|cs| cs.get(c)).map(|s| s.to_string()).unwrap_or_else(|| "Q".to_string())
}

#[derive(Clone, Debug)]
pub enum Lit {
    Int(i64),
    Str(String),
    Null,
}

#[derive(Clone, Debug)]
pub enum Change {
    Ins(i64, Vec<SqlValue>),
    Upd(i64, Vec<SqlValue>, Vec<SqlValue>),
    Del(i64, Vec<SqlValue>),
}

pub type Wc = Option<(usize, i64)>;

#[derive(Clone, Debug)]
pub enum Op {
    Begin,
    Commit,
    Rollback,
    Savepoint(i64),
    Release(i64),
    RollbackTo(i64),
    Insert(i64, Vec<Vec<Lit>>),
    ApiInsert(i64, Vec<SqlValue>),
    ApiBatch(i64, Vec<Vec<SqlValue>>),
    ApiRecord(Change),
    Update(i64, usize, i64, Wc),
    Delete(i64, Wc),
    CreateIndex(i64, i64, usize),
    DropIndex(i64),
}

fn where_sql(t: i64, w: &Wc) -> String {
    match w {
        None => String::new(),
        Some((c, k)) => format!(" WHERE {} = {}", cname(t, *c), k),
    }
}

impl Op {
    /// SQL text (None for calls made through the storage API)
    pub fn sql(&self) -> Option<String> {
        Some(match self {
            Op::Begin => "BEGIN".into(),
            Op::Commit => "COMMIT".into(),
            Op::Rollback => "ROLLBACK".into(),
            Op::Savepoint(n) => format!("SAVEPOINT S{}", n),
            Op::Release(n) => format!("RELEASE SAVEPOINT S{}", n),
            Op::RollbackTo(n) => format!("ROLLBACK TO SAVEPOINT S{}", n),
            Op::Insert(t, rows) => {
                let rs: Vec<String> = rows
                    .iter()
                    .map(|r| {
                        let vs: Vec<String> = r
                            .iter()
                            .map(|l| match l {
                                Lit::Int(i) => i.to_string(),
                                Lit::Str(s) => format!("'{}'", s),
                                Lit::Null => "NULL".into(),
                            })
                            .collect();
                        format!("({})", vs.join(", "))
                    })
                    .collect();
                format!("INSERT INTO {} VALUES {}", tname(*t), rs.join(", "))
            }
            Op::Update(t, c, k, w) => format!("UPDATE {} SET {} = {}{}", tname(*t), cname(*t, *c), k, where_sql(*t, w)),
            Op::Delete(t, w) => format!("DELETE FROM {}{}", tname(*t), where_sql(*t, w)),
            Op::CreateIndex(i, t, c) => format!("CREATE INDEX IX{} ON {} ({})", i, tname(*t), cname(*t, *c)),
            Op::DropIndex(i) => format!("DROP INDEX IX{}", i),
            Op::ApiInsert(..) | Op::ApiBatch(..) | Op::ApiRecord(..) => return None,
        })
    }

    pub fn text(&self) -> String {
        match self {
            Op::ApiInsert(t, r) => format!("db.insert_row({:?}, {:?})", tname(*t), r),
            Op::ApiBatch(t, rs) => format!("db.insert_rows_batch({:?}, {:?})", tname(*t), rs),
            Op::ApiRecord(c) => format!("db.record_change({:?})", c),
            o => o.sql().unwrap(),
        }
    }

    pub fn is_control(&self) -> bool {
        matches!(self, Op::Begin | Op::Commit | Op::Rollback | Op::Savepoint(_) | Op::Release(_) | Op::RollbackTo(_))
    }

    /// run on the engine; result code: n >= 0 affected rows / 0, -1 error, -2 panic
    pub fn exec(&self, db: &mut Database) -> i64 {
        match self {
            Op::ApiInsert(t, r) => {
                let row = Row::new(r.clone());
                let name = tname(*t);
                match catch_unwind(AssertUnwindSafe(|| db.insert_row(&name, row))) {
                    Ok(Ok(())) => 1,
                    Ok(Err(_)) => -1,
                    Err(_) => -2,
                }
            }
            Op::ApiBatch(t, rs) => {
                let rows: Vec<Row> = rs.iter().map(|r| Row::new(r.clone())).collect();
                let name = tname(*t);
                match catch_unwind(AssertUnwindSafe(|| db.insert_rows_batch(&name, rows))) {
                    Ok(Ok(n)) => n as i64,
                    Ok(Err(_)) => -1,
                    Err(_) => -2,
                }
            }
            Op::ApiRecord(c) => {
                let ch = match c {
                    Change::Ins(t, r) => TransactionChange::Insert { table_name: tname(*t), row: Row::new(r.clone()) },
                    Change::Upd(t, o, n) => {
                        TransactionChange::Update { table_name: tname(*t), old_row: Row::new(o.clone()), new_row: Row::new(n.clone()) }
                    }
                    Change::Del(t, r) => TransactionChange::Delete { table_name: tname(*t), row: Row::new(r.clone()) },
                };
                match catch_unwind(AssertUnwindSafe(|| db.record_change(ch))) {
                    Ok(()) => 0,
                    Err(_) => -2,
                }
            }
            o => match exec(db, &o.sql().unwrap()) {
                Outcome::Count(n) => n as i64,
                Outcome::Done | Outcome::Rows(_) => 0,
                Outcome::Err(..) => -1,
                Outcome::Panic(_) => -2,
            },
        }
    }

    // ---------------------------------------------------------------- Gallina
    pub fn coq(&self) -> String {
        match self {
            Op::Begin => "OBegin".into(),
            Op::Commit => "OCommit".into(),
            Op::Rollback => "ORollback".into(),
            Op::Savepoint(n) => format!("(OSavepoint {})", n),
            Op::Release(n) => format!("(ORelease {})", n),
            Op::RollbackTo(n) => format!("(ORollbackTo {})", n),
            Op::Insert(t, rows) => {
                let rs: Vec<String> = rows
                    .iter()
                    .map(|r| {
                        let vs: Vec<String> = r
                            .iter()
                            .map(|l| match l {
                                Lit::Int(i) => format!("LInt {}", vh::val::zlit(*i as i128)),
                                Lit::Str(s) => format!("LStr {}", bytes_lit(s.as_bytes())),
                                Lit::Null => "LNull".into(),
                            })
                            .collect();
                        format!("[{}]", vs.join(";"))
                    })
                    .collect();
                format!("(OInsert {} [{}])", t, rs.join(";"))
            }
            Op::ApiInsert(t, r) => format!("(OApiInsert {} {})", t, coq_row(r)),
            Op::ApiBatch(t, rs) => format!("(OApiBatch {} {})", t, coq_rows(rs)),
            Op::ApiRecord(c) => format!(
                "(OApiRecord {})",
                match c {
                    Change::Ins(t, r) => format!("(CInsert {} {})", t, coq_row(r)),
                    Change::Upd(t, o, n) => format!("(CUpdate {} {} {})", t, coq_row(o), coq_row(n)),
                    Change::Del(t, r) => format!("(CDelete {} {})", t, coq_row(r)),
                }
            ),
            Op::Update(t, c, k, w) => format!("(OUpdate {} {}%nat {} {})", t, c, vh::val::zlit(*k as i128), coq_wc(w)),
            Op::Delete(t, w) => format!("(ODelete {} {})", t, coq_wc(w)),
            Op::CreateIndex(i, t, c) => format!("(OCreateIndex {} {} {}%nat)", i, t, c),
            Op::DropIndex(i) => format!("(ODropIndex {})", i),
        }
    }
}

fn coq_wc(w: &Wc) -> String {
    match w {
        None => "None".into(),
        Some((c, k)) => format!("(Some ({}%nat, {}))", c, vh::val::zlit(*k as i128)),
    }
}
pub fn coq_row(r: &[SqlValue]) -> String {
    format!("[{}]", r.iter().map(coq_value).collect::<Vec<_>>().join(";"))
}
pub fn coq_rows(rs: &[Vec<SqlValue>]) -> String {
    format!("[{}]", rs.iter().map(|r| coq_row(r)).collect::<Vec<_>>().join(";"))
}

// -------------------------------------------------------------------- observation

#[derive(Clone, Debug, PartialEq)]
pub struct Snapshot {
    /// Database::list_tables() (oracle only: the model has no table DDL)
    pub listing: Vec<String>,
    pub tabs: Vec<(i64, Vec<Vec<SqlValue>>)>,
    pub cix: Vec<(i64, i64)>,
    pub uix: Vec<(i64, i64, usize, Vec<(Option<i64>, Vec<usize>)>)>,
    pub q: Vec<Option<Vec<Vec<SqlValue>>>>,
}

fn code_of(name: &str, prefix: &str) -> i64 {
    let n = name.rsplit('.').next().unwrap_or(name);
    n.to_uppercase().trim_start_matches(prefix).parse().unwrap_or_else(|_| panic!("harness: unexpected name {}", name))
}

pub fn setup() -> Database {
    let mut db = Database::new();
    must(&mut db, "CREATE TABLE T0 (G INTEGER, A INTEGER, B INTEGER, V VARCHAR(4), C CHAR(3))");
    must(&mut db, "CREATE TABLE T1 (G INTEGER, A INTEGER, B INTEGER)");
    db
}

pub fn table_rows(db: &Database, t: i64) -> Vec<Vec<SqlValue>> {
    db.get_table(&tname(t)).map(|tb| tb.scan().iter().map(|r| r.values.clone()).collect()).unwrap_or_default()
}

pub fn observe(db: &mut Database) -> Snapshot {
    let tabs: Vec<(i64, Vec<Vec<SqlValue>>)> = (0..COLS.len() as i64).map(|t| (t, table_rows(db, t))).collect();
    let mut cix: Vec<(i64, i64)> =
        db.catalog.list_all_indexes().iter().map(|m| (code_of(&m.name, "IX"), code_of(&m.table_name, "T"))).collect();
    cix.sort();
    let mut uix = Vec::new();
    let mut names = db.list_indexes();
    names.sort();
    for n in names {
        let meta = db.get_index(&n).expect("harness: index metadata");
        let t = code_of(&meta.table_name, "T");
        let col = &meta.columns[0].column_name;
        let c = COLS[t as usize].iter().position(|x| x.eq_ignore_ascii_case(col)).expect("harness: index column");
        let data = match db.get_index_data(&n).expect("harness: index data") {
            IndexData::InMemory { data } => data
                .iter()
                .map(|(k, v)| {
                    let key = match &k[0] {
                        SqlValue::Double(f) if f.fract() == 0.0 => Some(*f as i64),
                        SqlValue::Null => None,
                        other => panic!("harness: unexpected index key {:?}", other),
                    };
                    (key, v.clone())
                })
                .collect(),
            _ => panic!("harness: disk-backed index not expected"),
        };
        uix.push((code_of(&n, "IX"), t, c, data));
    }
    let mut q = Vec::new();
    for (t, c, k) in battery() {
        for ordered in [false, true] {
            let sql = format!("SELECT * FROM {} WHERE {} = {}{}", tname(t), cname(t, c), k, if ordered { " ORDER BY G" } else { "" });
            q.push(match exec(db, &sql) {
                Outcome::Rows(r) => Some(r),
                _ => None,
            });
        }
    }
    let mut listing = db.list_tables();
    listing.sort();
    Snapshot { listing, tabs, cix, uix, q }
}

pub fn bag(rows: &[Vec<SqlValue>]) -> Vec<String> {
    let mut v: Vec<String> = rows.iter().map(|r| format!("{:?}", r)).collect();
    v.sort();
    v
}

impl Snapshot {
    pub fn table_bags(&self) -> Vec<(i64, Vec<String>)> {
        self.tabs.iter().map(|(t, r)| (*t, bag(r))).collect()
    }
    pub fn storage_listing(&self) -> Vec<(i64, i64, usize)> {
        self.uix.iter().map(|(i, t, c, _)| (*i, *t, *c)).collect()
    }
    pub fn answers(&self) -> Vec<Option<Vec<String>>> {
        self.q.iter().map(|a| a.as_ref().map(|r| bag(r))).collect()
    }
    pub fn coq(&self) -> String {
        let tabs: Vec<String> = self.tabs.iter().map(|(t, rs)| format!("({}, {})", t, coq_rows(rs))).collect();
        let cix: Vec<String> = self.cix.iter().map(|(i, t)| format!("({}, {})", i, t)).collect();
        let uix: Vec<String> = self
            .uix
            .iter()
            .map(|(i, t, c, d)| {
                let es: Vec<String> = d
                    .iter()
                    .map(|(k, ids)| {
                        format!(
                            "({}, [{}])",
                            match k {
                                Some(z) => format!("Some {}", vh::val::zlit(*z as i128)),
                                None => "None".into(),
                            },
                            ids.iter().map(|x| format!("{}%nat", x)).collect::<Vec<_>>().join(";")
                        )
                    })
                    .collect();
                format!("({}, {}, {}%nat, [{}])", i, t, c, es.join(";"))
            })
            .collect();
        let q: Vec<String> = self
            .q
            .iter()
            .map(|a| match a {
                Some(rs) => format!("Some {}", coq_rows(rs)),
                None => "None".into(),
            })
            .collect();
        format!("(mkSnap [{}] [{}] [{}] [{}])", tabs.join(";"), cix.join(";"), uix.join(";"), q.join(";"))
    }
    pub fn json(&self) -> Value {
        json!({"tables": self.tabs.iter().map(|(t, r)| json!({"table": tname(*t), "rows": r.iter().map(|x| format!("{:?}", x)).collect::<Vec<_>>()})).collect::<Vec<_>>(),
               "catalog_indexes": self.cix, "storage_indexes": self.uix.iter().map(|(i,t,c,d)| json!({"index": format!("IX{}", i), "table": tname(*t), "col": c, "entries": format!("{:?}", d)})).collect::<Vec<_>>()})
    }
}

/// one executed statement of a history
pub struct Item {
    pub op: Op,
    pub code: i64,
    pub snap: Option<Snapshot>,
}

pub fn coq_history(id: u64, items: &[Item]) -> String {
    let its: Vec<String> = items
        .iter()
        .map(|it| {
            format!(
                "({}, {}, {})",
                it.op.coq(),
                vh::val::zlit(it.code as i128),
                match &it.snap {
                    Some(s) => format!("Some {}", s.coq()),
                    None => "None".into(),
                }
            )
        })
        .collect();
    format!("({}, [\n  {}])", id, its.join(";\n  "))
}

pub const SHARD_HEADER: &str = "From Coq Require Import List ZArith.\nImport ListNotations.\nOpen Scope Z_scope.\nFrom VibeSQL Require Import Value.SqlValue Store.Txn Store.Savepoint Store.TxnObs";

// -------------------------------------------------------------------- generators

pub const STRS_V: [&str; 7] = ["", "x", "ab", "abcd", "abcde", "é", "abcé"]; // the last one is cut to "abc" by the table (boundary below byte 4)
pub const STRS_C: [&str; 7] = ["", "a", "ab", "abc", "abcd", "é", "abé"];

pub fn gen_int(r: &mut Rng) -> Lit {
    if r.chance(1, 8) {
        Lit::Null
    } else {
        Lit::Int(r.range(1, 4))
    }
}

/// one literal row for table `t`; `plain` rows only use values the normaliser leaves alone
pub fn gen_lit_row(r: &mut Rng, t: i64, g: &mut i64, plain: bool) -> Vec<Lit> {
    if r.chance(1, 4) {
        // a row from a small fixed family: identical rows (duplicates in every column) are frequent, so
        // that "remove the FIRST row equal to the recorded one" is distinguishable from other choices
        let k = *g / 6;
        let mut row = vec![Lit::Int(1000 + k), Lit::Int(k % 4 + 1), Lit::Int((k / 2) % 4 + 1)];
        if t == 0 {
            row.push(Lit::Str("x".into()));
            row.push(Lit::Str("abc".into()));
        }
        return row;
    }
    *g += 1;
    let mut row = vec![Lit::Int(*g), gen_int(r), gen_int(r)];
    if t == 0 {
        if plain {
            row.push(if r.chance(1, 6) { Lit::Null } else { Lit::Str((*r.pick(&["", "x", "ab", "abcd"])).to_string()) });
            row.push(if r.chance(1, 6) { Lit::Null } else { Lit::Str((*r.pick(&["", "a", "ab", "abc", "abcd"])).to_string()) });
        } else {
            row.push(if r.chance(1, 8) { Lit::Null } else { Lit::Str((*r.pick(&STRS_V)).to_string()) });
            row.push(if r.chance(1, 8) { Lit::Null } else { Lit::Str((*r.pick(&STRS_C)).to_string()) });
        }
    }
    row
}

/// rows handed directly to the storage API: mostly well-formed, sometimes un-normalised
/// (CHAR value not padded, over-long VARCHAR), rarely ill-typed or of the wrong width
pub fn gen_api_row(r: &mut Rng, t: i64, g: &mut i64) -> Vec<SqlValue> {
    *g += 1;
    let int = |r: &mut Rng| if r.chance(1, 8) { SqlValue::Null } else { SqlValue::Integer(r.range(1, 4)) };
    let mut row = vec![SqlValue::Integer(*g), int(r), int(r)];
    if t == 0 {
        row.push(match r.below(6) {
            0 => SqlValue::Null,
            1 => SqlValue::Varchar("abcdef".into()),
            2 => SqlValue::Integer(7),
            _ => SqlValue::Varchar((*r.pick(&["", "x", "abcd"])).to_string()),
        });
        row.push(match r.below(7) {
            0 => SqlValue::Null,
            1 => SqlValue::Character("ab".into()),
            2 => SqlValue::Character("abcd".into()),
            3 => SqlValue::Varchar("abc".into()),
            _ => SqlValue::Character((*r.pick(&["abc", "xyz", "a  "])).to_string()),
        });
    }
    if r.chance(1, 25) {
        row.pop();
    }
    row
}

pub fn gen_wc(r: &mut Rng) -> Wc {
    if r.chance(1, 6) {
        None
    } else {
        Some((r.range(1, 2) as usize, r.range(1, 4)))
    }
}

pub fn gen_table(r: &mut Rng) -> i64 {
    if r.chance(1, 40) {
        9
    } else if r.chance(2, 3) {
        0
    } else {
        1
    }
}

pub fn gen_insert(r: &mut Rng, g: &mut i64, plain: bool) -> Op {
    let t = gen_table(r);
    let tt = if t == 9 { 1 } else { t };
    let n = match r.below(6) {
        0 | 1 | 2 => 1,
        3 | 4 => 2,
        _ => 3,
    };
    let mut rows: Vec<Vec<Lit>> = (0..n).map(|_| gen_lit_row(r, tt, g, plain)).collect();
    if !plain && r.chance(1, 30) {
        // a row of the wrong width or with an ill-typed literal
        let k = r.below(rows.len() as u64) as usize;
        if r.chance(1, 2) {
            rows[k].pop();
        } else {
            rows[k][1] = Lit::Str("x".into());
        }
    }
    Op::Insert(t, rows)
}

pub fn gen_update(r: &mut Rng) -> Op {
    let t = gen_table(r);
    let c = if r.chance(1, 40) { 7 } else { r.range(1, 2) as usize };
    Op::Update(t, c, r.range(1, 4), gen_wc(r))
}

pub fn gen_delete(r: &mut Rng) -> Op {
    Op::Delete(gen_table(r), gen_wc(r))
}

pub fn gen_create_index(r: &mut Rng) -> Op {
    let i = r.below(INDEXES.len() as u64) as usize;
    let (t, c) = INDEXES[i];
    if r.chance(1, 30) {
        Op::CreateIndex(i as i64, 9, c)
    } else if r.chance(1, 30) {
        Op::CreateIndex(i as i64, t, 7)
    } else {
        Op::CreateIndex(i as i64, t, c)
    }
}

pub fn gen_drop_index(r: &mut Rng) -> Op {
    Op::DropIndex(r.below(INDEXES.len() as u64 + 1) as i64)
}

/// does the table store this literal row differently from what `insert_row` records?  (harness-side
/// classifier only)  VARCHAR(4) values longer than 4 bytes are cut by the table after the change was
/// recorded; CHAR(3) literals are brought to exactly 3 characters by `coerce_value` already
pub fn lit_row_normalised(t: i64, row: &[Lit]) -> bool {
    if t != 0 || row.len() != 5 {
        return false;
    }
    matches!(&row[3], Lit::Str(s) if s.len() > 4)
}

pub fn api_row_normalised(t: i64, row: &[SqlValue]) -> bool {
    if t != 0 || row.len() != 5 {
        return false;
    }
    let v_long = matches!(&row[3], SqlValue::Varchar(s) if s.len() > 4);
    let c_odd = matches!(&row[4], SqlValue::Character(s) if s.chars().count() != 3);
    v_long || c_odd
}

pub fn matches_wc(row: &[SqlValue], w: &Wc) -> bool {
    match w {
        None => true,
        Some((c, k)) => matches!(row.get(*c), Some(SqlValue::Integer(z)) if z == k),
    }
}
