//! Query AST mirroring coq/theories/Sem/Syntax.v, with a typed random generator, a printer to
//! vibesql SQL text and a printer to Gallina terms.  Shared by the reference-semantics properties.
use crate::rng::Rng;

#[derive(Clone, Debug, PartialEq)]
pub enum Val {
    Null,
    Int(i64),
    Str(String),
    Bool(bool),
}

#[derive(Clone, Copy, Debug, PartialEq, Eq)]
pub enum Ty {
    Int,
    Str,
    Bool,
}

#[derive(Clone, Copy, Debug, PartialEq, Eq)]
pub enum BinOp {
    Add,
    Sub,
    Mul,
    Eq,
    Ne,
    Lt,
    Le,
    Gt,
    Ge,
    And,
    Or,
}

#[derive(Clone, Copy, Debug, PartialEq, Eq)]
pub enum AggFn {
    CountStar,
    Count,
    Sum,
    Min,
    Max,
}

#[derive(Clone, Copy, Debug, PartialEq, Eq)]
pub enum SetOp {
    Union,
    Intersect,
    Except,
}

#[derive(Clone, Copy, Debug, PartialEq, Eq)]
pub enum JoinKind {
    Inner,
    Left,
}

#[derive(Clone, Debug)]
pub enum Expr {
    Col(usize, usize),
    Const(Val),
    Bin(BinOp, Box<Expr>, Box<Expr>),
    Not(Box<Expr>),
    IsNull(Box<Expr>, bool),
    Between(Box<Expr>, Box<Expr>, Box<Expr>, bool),
    InList(Box<Expr>, Vec<Expr>, bool),
    Case(Vec<(Expr, Expr)>, Option<Box<Expr>>),
    Coalesce(Vec<Expr>),
    Scalar(Box<Query>),
    InSub(Box<Expr>, Box<Query>, bool),
    Exists(Box<Query>, bool),
}

#[derive(Clone, Debug)]
pub struct Select {
    pub distinct: bool,
    pub from: Vec<From>,
    pub where_: Option<Expr>,
    pub grouping: Option<(Vec<Expr>, Vec<(AggFn, bool, Expr)>)>,
    pub having: Option<Expr>,
    pub proj: Vec<Expr>,
    pub order: Vec<(usize, bool)>,
    pub limit: Option<usize>,
    pub offset: Option<usize>,
}

#[derive(Clone, Debug)]
pub enum Query {
    Select(Select),
    SetOp(SetOp, bool, Box<Query>, Box<Query>),
}

#[derive(Clone, Debug)]
pub enum From {
    Table(usize, usize),
    Sub(Box<Query>, usize),
    Join(JoinKind, Box<From>, Box<From>, Expr),
    /// reference to view / CTE number i (named v<i> in SQL) of the given width
    View(usize, usize),
}

impl From {
    pub fn width(&self) -> usize {
        match self {
            From::Table(_, w) | From::Sub(_, w) | From::View(_, w) => *w,
            From::Join(_, l, r, _) => l.width() + r.width(),
        }
    }
}

// ---------------------------------------------------------------------------------------------
// schema + data
// ---------------------------------------------------------------------------------------------

#[derive(Clone, Debug)]
pub struct TableDef {
    pub cols: Vec<Ty>,
    pub rows: Vec<Vec<Val>>,
}

#[derive(Clone, Debug)]
pub struct DbDef {
    pub tables: Vec<TableDef>,
}

pub const INT_POOL: &[i64] = &[0, 1, 2, 3, 5, 7, 10, -1, -2, 100];
pub const STR_POOL: &[&str] = &["a", "b", "ab", "", "A", "ba", "c"];

pub fn gen_val(r: &mut Rng, ty: Ty, null_pct: u64) -> Val {
    if r.below(100) < null_pct {
        return Val::Null;
    }
    match ty {
        Ty::Int => Val::Int(*r.pick(INT_POOL)),
        Ty::Str => Val::Str(r.pick(STR_POOL).to_string()),
        Ty::Bool => Val::Bool(r.chance(1, 2)),
    }
}

pub fn gen_db(r: &mut Rng, max_tables: usize, max_rows: usize) -> DbDef {
    let nt = 1 + r.below(max_tables as u64) as usize;
    let mut tables = Vec::new();
    for _ in 0..nt {
        let nc = 1 + r.below(3) as usize;
        let cols: Vec<Ty> = (0..nc).map(|i| if i == 0 || r.chance(2, 3) { Ty::Int } else { Ty::Str }).collect();
        let nrows = match r.below(10) {
            0 => 0,
            1 => 1,
            2 => 2,
            _ => r.below(max_rows as u64 + 1) as usize,
        };
        let null_pct = *r.pick(&[0u64, 0, 0, 15, 15, 30, 30, 50, 100]);
        let rows = (0..nrows).map(|_| cols.iter().map(|t| gen_val(r, *t, null_pct)).collect()).collect();
        tables.push(TableDef { cols, rows });
    }
    DbDef { tables }
}

/// Like gen_db but every table has between `min_rows` and `max_rows` rows.
pub fn gen_db_sized(r: &mut Rng, max_tables: usize, min_rows: usize, max_rows: usize) -> DbDef {
    let mut d = gen_db(r, max_tables, 0);
    for t in d.tables.iter_mut() {
        let n = min_rows + r.below((max_rows - min_rows + 1) as u64) as usize;
        let null_pct = *r.pick(&[0u64, 10, 25]);
        t.rows = (0..n).map(|_| t.cols.iter().map(|c| gen_val(r, *c, null_pct)).collect()).collect();
    }
    d
}

pub fn sql_lit(v: &Val) -> String {
    match v {
        Val::Null => "NULL".into(),
        Val::Int(i) => format!("{}", i),
        Val::Str(s) => format!("'{}'", s.replace('\'', "''")),
        Val::Bool(b) => (if *b { "TRUE" } else { "FALSE" }).into(),
    }
}

pub fn coq_val(v: &Val) -> String {
    match v {
        Val::Null => "VNull".into(),
        Val::Int(i) => {
            if *i < 0 {
                format!("(VInt ({}))", i)
            } else {
                format!("(VInt {})", i)
            }
        }
        Val::Str(s) => format!("(VStr [{}])", s.as_bytes().iter().map(|b| b.to_string()).collect::<Vec<_>>().join(";")),
        Val::Bool(b) => format!("(VBool {})", b),
    }
}

pub fn coq_rows(rows: &[Vec<Val>]) -> String {
    format!("[{}]", rows.iter().map(|r| format!("[{}]", r.iter().map(coq_val).collect::<Vec<_>>().join(";"))).collect::<Vec<_>>().join(";"))
}

pub fn coq_db(d: &DbDef) -> String {
    format!("[{}]", d.tables.iter().map(|t| coq_rows(&t.rows)).collect::<Vec<_>>().join(";\n"))
}

pub fn ty_sql(t: Ty) -> &'static str {
    match t {
        Ty::Int => "INTEGER",
        Ty::Str => "VARCHAR(20)",
        Ty::Bool => "BOOLEAN",
    }
}

/// CREATE TABLE statements for a DbDef (tables are named tab0, tab1, ... with columns c0, c1, ...).
pub fn create_sql(d: &DbDef) -> Vec<String> {
    d.tables
        .iter()
        .enumerate()
        .map(|(i, t)| {
            format!(
                "CREATE TABLE tab{} ({})",
                i,
                t.cols.iter().enumerate().map(|(j, c)| format!("c{} {}", j, ty_sql(*c))).collect::<Vec<_>>().join(", ")
            )
        })
        .collect()
}

// ---------------------------------------------------------------------------------------------
// printers
// ---------------------------------------------------------------------------------------------

pub struct SqlPrinter {
    next_alias: usize,
    /// how the outermost ORDER BY is written: 0 = positions, 1 = select-list aliases, 2 = the
    /// select-list expressions repeated
    pub order_style: u8,
    depth: usize,
    /// print a single base table without an alias and its columns by bare name (only set for
    /// single-table queries without subqueries: some planner shortcuts recognise only that form)
    pub bare: bool,
}

fn binop_sql(op: BinOp) -> &'static str {
    match op {
        BinOp::Add => "+",
        BinOp::Sub => "-",
        BinOp::Mul => "*",
        BinOp::Eq => "=",
        BinOp::Ne => "<>",
        BinOp::Lt => "<",
        BinOp::Le => "<=",
        BinOp::Gt => ">",
        BinOp::Ge => ">=",
        BinOp::And => "AND",
        BinOp::Or => "OR",
    }
}

fn agg_sql(f: AggFn, distinct: bool, arg: &str) -> String {
    let d = if distinct { "DISTINCT " } else { "" };
    match f {
        AggFn::CountStar => "COUNT(*)".into(),
        AggFn::Count => format!("COUNT({}{})", d, arg),
        AggFn::Sum => format!("SUM({}{})", d, arg),
        AggFn::Min => format!("MIN({}{})", d, arg),
        AggFn::Max => format!("MAX({}{})", d, arg),
    }
}

impl SqlPrinter {
    pub fn new() -> SqlPrinter {
        SqlPrinter { next_alias: 0, order_style: 0, depth: 0, bare: false }
    }

    fn alias(&mut self) -> String {
        self.next_alias += 1;
        format!("x{}", self.next_alias)
    }

    /// scopes[d][i] is the SQL text that denotes column i of the row d levels out.
    pub fn expr(&mut self, e: &Expr, scopes: &[Vec<String>]) -> String {
        match e {
            Expr::Col(d, i) => scopes[*d][*i].clone(),
            Expr::Const(v) => match v {
                Val::Int(i) if *i < 0 => format!("({})", i),
                _ => sql_lit(v),
            },
            Expr::Bin(op, a, b) => format!("({} {} {})", self.expr(a, scopes), binop_sql(*op), self.expr(b, scopes)),
            Expr::Not(a) => format!("(NOT {})", self.expr(a, scopes)),
            Expr::IsNull(a, neg) => format!("({} IS {}NULL)", self.expr(a, scopes), if *neg { "NOT " } else { "" }),
            Expr::Between(a, lo, hi, neg) => format!(
                "({} {}BETWEEN {} AND {})",
                self.expr(a, scopes),
                if *neg { "NOT " } else { "" },
                self.expr(lo, scopes),
                self.expr(hi, scopes)
            ),
            Expr::InList(a, l, neg) => format!(
                "({} {}IN ({}))",
                self.expr(a, scopes),
                if *neg { "NOT " } else { "" },
                l.iter().map(|x| self.expr(x, scopes)).collect::<Vec<_>>().join(", ")
            ),
            Expr::Case(ws, els) => {
                let mut s = String::from("(CASE");
                for (c, t) in ws {
                    s.push_str(&format!(" WHEN {} THEN {}", self.expr(c, scopes), self.expr(t, scopes)));
                }
                if let Some(e) = els {
                    s.push_str(&format!(" ELSE {}", self.expr(e, scopes)));
                }
                s.push_str(" END)");
                s
            }
            Expr::Coalesce(l) => format!("COALESCE({})", l.iter().map(|x| self.expr(x, scopes)).collect::<Vec<_>>().join(", ")),
            Expr::Scalar(q) => format!("({})", self.query(q, scopes, false)),
            Expr::InSub(a, q, neg) => format!("({} {}IN ({}))", self.expr(a, scopes), if *neg { "NOT " } else { "" }, self.query(q, scopes, false)),
            Expr::Exists(q, neg) => format!("({}EXISTS ({}))", if *neg { "NOT " } else { "" }, self.query(q, scopes, false)),
        }
    }

    /// Returns (sql text of the from item, column texts of its row).
    pub fn from_item(&mut self, f: &From, outer: &[Vec<String>]) -> (String, Vec<String>) {
        match f {
            From::Table(n, w) if self.bare => (format!("tab{}", n), (0..*w).map(|i| format!("c{}", i)).collect()),
            From::Table(n, w) => {
                let a = self.alias();
                (format!("tab{} {}", n, a), (0..*w).map(|i| format!("{}.c{}", a, i)).collect())
            }
            From::View(n, w) => {
                let a = self.alias();
                (format!("v{} {}", n, a), (0..*w).map(|i| format!("{}.c{}", a, i)).collect())
            }
            From::Sub(q, w) => {
                let a = self.alias();
                let inner = self.query(q, outer, true);
                (format!("({}) {}", inner, a), (0..*w).map(|i| format!("{}.c{}", a, i)).collect())
            }
            From::Join(k, l, r, on) => {
                let (ls, lc) = self.from_item(l, outer);
                let (rs, rc) = self.from_item(r, outer);
                let mut cols = lc;
                cols.extend(rc);
                let mut scopes = vec![cols.clone()];
                scopes.extend_from_slice(outer);
                let on_s = self.expr(on, &scopes);
                let kw = match k {
                    JoinKind::Inner => "JOIN",
                    JoinKind::Left => "LEFT JOIN",
                };
                (format!("{} {} {} ON {}", ls, kw, rs, on_s), cols)
            }
        }
    }

    /// `name_cols`: alias the select list as c0, c1, ... (needed for derived tables and set operations).
    pub fn query(&mut self, q: &Query, outer: &[Vec<String>], name_cols: bool) -> String {
        match q {
            Query::SetOp(op, all, l, r) => {
                let kw = match op {
                    SetOp::Union => "UNION",
                    SetOp::Intersect => "INTERSECT",
                    SetOp::Except => "EXCEPT",
                };
                format!("{} {}{} {}", self.query(l, outer, name_cols), kw, if *all { " ALL" } else { "" }, self.query(r, outer, name_cols))
            }
            Query::Select(s) => {
                let top = self.depth == 0;
                self.depth += 1;
                // ORDER BY <alias>: the aliases are named k0, k1, ... so that they do not shadow the
                // base tables' column names c0, c1, ...
                let order_alias = top && self.order_style == 1 && !s.order.is_empty() && !name_cols;
                let mut from_texts = Vec::new();
                let mut cols = Vec::new();
                for f in &s.from {
                    let (t, c) = self.from_item(f, outer);
                    from_texts.push(t);
                    cols.extend(c);
                }
                let mut scopes = vec![cols];
                scopes.extend_from_slice(outer);
                let where_s = s.where_.as_ref().map(|w| self.expr(w, &scopes));
                let mut group_s = None;
                let out_scopes: Vec<Vec<String>> = if let Some((keys, aggs)) = &s.grouping {
                    let key_texts: Vec<String> = keys.iter().map(|k| self.expr(k, &scopes)).collect();
                    let agg_texts: Vec<String> = aggs
                        .iter()
                        .map(|(f, d, a)| {
                            let at = self.expr(a, &scopes);
                            agg_sql(*f, *d, &at)
                        })
                        .collect();
                    if !key_texts.is_empty() {
                        group_s = Some(key_texts.join(", "));
                    }
                    let mut row = key_texts;
                    row.extend(agg_texts);
                    let mut sc = vec![row];
                    sc.extend_from_slice(outer);
                    sc
                } else {
                    scopes.clone()
                };
                let having_s = s.having.as_ref().map(|h| self.expr(h, &out_scopes));
                let proj_texts: Vec<String> = s.proj.iter().map(|p| self.expr(p, &out_scopes)).collect();
                let proj_s: Vec<String> = proj_texts
                    .iter()
                    .enumerate()
                    .map(|(i, t)| if name_cols { format!("{} AS c{}", t, i) } else if order_alias { format!("{} AS k{}", t, i) } else { t.clone() })
                    .collect();
                let mut sql = format!("SELECT {}{} FROM {}", if s.distinct { "DISTINCT " } else { "" }, proj_s.join(", "), from_texts.join(", "));
                if let Some(w) = where_s {
                    sql.push_str(&format!(" WHERE {}", w));
                }
                if let Some(g) = group_s {
                    sql.push_str(&format!(" GROUP BY {}", g));
                }
                if let Some(h) = having_s {
                    sql.push_str(&format!(" HAVING {}", h));
                }
                if !s.order.is_empty() {
                    let style = if top { self.order_style } else { 0 };
                    sql.push_str(&format!(
                        " ORDER BY {}",
                        s.order
                            .iter()
                            .map(|(i, d)| {
                                let key = match style {
                                    1 => format!("{}{}", if order_alias { "k" } else { "c" }, i),
                                    // a bare integer would be read as a position
                                    2 if proj_texts[*i].trim_matches(|c| c == '(' || c == ')').parse::<i64>().is_err() => proj_texts[*i].clone(),
                                    _ => format!("{}", i + 1),
                                };
                                format!("{}{}", key, if *d { " DESC" } else { "" })
                            })
                            .collect::<Vec<_>>()
                            .join(", ")
                    ));
                }
                self.depth -= 1;
                if let Some(n) = s.limit {
                    sql.push_str(&format!(" LIMIT {}", n));
                }
                if let Some(m) = s.offset {
                    sql.push_str(&format!(" OFFSET {}", m));
                }
                sql
            }
        }
    }
}

/// A top-level SELECT over exactly one base table with no subquery anywhere: it may be printed the
/// plain way (no alias, bare column names).  Which of those queries are is decided by a hash of the
/// query itself, so that the choice is reproducible.
pub fn prints_bare(q: &Query) -> bool {
    match q {
        Query::Select(s) if s.from.len() == 1 && matches!(s.from[0], From::Table(..)) => {
            let mut feats = Vec::new();
            features(q, &mut feats);
            let simple = !feats.iter().any(|f| f.contains("subquery") || f.contains("exists") || f.contains("in-sub") || f.contains("scalar"));
            simple && crate::out::fxhash(format!("{:?}", q).as_bytes()) % 2 == 0
        }
        _ => false,
    }
}

pub fn to_sql(q: &Query) -> String {
    let mut p = SqlPrinter::new();
    p.bare = prints_bare(q);
    p.query(q, &[], false)
}

/// The query printed so that it can be a view / CTE body: its select list is aliased c0, c1, ...
pub fn to_sql_named(q: &Query) -> String {
    SqlPrinter::new().query(q, &[], true)
}

/// Same query with the outermost ORDER BY written as positions (0), aliases (1) or expressions (2).
pub fn to_sql_styled(q: &Query, order_style: u8) -> String {
    let mut p = SqlPrinter::new();
    p.order_style = order_style;
    p.bare = prints_bare(q);
    p.query(q, &[], false)
}

fn coq_bool(b: bool) -> &'static str {
    if b {
        "true"
    } else {
        "false"
    }
}

fn coq_opt<T>(o: &Option<T>, f: impl Fn(&T) -> String) -> String {
    match o {
        None => "None".into(),
        Some(x) => format!("(Some {})", f(x)),
    }
}

fn coq_list<T>(l: &[T], f: impl Fn(&T) -> String) -> String {
    format!("[{}]", l.iter().map(f).collect::<Vec<_>>().join("; "))
}

pub fn coq_expr(e: &Expr) -> String {
    match e {
        Expr::Col(d, i) => format!("(ECol {} {})", d, i),
        Expr::Const(v) => format!("(EConst {})", coq_val(v)),
        Expr::Bin(op, a, b) => format!("(EBin O{:?} {} {})", op, coq_expr(a), coq_expr(b)),
        Expr::Not(a) => format!("(ENot {})", coq_expr(a)),
        Expr::IsNull(a, n) => format!("(EIsNull {} {})", coq_expr(a), coq_bool(*n)),
        Expr::Between(a, lo, hi, n) => format!("(EBetween {} {} {} {})", coq_expr(a), coq_expr(lo), coq_expr(hi), coq_bool(*n)),
        Expr::InList(a, l, n) => format!("(EInList {} {} {})", coq_expr(a), coq_list(l, coq_expr), coq_bool(*n)),
        Expr::Case(ws, els) => format!(
            "(ECase {} {})",
            coq_list(ws, |(c, t)| format!("({}, {})", coq_expr(c), coq_expr(t))),
            coq_opt(els, |e| coq_expr(e))
        ),
        Expr::Coalesce(l) => format!("(ECoalesce {})", coq_list(l, coq_expr)),
        Expr::Scalar(q) => format!("(EScalar {})", coq_query(q)),
        Expr::InSub(a, q, n) => format!("(EInSub {} {} {})", coq_expr(a), coq_query(q), coq_bool(*n)),
        Expr::Exists(q, n) => format!("(EExists {} {})", coq_query(q), coq_bool(*n)),
    }
}

pub fn coq_from(f: &From) -> String {
    match f {
        From::Table(n, w) => format!("(FTable {} {})", n, w),
        From::View(n, w) => format!("(FView {} {})", n, w),
        From::Sub(q, w) => format!("(FSub {} {})", coq_query(q), w),
        From::Join(k, l, r, on) => format!(
            "(FJoin {} {} {} {})",
            match k {
                JoinKind::Inner => "JInner",
                JoinKind::Left => "JLeft",
            },
            coq_from(l),
            coq_from(r),
            coq_expr(on)
        ),
    }
}

pub fn coq_query(q: &Query) -> String {
    match q {
        Query::SetOp(op, all, l, r) => format!("(QSetOp S{:?} {} {} {})", op, coq_bool(*all), coq_query(l), coq_query(r)),
        Query::Select(s) => format!(
            "(QSelect {} {} {} {} {} {} {} {} {})",
            coq_bool(s.distinct),
            coq_list(&s.from, coq_from),
            coq_opt(&s.where_, coq_expr),
            coq_opt(&s.grouping, |(k, a)| format!(
                "({}, {})",
                coq_list(k, coq_expr),
                coq_list(a, |(f, d, e)| format!("(A{:?}, {}, {})", f, coq_bool(*d), coq_expr(e)))
            )),
            coq_opt(&s.having, coq_expr),
            coq_list(&s.proj, coq_expr),
            coq_list(&s.order, |(i, d)| format!("({}%nat, {})", i, coq_bool(*d))),
            coq_opt(&s.limit, |n| format!("{}%nat", n)),
            coq_opt(&s.offset, |n| format!("{}%nat", n)),
        ),
    }
}

// ---------------------------------------------------------------------------------------------
// generator
// ---------------------------------------------------------------------------------------------

#[derive(Clone)]
pub struct GenCfg {
    pub subqueries: bool,
    pub joins: bool,
    pub setops: bool,
    pub grouping: bool,
    pub order: bool,
    pub limit: bool,
    pub distinct: bool,
    pub left_join: bool,
    pub max_from: usize,
}

impl Default for GenCfg {
    fn default() -> Self {
        GenCfg { subqueries: true, joins: true, setops: true, grouping: true, order: true, limit: true, distinct: true, left_join: true, max_from: 2 }
    }
}

pub struct Gen<'a> {
    pub r: &'a mut Rng,
    pub db: &'a DbDef,
    pub cfg: GenCfg,
}

impl<'a> Gen<'a> {
    fn cols_of(&self, scopes: &[Vec<Ty>], d: usize, ty: Ty) -> Vec<usize> {
        scopes.get(d).map(|s| s.iter().enumerate().filter(|(_, t)| **t == ty).map(|(i, _)| i).collect()).unwrap_or_default()
    }

    pub fn constant(&mut self, ty: Ty) -> Expr {
        Expr::Const(gen_val(self.r, ty, 8))
    }

    /// A column of the wanted type, preferring the innermost scope; None when there is none.
    pub fn column(&mut self, ty: Ty, scopes: &[Vec<Ty>]) -> Option<Expr> {
        let d = if scopes.len() > 1 && self.r.chance(1, 3) { 1 } else { 0 };
        for dd in [d, 0, 1] {
            let c = self.cols_of(scopes, dd, ty);
            if !c.is_empty() {
                return Some(Expr::Col(dd, *self.r.pick(&c)));
            }
        }
        None
    }

    pub fn expr(&mut self, ty: Ty, scopes: &[Vec<Ty>], depth: usize) -> Expr {
        let leaf = depth == 0 || self.r.chance(1, 3);
        if leaf {
            if ty != Ty::Bool && self.r.chance(3, 4) {
                if let Some(c) = self.column(ty, scopes) {
                    return c;
                }
            }
            if ty == Ty::Bool {
                // smallest boolean: a comparison of leaves
                let t = if self.r.chance(3, 4) { Ty::Int } else { Ty::Str };
                let a = self.expr(t, scopes, 0);
                let b = self.expr(t, scopes, 0);
                let op = *self.r.pick(&[BinOp::Eq, BinOp::Ne, BinOp::Lt, BinOp::Le, BinOp::Gt, BinOp::Ge]);
                return Expr::Bin(op, Box::new(a), Box::new(b));
            }
            return self.constant(ty);
        }
        let d = depth - 1;
        match ty {
            Ty::Int => match self.r.below(10) {
                0..=3 => {
                    let op = *self.r.pick(&[BinOp::Add, BinOp::Sub, BinOp::Mul]);
                    Expr::Bin(op, Box::new(self.expr(Ty::Int, scopes, d.min(1))), Box::new(self.expr(Ty::Int, scopes, 0)))
                }
                4..=5 => self.case(Ty::Int, scopes, d),
                6..=7 => Expr::Coalesce((0..2 + self.r.below(2)).map(|_| self.expr(Ty::Int, scopes, d.min(1))).collect()),
                8 if self.cfg.subqueries => self.scalar_sub(Ty::Int, scopes, d),
                _ => self.expr(Ty::Int, scopes, 0),
            },
            Ty::Str => match self.r.below(6) {
                0..=1 => self.case(Ty::Str, scopes, d),
                2 => Expr::Coalesce((0..2).map(|_| self.expr(Ty::Str, scopes, 0)).collect()),
                3 if self.cfg.subqueries => self.scalar_sub(Ty::Str, scopes, d),
                _ => self.expr(Ty::Str, scopes, 0),
            },
            Ty::Bool => match self.r.below(14) {
                0..=3 => {
                    let t = if self.r.chance(3, 4) { Ty::Int } else { Ty::Str };
                    let op = *self.r.pick(&[BinOp::Eq, BinOp::Ne, BinOp::Lt, BinOp::Le, BinOp::Gt, BinOp::Ge]);
                    Expr::Bin(op, Box::new(self.expr(t, scopes, d.min(1))), Box::new(self.expr(t, scopes, d.min(1))))
                }
                4..=5 => {
                    let op = if self.r.chance(1, 2) { BinOp::And } else { BinOp::Or };
                    Expr::Bin(op, Box::new(self.expr(Ty::Bool, scopes, d)), Box::new(self.expr(Ty::Bool, scopes, d)))
                }
                6 => Expr::Not(Box::new(self.expr(Ty::Bool, scopes, d))),
                7 => {
                    let t = if self.r.chance(3, 4) { Ty::Int } else { Ty::Str };
                    Expr::IsNull(Box::new(self.expr(t, scopes, d.min(1))), self.r.chance(1, 2))
                }
                8 => Expr::Between(
                    Box::new(self.expr(Ty::Int, scopes, 0)),
                    Box::new(self.expr(Ty::Int, scopes, 0)),
                    Box::new(self.expr(Ty::Int, scopes, 0)),
                    self.r.chance(1, 4),
                ),
                9 => {
                    let t = if self.r.chance(3, 4) { Ty::Int } else { Ty::Str };
                    let n = 1 + self.r.below(3);
                    // NULL list elements matter (x NOT IN (.., NULL) is never TRUE): one element in five is NULL
                    let items = (0..n).map(|_| if self.r.chance(1, 5) { Expr::Const(Val::Null) } else { self.constant(t) }).collect();
                    Expr::InList(Box::new(self.expr(t, scopes, 0)), items, self.r.chance(2, 5))
                }
                10 if self.cfg.subqueries => {
                    let t = if self.r.chance(3, 4) { Ty::Int } else { Ty::Str };
                    let a = self.expr(t, scopes, 0);
                    let q = self.sub_select(vec![t], scopes, d, false);
                    Expr::InSub(Box::new(a), Box::new(q), self.r.chance(1, 3))
                }
                11 if self.cfg.subqueries => {
                    let q = self.sub_select(vec![Ty::Int], scopes, d, false);
                    Expr::Exists(Box::new(q), self.r.chance(1, 3))
                }
                12 => Expr::IsNull(Box::new(self.expr(Ty::Bool, scopes, d.min(1))), self.r.chance(1, 2)),
                _ => self.expr(Ty::Bool, scopes, 0),
            },
        }
    }

    pub fn case(&mut self, ty: Ty, scopes: &[Vec<Ty>], d: usize) -> Expr {
        let n = 1 + self.r.below(2);
        let ws = (0..n).map(|_| (self.expr(Ty::Bool, scopes, d.min(1)), self.expr(ty, scopes, d.min(1)))).collect();
        let els = if self.r.chance(2, 3) { Some(Box::new(self.expr(ty, scopes, 0))) } else { None };
        Expr::Case(ws, els)
    }

    /// A scalar subquery guaranteed to return exactly one row: an aggregate query without GROUP BY.
    pub fn scalar_sub(&mut self, ty: Ty, outer: &[Vec<Ty>], d: usize) -> Expr {
        let (from, types) = self.from_list(outer, d, 1);
        let mut scopes = vec![types];
        scopes.extend_from_slice(outer);
        let where_ = if self.r.chance(2, 3) { Some(self.expr(Ty::Bool, &scopes, d.min(1))) } else { None };
        let (f, arg) = match ty {
            Ty::Int => match self.r.below(4) {
                0 => (AggFn::CountStar, Expr::Const(Val::Int(1))),
                1 => (AggFn::Count, self.expr(Ty::Int, &scopes, 0)),
                2 => (AggFn::Sum, self.expr(Ty::Int, &scopes, 0)),
                _ => (if self.r.chance(1, 2) { AggFn::Min } else { AggFn::Max }, self.expr(Ty::Int, &scopes, 0)),
            },
            _ => (if self.r.chance(1, 2) { AggFn::Min } else { AggFn::Max }, self.expr(Ty::Str, &scopes, 0)),
        };
        Expr::Scalar(Box::new(Query::Select(Select {
            distinct: false,
            from,
            where_,
            grouping: Some((vec![], vec![(f, false, arg)])),
            having: None,
            proj: vec![Expr::Col(0, 0)],
            order: vec![],
            limit: None,
            offset: None,
        })))
    }

    pub fn from_list(&mut self, outer: &[Vec<Ty>], d: usize, max: usize) -> (Vec<From>, Vec<Ty>) {
        let n = 1 + self.r.below(max as u64) as usize;
        let mut items = Vec::new();
        let mut types = Vec::new();
        for _ in 0..n {
            let (f, t) = self.from_item(outer, d);
            items.push(f);
            types.extend(t);
        }
        (items, types)
    }

    pub fn base_table(&mut self) -> (From, Vec<Ty>) {
        let n = self.r.below(self.db.tables.len() as u64) as usize;
        let cols = self.db.tables[n].cols.clone();
        (From::Table(n, cols.len()), cols)
    }

    pub fn from_item(&mut self, outer: &[Vec<Ty>], d: usize) -> (From, Vec<Ty>) {
        match self.r.below(10) {
            0..=1 if self.cfg.subqueries && d > 0 => {
                let nt = 1 + self.r.below(2) as usize;
                let tys: Vec<Ty> = (0..nt).map(|_| if self.r.chance(3, 4) { Ty::Int } else { Ty::Str }).collect();
                // derived tables are not correlated: they see no outer scopes
                let q = self.sub_select(tys.clone(), &[], d - 1, true);
                (From::Sub(Box::new(q), tys.len()), tys)
            }
            2..=3 if self.cfg.joins => {
                let (l, lt) = self.base_table();
                let (rr, rt) = self.base_table();
                let mut tys = lt;
                tys.extend(rt);
                // ON conditions see only the two joined tables: vibesql does not resolve references
                // to an enclosing query inside ON (ColumnNotFound), so such queries are outside the
                // subset both sides define
                let _ = outer;
                let scopes = vec![tys.clone()];
                let sub = self.cfg.subqueries;
                self.cfg.subqueries = false;
                let on = self.expr(Ty::Bool, &scopes, 1);
                self.cfg.subqueries = sub;
                let k = if self.cfg.left_join && self.r.chance(1, 2) { JoinKind::Left } else { JoinKind::Inner };
                (From::Join(k, Box::new(l), Box::new(rr), on), tys)
            }
            _ => self.base_table(),
        }
    }

    /// A SELECT producing columns of the given types (used for IN/EXISTS subqueries and derived tables).
    pub fn sub_select(&mut self, tys: Vec<Ty>, outer: &[Vec<Ty>], d: usize, allow_group: bool) -> Query {
        let (from, types) = self.from_list(outer, d, 1);
        let mut scopes = vec![types];
        scopes.extend_from_slice(outer);
        let where_ = if self.r.chance(2, 3) { Some(self.expr(Ty::Bool, &scopes, d.min(1))) } else { None };
        if allow_group && self.cfg.grouping && self.r.chance(1, 3) {
            // SELECT key, agg ... GROUP BY key  shaped to the wanted types
            let key_ty = tys[0];
            let key = self.expr(key_ty, &scopes, 0);
            let mut aggs = Vec::new();
            let mut proj = vec![Expr::Col(0, 0)];
            for (i, t) in tys.iter().enumerate().skip(1) {
                let (f, a) = match t {
                    // COUNT(*) too: the same aggregate text inside a derived table and in the query around it
                    // is what a shared aggregate cache would confuse
                    Ty::Int => (*self.r.pick(&[AggFn::CountStar, AggFn::CountStar, AggFn::Count, AggFn::Sum, AggFn::Min, AggFn::Max]), self.expr(Ty::Int, &scopes, 0)),
                    _ => (*self.r.pick(&[AggFn::Min, AggFn::Max]), self.expr(Ty::Str, &scopes, 0)),
                };
                aggs.push((f, false, a));
                proj.push(Expr::Col(0, i));
            }
            return Query::Select(Select { distinct: false, from, where_, grouping: Some((vec![key], aggs)), having: None, proj, order: vec![], limit: None, offset: None });
        }
        let proj = tys.iter().map(|t| self.expr(*t, &scopes, d.min(1))).collect();
        Query::Select(Select { distinct: self.cfg.distinct && self.r.chance(1, 5), from, where_, grouping: None, having: None, proj, order: vec![], limit: None, offset: None })
    }

    /// Top-level query.  Returns the query and its output column types.
    pub fn query(&mut self, depth: usize) -> (Query, Vec<Ty>) {
        if self.cfg.setops && depth > 0 && self.r.chance(1, 8) {
            let nt = 1 + self.r.below(2) as usize;
            let tys: Vec<Ty> = (0..nt).map(|_| if self.r.chance(3, 4) { Ty::Int } else { Ty::Str }).collect();
            let l = self.sub_select(tys.clone(), &[], depth - 1, false);
            let rq = self.sub_select(tys.clone(), &[], depth - 1, false);
            let op = *self.r.pick(&[SetOp::Union, SetOp::Intersect, SetOp::Except]);
            return (Query::SetOp(op, self.r.chance(1, 2), Box::new(l), Box::new(rq)), tys);
        }
        // an aggregate over an aggregating derived table, with the same aggregate function inside and outside
        // (one query in sixteen): SELECT [c1,] AGG FROM (SELECT key, AGG ... GROUP BY key) d [GROUP BY c1]
        if self.cfg.grouping && self.cfg.subqueries && depth > 0 && self.r.chance(1, 16) {
            let (base, btys) = self.base_table();
            let bscope = vec![btys.clone()];
            let ints: Vec<usize> = (0..btys.len()).filter(|i| btys[*i] == Ty::Int).collect();
            if !ints.is_empty() {
                let key = Expr::Col(0, self.r.below(btys.len() as u64) as usize);
                let kt = match &key { Expr::Col(_, i) => btys[*i], _ => Ty::Int };
                let f = *self.r.pick(&[AggFn::CountStar, AggFn::CountStar, AggFn::Sum, AggFn::Count, AggFn::Min, AggFn::Max]);
                let arg_in = if f == AggFn::CountStar { Expr::Const(Val::Int(1)) } else { Expr::Col(0, *self.r.pick(&ints)) };
                let w = if self.r.chance(1, 2) { Some(self.expr(Ty::Bool, &bscope, 1)) } else { None };
                let inner = Query::Select(Select { distinct: false, from: vec![base], where_: w, grouping: Some((vec![key], vec![(f, false, arg_in)])), having: None, proj: vec![Expr::Col(0, 0), Expr::Col(0, 1)], order: vec![], limit: None, offset: None });
                let arg_out = if f == AggFn::CountStar { Expr::Const(Val::Int(1)) } else { Expr::Col(0, 1) };
                let by_value = self.r.chance(1, 2);
                let (keys, proj, tys) = if by_value {
                    (vec![Expr::Col(0, 1)], vec![Expr::Col(0, 0), Expr::Col(0, 1)], vec![Ty::Int, Ty::Int])
                } else {
                    (vec![], vec![Expr::Col(0, 0)], vec![Ty::Int])
                };
                let _ = kt;
                let outer = Select { distinct: false, from: vec![From::Sub(Box::new(inner), 2)], where_: None, grouping: Some((keys, vec![(f, false, arg_out)])), having: None, proj, order: vec![], limit: None, offset: None };
                return (Query::Select(outer), tys);
            }
        }
        let maxf = self.cfg.max_from;
        let (from, types) = self.from_list(&[], depth, maxf);
        let scopes = vec![types];
        let where_ = if self.r.chance(3, 4) { Some(self.expr(Ty::Bool, &scopes, depth)) } else { None };
        let mut s = Select { distinct: false, from, where_, grouping: None, having: None, proj: vec![], order: vec![], limit: None, offset: None };
        let out_tys: Vec<Ty>;
        if self.cfg.grouping && self.r.chance(1, 3) {
            let nk = self.r.below(3) as usize;
            let mut keys = Vec::new();
            let mut tys = Vec::new();
            for _ in 0..nk {
                let t = if self.r.chance(2, 3) { Ty::Int } else { Ty::Str };
                let kd = if self.r.chance(1, 4) { 1 } else { 0 };
                keys.push(self.expr(t, &scopes, kd));
                tys.push(t);
            }
            let na = 1 + self.r.below(3) as usize;
            let mut aggs = Vec::new();
            for _ in 0..na {
                let (f, a, t) = match self.r.below(6) {
                    0 => (AggFn::CountStar, Expr::Const(Val::Int(1)), Ty::Int),
                    1 => {
                        let t = if self.r.chance(1, 2) { Ty::Int } else { Ty::Str };
                        (AggFn::Count, self.expr(t, &scopes, 0), Ty::Int)
                    }
                    2 => (AggFn::Sum, self.expr(Ty::Int, &scopes, 1), Ty::Int),
                    _ => {
                        let t = if self.r.chance(2, 3) { Ty::Int } else { Ty::Str };
                        (if self.r.chance(1, 2) { AggFn::Min } else { AggFn::Max }, self.expr(t, &scopes, 0), t)
                    }
                };
                let dist = f != AggFn::CountStar && self.r.chance(1, 5);
                aggs.push((f, dist, a));
                tys.push(t);
            }
            let gscopes = vec![tys.clone()];
            // the group row is the only scope HAVING and the projection see
            let sub = self.cfg.subqueries;
            self.cfg.subqueries = false;
            if self.r.chance(1, 2) {
                let d = 1 + self.r.below(2) as usize;
                s.having = Some(self.expr(Ty::Bool, &gscopes, d));
            }
            let mut proj = Vec::new();
            let mut ptys = Vec::new();
            for (i, t) in tys.iter().enumerate() {
                if self.r.chance(4, 5) || (i + 1 == tys.len() && proj.is_empty()) {
                    proj.push(Expr::Col(0, i));
                    ptys.push(*t);
                }
            }
            if self.r.chance(1, 4) {
                let e = self.expr(Ty::Int, &gscopes, 1);
                proj.push(e);
                ptys.push(Ty::Int);
            }
            // predicates evaluated in the select list of a grouped query (their NULL / FALSE / TRUE value
            // is visible there, unlike in HAVING)
            if self.r.chance(1, 4) {
                let e = self.expr(Ty::Bool, &gscopes, 1);
                proj.push(e);
                ptys.push(Ty::Bool);
            }
            self.cfg.subqueries = sub;
            s.grouping = Some((keys, aggs));
            s.proj = proj;
            out_tys = ptys;
        } else {
            let np = 1 + self.r.below(3) as usize;
            let mut ptys = Vec::new();
            for _ in 0..np {
                let t = match self.r.below(8) {
                    0 => Ty::Bool,
                    1..=2 => Ty::Str,
                    _ => Ty::Int,
                };
                s.proj.push(self.expr(t, &scopes, depth.min(2)));
                ptys.push(t);
            }
            s.distinct = self.cfg.distinct && self.r.chance(1, 5);
            out_tys = ptys;
        }
        if self.cfg.order && self.r.chance(2, 5) {
            let n = 1 + self.r.below(out_tys.len() as u64) as usize;
            let mut pos: Vec<usize> = (0..out_tys.len()).collect();
            for i in 0..n {
                let j = i + self.r.below((pos.len() - i) as u64) as usize;
                pos.swap(i, j);
            }
            s.order = pos[..n].iter().map(|p| (*p, self.r.chance(1, 3))).collect();
            if self.cfg.limit && self.r.chance(1, 3) {
                s.limit = Some(self.r.below(5) as usize);
                if self.r.chance(1, 2) {
                    s.offset = Some(self.r.below(4) as usize);
                }
            }
        }
        (Query::Select(s), out_tys)
    }
}

/// Syntactic features of a query, used for the input-distribution histogram and for classifying
/// disagreements against known classes.
pub fn features(q: &Query, out: &mut Vec<&'static str>) {
    fn fe(e: &Expr, out: &mut Vec<&'static str>) {
        match e {
            Expr::Col(d, _) => {
                if *d > 0 {
                    out.push("correlated");
                }
            }
            Expr::Const(_) => {}
            Expr::Bin(op, a, b) => {
                out.push(match op {
                    BinOp::Add | BinOp::Sub | BinOp::Mul => "arith",
                    BinOp::And | BinOp::Or => "andor",
                    _ => "cmp",
                });
                fe(a, out);
                fe(b, out);
            }
            Expr::Not(a) => {
                out.push("not");
                fe(a, out)
            }
            Expr::IsNull(a, _) => {
                out.push("isnull");
                fe(a, out)
            }
            Expr::Between(a, b, c, _) => {
                out.push("between");
                fe(a, out);
                fe(b, out);
                fe(c, out)
            }
            Expr::InList(a, l, _) => {
                out.push("inlist");
                fe(a, out);
                l.iter().for_each(|x| fe(x, out))
            }
            Expr::Case(ws, els) => {
                out.push("case");
                for (c, t) in ws {
                    fe(c, out);
                    fe(t, out);
                }
                if let Some(e) = els {
                    fe(e, out)
                }
            }
            Expr::Coalesce(l) => {
                out.push("coalesce");
                l.iter().for_each(|x| fe(x, out))
            }
            Expr::Scalar(q) => {
                out.push("scalar-subquery");
                features(q, out)
            }
            Expr::InSub(a, q, n) => {
                out.push(if *n { "not-in-subquery" } else { "in-subquery" });
                fe(a, out);
                features(q, out)
            }
            Expr::Exists(q, n) => {
                out.push(if *n { "not-exists" } else { "exists" });
                features(q, out)
            }
        }
    }
    fn ff(f: &From, out: &mut Vec<&'static str>) {
        match f {
            From::Table(..) => {}
            From::View(..) => out.push("view-ref"),
            From::Sub(q, _) => {
                out.push("derived-table");
                features(q, out)
            }
            From::Join(k, l, r, on) => {
                out.push(match k {
                    JoinKind::Inner => "inner-join",
                    JoinKind::Left => "left-join",
                });
                ff(l, out);
                ff(r, out);
                fe(on, out)
            }
        }
    }
    match q {
        Query::SetOp(op, all, l, r) => {
            out.push(match (op, all) {
                (SetOp::Union, false) => "union",
                (SetOp::Union, true) => "union-all",
                (SetOp::Intersect, false) => "intersect",
                (SetOp::Intersect, true) => "intersect-all",
                (SetOp::Except, false) => "except",
                (SetOp::Except, true) => "except-all",
            });
            features(l, out);
            features(r, out);
        }
        Query::Select(s) => {
            if s.distinct {
                out.push("distinct");
            }
            if s.from.len() > 1 {
                out.push("comma-join");
            }
            s.from.iter().for_each(|f| ff(f, out));
            if let Some(w) = &s.where_ {
                out.push("where");
                fe(w, out);
            }
            if let Some((k, a)) = &s.grouping {
                out.push(if k.is_empty() { "agg-no-group" } else { "group-by" });
                k.iter().for_each(|x| fe(x, out));
                for (f, d, e) in a {
                    out.push(match f {
                        AggFn::CountStar => "count-star",
                        AggFn::Count => "count",
                        AggFn::Sum => "sum",
                        AggFn::Min => "min",
                        AggFn::Max => "max",
                    });
                    if *d {
                        out.push("agg-distinct");
                    }
                    fe(e, out);
                }
            }
            if let Some(h) = &s.having {
                out.push("having");
                fe(h, out);
            }
            s.proj.iter().for_each(|p| fe(p, out));
            if !s.order.is_empty() {
                out.push("order-by");
            }
            if s.limit.is_some() {
                out.push("limit");
            }
            if s.offset.is_some() {
                out.push("offset");
            }
        }
    }
}

/// Base tables referenced directly by one FROM list (through joins, not into derived tables).
pub fn from_base_tables(from: &[From]) -> Vec<usize> {
    fn go(f: &From, out: &mut Vec<usize>) {
        match f {
            From::Table(n, _) => out.push(*n),
            From::Sub(..) | From::View(..) => out.push(usize::MAX),
            From::Join(_, l, r, _) => {
                go(l, out);
                go(r, out);
            }
        }
    }
    let mut v = Vec::new();
    from.iter().for_each(|f| go(f, &mut v));
    v
}

/// Known class `selfjoin-3way` (KNOWN_FINDINGS): a SELECT (at any nesting level) whose FROM
/// references three or more tables, one base table more than once, (with or without ORDER BY).
pub fn has_selfjoin_3way(q: &Query) -> bool {
    fn in_expr(e: &Expr) -> bool {
        match e {
            Expr::Col(..) | Expr::Const(_) => false,
            Expr::Bin(_, a, b) => in_expr(a) || in_expr(b),
            Expr::Not(a) | Expr::IsNull(a, _) => in_expr(a),
            Expr::Between(a, b, c, _) => in_expr(a) || in_expr(b) || in_expr(c),
            Expr::InList(a, l, _) => in_expr(a) || l.iter().any(in_expr),
            Expr::Case(ws, els) => ws.iter().any(|(c, t)| in_expr(c) || in_expr(t)) || els.as_ref().map(|e| in_expr(e)).unwrap_or(false),
            Expr::Coalesce(l) => l.iter().any(in_expr),
            Expr::Scalar(q) | Expr::Exists(q, _) => has_selfjoin_3way(q),
            Expr::InSub(a, q, _) => in_expr(a) || has_selfjoin_3way(q),
        }
    }
    fn in_from(f: &From) -> bool {
        match f {
            From::Table(..) | From::View(..) => false,
            From::Sub(q, _) => has_selfjoin_3way(q),
            From::Join(_, l, r, on) => in_from(l) || in_from(r) || in_expr(on),
        }
    }
    match q {
        Query::SetOp(_, _, l, r) => has_selfjoin_3way(l) || has_selfjoin_3way(r),
        Query::Select(s) => {
            let t = from_base_tables(&s.from);
            let mut sorted: Vec<usize> = t.iter().cloned().filter(|x| *x != usize::MAX).collect();
            sorted.sort();
            let repeated = sorted.windows(2).any(|w| w[0] == w[1]);
            (t.len() >= 3 && repeated)
                || s.from.iter().any(in_from)
                || s.where_.as_ref().map(in_expr).unwrap_or(false)
                || s.having.as_ref().map(in_expr).unwrap_or(false)
                || s.proj.iter().any(in_expr)
        }
    }
}
