//! Input generators and input classifiers of the C23 harness (included by `bin/c23.rs`).
//! All randomness comes from `Rng::new(seed, stream)`.
use std::collections::BTreeSet;
use std::panic::{catch_unwind, AssertUnwindSafe};
use vh::rng::Rng;
use vibesql_parser::{Lexer, Token};

// ------------------------------------------------------------------------------------------------
// lexeme pools
// ------------------------------------------------------------------------------------------------

const WORDS: &[&str] = &[
    "select", "SELECT", "From", "where", "insert", "into", "values", "update", "set", "delete", "create", "table", "drop",
    "alter", "add", "and", "or", "not", "null", "true", "false", "as", "join", "left", "right", "inner", "outer", "cross",
    "full", "natural", "on", "group", "by", "having", "order", "asc", "desc", "limit", "offset", "in", "between", "like",
    "exists", "if", "is", "all", "any", "some", "count", "sum", "avg", "min", "max", "union", "intersect", "except", "case",
    "when", "then", "else", "end", "cast", "date", "time", "timestamp", "interval", "integer", "varchar", "char", "primary",
    "key", "foreign", "references", "unique", "check", "default", "index", "view", "trigger", "begin", "commit", "rollback",
    "savepoint", "grant", "revoke", "with", "recursive", "distinct", "current_date", "current", "auto_increment",
    "autoincrement", "div", "match", "against", "show", "describe", "x", "b", "n", "e", "E", "e5", "_", "_a", "a_1", "tbl",
    "col1", "foo", "BAR", "Ünïcode", "naïve", "straße", "ǆ", "ﬁ", "ŉ", "ΑΒΓ", "данные", "数据", "a١٢", "aⅫ", "a²", "ae\u{301}",
    "ｓｅｌｅｃｔ", "aİ", "ıi", "ǰ", "ա", "SELECTED", "selec", "fromage",
];
const NUMBERS: &[&str] = &[
    "0", "1", "42", "007", "3.14", ".5", "5.", "1e5", "1E+5", "1e-5", "1.e5", ".5e+10", "1.2.3", "1..2", "1e", "1e+", "1E-",
    "1e5e5", "9999999999999999999999999", "1.5.", "12abc", "0x1F", "1_000", "٣", "1e+5.5", ".e5", "1.e", "2.E-5", "1e05", "..5",
    "5..", "1.5e", "1ee5", "1Ex",
];
const STRINGS: &[&str] = &[
    "''", "'a'", "'it''s'", "''''", "'unterminated", "'a''", "'\n'", "'é'", "'--'", "'/*'", "'\"'", "'a' 'b'", "'a''''b'", "'''",
    "'\0'", "' '' '", "'日本'", "'a\\'", "'\\''",
];
const DELIMITED: &[&str] = &[
    "\"a\"", "\"\"", "\"a\"\"b\"", "\"unterminated", "`a`", "``", "`a``b`", "`x", "\"é\"", "\"select\"", "\"\"\"\"", "`\"`", "\"`\"",
    "\" \"", "````",
];
const OPERATORS: &[&str] = &[
    "=", "<", ">", "<=", ">=", "<>", "!=", "!", "||", "|", "+", "-", "*", "/", "%", "(", ")", ",", ";", ".", "..", "@", "@@", "@a",
    "@@a", "@@a.b", "@@.", "@1", "@_", "@é", "--", "-- comment\n", "--\n", "- -", "/*", "*/", "#", "$", "?", ":", "[", "]", "{", "}",
    "~", "^", "&", "\\", "\0", "<=>", "=>", "!<", "|||", "||||", "@@@", "@@a@", "-", "---", "-->", "<-", ".5", "a.b", "a.*", "1.a",
];
const WS: &[&str] = &[
    " ", "\t", "\n", "\r", "\r\n", "\u{0b}", "\u{0c}", "\u{85}", "\u{a0}", "\u{1680}", "\u{2003}", "\u{2028}", "\u{2029}",
    "\u{202f}", "\u{205f}", "\u{3000}", "\u{200b}", "\u{feff}", "\u{180e}", "\u{1c}", "\u{1f}", "\u{2000}", "\u{200a}", "\u{200b}",
];
const INTERESTING_CHARS: &[char] = &[
    '\'', '"', '`', '-', '.', 'e', 'E', '@', '|', '(', ')', ',', ';', ' ', '\n', '\0', '=', '<', '>', '!', '+', '*', '/', '_', '0', '9',
    'a', 'Z', 'é', 'ß', '\u{a0}', '\u{3000}', '\u{85}', '数', '\u{1F600}', '%', '#', '\\', '\t', '\r', 'x', 'X', 'b',
];

fn pick_str<'a>(r: &mut Rng, pool: &'a [&'a str]) -> &'a str {
    pool[r.below(pool.len() as u64) as usize]
}

fn random_char(r: &mut Rng) -> char {
    loop {
        let cp = match r.below(10) {
            0..=4 => 0x20 + r.below(0x5f) as u32,
            5 => r.below(0x20) as u32,
            6 => 0x80 + r.below(0x180) as u32,
            7 => r.below(0x3000) as u32,
            8 => r.below(0x10000) as u32,
            _ => 0x10000 + r.below(0x100000) as u32,
        };
        if let Some(c) = char::from_u32(cp) {
            return c;
        }
    }
}

fn mutate_chars(r: &mut Rng, s: &str) -> String {
    let mut v: Vec<char> = s.chars().collect();
    let n = 1 + r.below(3);
    for _ in 0..n {
        let len = v.len();
        match r.below(6) {
            0 if len > 0 => {
                v.remove(r.below(len as u64) as usize);
            }
            1 => {
                let c = if r.chance(3, 4) { *r.pick(INTERESTING_CHARS) } else { random_char(r) };
                v.insert(r.below(len as u64 + 1) as usize, c);
            }
            2 if len > 0 => {
                let c = if r.chance(3, 4) { *r.pick(INTERESTING_CHARS) } else { random_char(r) };
                let i = r.below(len as u64) as usize;
                v[i] = c;
            }
            3 if len > 1 => {
                let i = r.below(len as u64 - 1) as usize;
                let j = (i + 1 + r.below(8) as usize).min(len);
                let seg: Vec<char> = v[i..j].to_vec();
                for (k, c) in seg.into_iter().enumerate() {
                    v.insert(j + k, c);
                }
            }
            4 if len > 0 => {
                v.truncate(r.below(len as u64) as usize);
            }
            _ if len > 1 => {
                let i = r.below(len as u64 - 1) as usize;
                v.swap(i, i + 1);
            }
            _ => {}
        }
    }
    v.into_iter().collect()
}

// ------------------------------------------------------------------------------------------------
// corpus: the SQL texts of the repository's own parser tests + a built-in list
// ------------------------------------------------------------------------------------------------

const STATEMENT_STARTS: &[&str] = &[
    "SELECT", "INSERT", "UPDATE", "DELETE", "CREATE", "DROP", "ALTER", "WITH", "GRANT", "REVOKE", "SET", "BEGIN", "START", "COMMIT",
    "ROLLBACK", "SAVEPOINT", "RELEASE", "DECLARE", "OPEN", "FETCH", "CLOSE", "CALL", "SHOW", "DESCRIBE", "TRUNCATE", "REINDEX",
    "ANALYZE", "REPLACE",
];

const BUILTIN: &[&str] = &[
    "SELECT 1",
    "SELECT a, b + 1 AS c FROM t WHERE a > 1 AND b IS NOT NULL ORDER BY a DESC LIMIT 10 OFFSET 2",
    "SELECT DISTINCT t.a, COUNT(*) FROM t JOIN u ON t.id = u.id LEFT OUTER JOIN v ON v.x = u.x GROUP BY t.a HAVING COUNT(*) > 1",
    "SELECT CASE WHEN a = 1 THEN 'one' WHEN a = 2 THEN 'two' ELSE 'many' END FROM t",
    "SELECT a FROM t WHERE a IN (1, 2, 3) OR b NOT BETWEEN 1 AND 5 OR c LIKE 'x%' OR EXISTS (SELECT 1 FROM u WHERE u.id = t.id)",
    "SELECT a FROM t UNION ALL SELECT b FROM u INTERSECT SELECT c FROM v",
    "WITH c AS (SELECT 1 AS x) SELECT x FROM c",
    "SELECT CAST(a AS INTEGER), CAST('2020-01-01' AS DATE), DATE '2020-01-01', TIME '12:00:00', TIMESTAMP '2020-01-01 00:00:00' FROM t",
    "SELECT SUBSTRING(a FROM 1 FOR 2), TRIM(BOTH 'x' FROM a), POSITION('a' IN b), UPPER(a) || LOWER(b) FROM t",
    "SELECT ROW_NUMBER() OVER (PARTITION BY a ORDER BY b) FROM t",
    "SELECT x'4142', b'01000001', -1.5e3, .5, @@sql_mode, INTERVAL '5' DAY",
    "INSERT INTO t (a, b) VALUES (1, 'x'), (2, NULL)",
    "INSERT INTO t SELECT a, b FROM u",
    "REPLACE INTO t VALUES (1, 2)",
    "UPDATE t SET a = a + 1, b = DEFAULT WHERE id = 3",
    "DELETE FROM t WHERE a < 0",
    "CREATE TABLE t (id INTEGER PRIMARY KEY, name VARCHAR(20) NOT NULL UNIQUE, price DECIMAL(10, 2) DEFAULT 0, d DATE, CHECK (price >= 0), FOREIGN KEY (id) REFERENCES u (id) ON DELETE CASCADE)",
    "CREATE UNIQUE INDEX i ON t (a, b DESC)",
    "CREATE VIEW v AS SELECT a FROM t",
    "CREATE OR REPLACE VIEW v (x) AS SELECT a FROM t",
    "CREATE SCHEMA s",
    "CREATE ROLE r",
    "CREATE DOMAIN d AS INTEGER CHECK (VALUE > 0)",
    "CREATE SEQUENCE s START WITH 1 INCREMENT BY 2",
    "CREATE TRIGGER tr AFTER INSERT ON t FOR EACH ROW BEGIN UPDATE u SET a = 1; END",
    "ALTER TABLE t ADD COLUMN c INTEGER",
    "ALTER TABLE t DROP COLUMN c",
    "DROP TABLE IF EXISTS t",
    "DROP INDEX i",
    "DROP VIEW v",
    "TRUNCATE TABLE t",
    "BEGIN TRANSACTION",
    "COMMIT",
    "ROLLBACK TO SAVEPOINT s",
    "SAVEPOINT s",
    "RELEASE SAVEPOINT s",
    "SET SCHEMA s",
    "SET TRANSACTION ISOLATION LEVEL SERIALIZABLE, READ ONLY",
    "GRANT SELECT, INSERT ON TABLE t TO r WITH GRANT OPTION",
    "REVOKE ALL PRIVILEGES ON t FROM r CASCADE",
    "DECLARE c CURSOR FOR SELECT a FROM t",
    "OPEN c",
    "FETCH NEXT FROM c",
    "CLOSE c",
    "SHOW TABLES",
    "DESCRIBE t",
    "CALL p(1, 'a')",
    "ANALYZE t",
    "REINDEX t",
];

fn string_literals(src: &str, out: &mut Vec<String>) {
    let b: Vec<char> = src.chars().collect();
    let mut i = 0;
    while i < b.len() {
        let c = b[i];
        if c == '/' && i + 1 < b.len() && b[i + 1] == '/' {
            while i < b.len() && b[i] != '\n' {
                i += 1;
            }
        } else if c == 'r' && i + 2 < b.len() && b[i + 1] == '#' && b[i + 2] == '"' {
            let mut j = i + 3;
            let mut s = String::new();
            while j + 1 < b.len() && !(b[j] == '"' && b[j + 1] == '#') {
                s.push(b[j]);
                j += 1;
            }
            out.push(s);
            i = j + 2;
        } else if c == '\'' {
            // char literal or lifetime: skip a short char literal
            if i + 2 < b.len() && b[i + 1] == '\\' {
                i += 4;
            } else if i + 2 < b.len() && b[i + 2] == '\'' {
                i += 3;
            } else {
                i += 1;
            }
        } else if c == '"' {
            let mut j = i + 1;
            let mut s = String::new();
            while j < b.len() && b[j] != '"' {
                if b[j] == '\\' && j + 1 < b.len() {
                    match b[j + 1] {
                        'n' => s.push('\n'),
                        't' => s.push('\t'),
                        'r' => s.push('\r'),
                        '0' => s.push('\0'),
                        '\n' => {
                            // line continuation: skip leading whitespace of the next line
                            j += 2;
                            while j < b.len() && b[j].is_whitespace() {
                                j += 1;
                            }
                            continue;
                        }
                        other => s.push(other),
                    }
                    j += 2;
                } else {
                    s.push(b[j]);
                    j += 1;
                }
            }
            out.push(s);
            i = j + 1;
        } else {
            i += 1;
        }
    }
}

fn walk(dir: &std::path::Path, out: &mut Vec<String>) {
    let mut entries: Vec<_> = match std::fs::read_dir(dir) {
        Ok(e) => e.filter_map(|x| x.ok()).map(|x| x.path()).collect(),
        Err(_) => return,
    };
    entries.sort();
    for p in entries {
        if p.is_dir() {
            walk(&p, out);
        } else if p.extension().map(|e| e == "rs").unwrap_or(false) {
            if let Ok(src) = std::fs::read_to_string(&p) {
                string_literals(&src, out);
            }
        }
    }
}

pub fn corpus() -> Vec<String> {
    let mut lits = Vec::new();
    walk(std::path::Path::new("/repo/crates/vibesql-parser/src/tests"), &mut lits);
    let mut set = BTreeSet::new();
    let mut out = Vec::new();
    for s in BUILTIN.iter().map(|s| s.to_string()).chain(lits.into_iter()) {
        let t = s.trim();
        if t.len() < 6 || t.len() > 1500 || t.contains('{') {
            continue;
        }
        let up = t.to_uppercase();
        let first = up.split(|c: char| !c.is_ascii_alphabetic()).next().unwrap_or("");
        if STATEMENT_STARTS.contains(&first) && set.insert(t.to_string()) {
            out.push(t.to_string());
        }
    }
    out
}

// ------------------------------------------------------------------------------------------------
// a small splitter into lexemes (independent of the lexer under test)
// ------------------------------------------------------------------------------------------------

pub fn lexemes(s: &str) -> Vec<String> {
    let v: Vec<char> = s.chars().collect();
    let mut out = Vec::new();
    let mut i = 0;
    while i < v.len() {
        let c = v[i];
        if c.is_whitespace() {
            i += 1;
            continue;
        }
        let start = i;
        if c.is_alphabetic() || c == '_' {
            while i < v.len() && (v[i].is_alphanumeric() || v[i] == '_') {
                i += 1;
            }
        } else if c.is_ascii_digit() {
            while i < v.len() && (v[i].is_ascii_alphanumeric() || v[i] == '.') {
                i += 1;
            }
        } else if c == '\'' || c == '"' || c == '`' {
            i += 1;
            while i < v.len() {
                if v[i] == c {
                    if i + 1 < v.len() && v[i + 1] == c {
                        i += 2;
                        continue;
                    }
                    i += 1;
                    break;
                }
                i += 1;
            }
        } else if c == '-' && i + 1 < v.len() && v[i + 1] == '-' {
            while i < v.len() && v[i] != '\n' {
                i += 1;
            }
        } else if i + 1 < v.len() && matches!((c, v[i + 1]), ('<', '=') | ('>', '=') | ('<', '>') | ('!', '=') | ('|', '|') | ('@', '@')) {
            i += 2;
        } else {
            i += 1;
        }
        out.push(v[start..i].iter().collect());
    }
    out
}

pub fn lexeme_count(s: &str) -> usize {
    if s.len() > 20_000 {
        return 1000;
    }
    lexemes(s).len()
}

const INSERTABLE: &[&str] = &[
    "(", ")", ",", ";", "SELECT", "FROM", "WHERE", "AND", "OR", "NOT", "NULL", "IN", "BETWEEN", "LIKE", "IS", "EXISTS", "CASE", "WHEN",
    "THEN", "ELSE", "END", "AS", "JOIN", "ON", "GROUP", "BY", "ORDER", "HAVING", "LIMIT", "OFFSET", "UNION", "ALL", "DISTINCT", "VALUES",
    "SET", "INTO", "TABLE", "CAST", "DATE", "TIME", "TIMESTAMP", "INTERVAL", "DEFAULT", "CURRENT", "CURRENT_DATE", "CURRENT_TIME", "NEXT",
    "MATCH", "AGAINST", "OVER", "PARTITION", "ROWS", "WITH", "x", "b", "a", "t", "1", "1.5", "'s'", "''", "\"q\"", "*", "+", "-", "/",
    "=", "<", ">", "<=", "<>", "||", ".", "@v", "@@v", "x'é1'", "x'41'", "b'01'", "LEFT", "RIGHT", "REPLACE", "SCHEMA", "POSITION",
    "TRIM", "SUBSTRING", "COUNT", "USING", "FOR", "TO", "DAY", "YEAR", "PRIMARY", "KEY", "REFERENCES", "CHECK", "UNIQUE", "INTEGER",
    "VARCHAR", "DECIMAL", "99999999999999999999", "1e999", "BEGIN", "TRIGGER", "IF",
];

fn mutate_tokens(r: &mut Rng, s: &str) -> String {
    let mut v = lexemes(s);
    let n = 1 + r.below(2);
    for _ in 0..n {
        let len = v.len();
        match r.below(6) {
            0 if len > 0 => {
                v.remove(r.below(len as u64) as usize);
            }
            1 if len > 0 => {
                let i = r.below(len as u64) as usize;
                let x = v[i].clone();
                v.insert(i, x);
            }
            2 if len > 1 => {
                let i = r.below(len as u64) as usize;
                let j = r.below(len as u64) as usize;
                v.swap(i, j);
            }
            3 => {
                let x = pick_str(r, INSERTABLE).to_string();
                v.insert(r.below(len as u64 + 1) as usize, x);
            }
            4 if len > 0 => {
                let i = r.below(len as u64) as usize;
                v[i] = pick_str(r, INSERTABLE).to_string();
            }
            _ if len > 1 => {
                // move a parenthesis / keyword elsewhere
                let i = r.below(len as u64) as usize;
                let x = v.remove(i);
                let j = r.below(v.len() as u64 + 1) as usize;
                v.insert(j, x);
            }
            _ => {}
        }
    }
    v.join(" ")
}

// ------------------------------------------------------------------------------------------------
// (i) lexer inputs
// ------------------------------------------------------------------------------------------------

const LEX_EDGE: &[&str] = &[
    "", " ", "\n", "--", "-- only a comment", "--\n--\n", "- - 1", "a--b\nc", "a - -b", "'", "''", "'''", "\"", "\"\"", "`", "``", "@", "@@",
    "@ a", "@@ a", ".", "..", ".5", "5.", "5.e", ".e", "1e", "1e+", "1e+x", "|", "||", "|||", "a|b", "!", "!=", "!!", "<", "<=", "<>", "<<", ">>",
    "=>", "=<", "%", "1%2", "\0", "a\0b", "'a\0b'", "\u{feff}select", "select\u{a0}1", "select\u{3000}1", "select\u{85}1", "select\u{200b}1",
    "sélect", "ſelect", "SELECT*FROM`t`", "a.b.c", "a..b", "1.2.3", "1.2e3.4", "1e5e5", "x'41'", "X'41'", "b'01'", "n'x'", "e'x'", "_x", "__", "_1",
    "1_", "1a", "a1", "ａ", "a\u{301}", "\u{301}a", "'unterminated -- not a comment", "\"unterminated \"\" still", "`unterminated `` still",
    "'a' -- 'b'\n'c'", "select 'a''b', \"c\"\"d\", `e``f`;", "a<=b>=c<>d!=e||f", "a< =b", "a! =b", "@a@b", "@@a.b.c", "@@a..", "@@.a", "@a.b",
    "@1a", "@_", "@é", "1 --x", "1--x\n2", "1- -x", "/* c */ 1", "1 /*", "#c", "$1", "?", ":a", "[a]", "{a}", "a;b;;", "((()))", ",,,", "CURRENT_DATE",
    "current_timestamp", "AUTO_INCREMENT", "autoincrement", "auto_increment1", "straße", "STRASSE", "ǆ", "ǅ", "ﬁ", "ŉ", "İ", "ı", "aͅ", "ΐ",
];

pub fn lexer_inputs(seed: u64, thorough: bool) -> Vec<String> {
    let scale = if thorough { 4 } else { 1 };
    let mut out: Vec<String> = LEX_EDGE.iter().map(|s| s.to_string()).collect();
    let corp = corpus();
    // every pool entry on its own, followed by a delimiter and glued to a neighbour
    for pool in [WORDS, NUMBERS, STRINGS, DELIMITED, OPERATORS, WS] {
        for s in pool {
            out.push(s.to_string());
            out.push(format!("{}x", s));
            out.push(format!("1{}", s));
        }
    }
    let mut r = Rng::new(seed, "c23/lex/soup");
    for _ in 0..5000 * scale {
        let n = 1 + r.below(12);
        let mut s = String::new();
        for k in 0..n {
            if k > 0 {
                match r.below(20) {
                    0..=6 => {}
                    7..=15 => s.push(' '),
                    _ => s.push_str(pick_str(&mut r, WS)),
                }
            }
            let pool = match r.below(12) {
                0..=3 => WORDS,
                4..=5 => NUMBERS,
                6 => STRINGS,
                7 => DELIMITED,
                _ => OPERATORS,
            };
            s.push_str(pick_str(&mut r, pool));
        }
        out.push(s);
    }
    let mut r = Rng::new(seed, "c23/lex/mut");
    let short: Vec<&String> = corp.iter().filter(|s| s.len() <= 220).collect();
    if !short.is_empty() {
        for _ in 0..3000 * scale {
            let base = short[r.below(short.len() as u64) as usize];
            out.push(mutate_chars(&mut r, base));
        }
        // truncation at every character of a few statements
        for k in 0..8 {
            let base = short[(k * 37) % short.len()];
            let v: Vec<char> = base.chars().collect();
            for n in 0..v.len().min(120) {
                out.push(v[..n].iter().collect());
            }
        }
    }
    let mut r = Rng::new(seed, "c23/lex/unicode");
    for _ in 0..1500 * scale {
        let n = r.below(24);
        out.push((0..n).map(|_| random_char(&mut r)).collect());
    }
    // long inputs (the model's cursor is a list index, keep them moderate)
    out.push("9".repeat(3000));
    out.push(format!("1.{}e{}", "0".repeat(1500), "9".repeat(1000)));
    out.push(format!("'{}'", "a''".repeat(900)));
    out.push(format!("'{}", "b".repeat(2500)));
    out.push(format!("\"{}\"", "q\"\"".repeat(700)));
    out.push("x".repeat(2500));
    out.push("(".repeat(2500));
    out.push("-- c\n".repeat(500));
    out.push(" ".repeat(3000));
    out.push("a ".repeat(1200));
    out.push(format!("@@{}", "v.".repeat(1000)));
    out.push("é".repeat(2000));
    out
}

// ------------------------------------------------------------------------------------------------
// (ii) parser stream
// ------------------------------------------------------------------------------------------------

const TARGETED: &[&str] = &[
    "SELECT x'a\u{e9}1'",
    "SELECT X'\u{e9}1'",
    "SELECT x'\u{e9}'",
    "SELECT x'\u{20ac}0'",
    "SELECT \"x\" 'a\u{e9}1'",
    "SELECT b'\u{e9}'",
    "SELECT b'0101010\u{e9}'",
    "SELECT x'4'",
    "SELECT x''",
    "SELECT b''",
    "SELECT x'zz'",
    "SELECT b'01010101'",
    "SELECT CURRENT_TIME(99999999999)",
    "SELECT CURRENT_TIMESTAMP(-1)",
    "SELECT 1 LIMIT 99999999999999999999999",
    "SELECT 1 LIMIT 1.5",
    "SELECT 1 OFFSET -1",
    "SELECT 1e999999999",
    "SELECT 1e-999999999",
    "SELECT DATE ''",
    "SELECT DATE '\u{e9}\u{e9}\u{e9}\u{e9}-01-01'",
    "SELECT TIME '99:99:99'",
    "SELECT TIMESTAMP '0000-00-00 00:00:00'",
    "SELECT INTERVAL '\u{e9}' DAY",
    "SELECT INTERVAL '9223372036854775807' YEAR",
    "SELECT INTERVAL '1-\u{e9}' YEAR TO MONTH",
    "SELECT INTERVAL '1' DAY TO",
    "SELECT CAST(1 AS VARCHAR(99999999999999999999))",
    "SELECT CAST(1 AS DECIMAL(-1, 999999999999))",
    "CREATE TABLE t (a VARCHAR(18446744073709551616))",
    "CREATE TABLE t (a DECIMAL(99999999999, 99999999999))",
    "SELECT",
    "SELECT FROM",
    "SELECT * FROM",
    "SELECT 1 ) ) garbage",
    "SELECT - NOT - NOT 1",
    "SELECT NOT IN (1)",
    "SELECT CURRENT",
    "SELECT CURRENT _DATE",
    "SELECT NEXT VALUE FOR",
    "SELECT MATCH (a) AGAINST ('x' IN BOOLEAN",
    "SELECT f(*) OVER (",
    "SELECT SUBSTRING(",
    "SELECT TRIM(FROM",
    "SELECT POSITION(IN)",
    "CREATE TRIGGER t AFTER INSERT ON u FOR EACH ROW BEGIN",
    "CREATE TRIGGER t AFTER INSERT ON u FOR EACH ROW BEGIN BEGIN BEGIN END",
    "CREATE TABLE t (a INTEGER CHECK (((((",
    "CREATE PROCEDURE p() BEGIN END",
    "CREATE FUNCTION f() RETURNS INTEGER BEGIN RETURN 1; END",
    "INSERT INTO t VALUES",
    "INSERT INTO t VALUES (",
    "UPDATE t SET",
    "GRANT",
    "REVOKE ALL",
    "SET",
    "SET @a =",
    "ROLLBACK TO",
    ";",
    ";;;",
    "",
];

pub fn parser_stream(seed: u64, thorough: bool, corpus: &[String]) -> Vec<(&'static str, String)> {
    let scale = if thorough { 4 } else { 1 };
    let mut out: Vec<(&'static str, String)> = Vec::new();
    for s in corpus {
        out.push(("corpus", s.clone()));
    }
    for s in TARGETED {
        out.push(("targeted", s.to_string()));
    }
    if corpus.is_empty() {
        return out;
    }
    // truncation at every token
    let mut n_trunc = 0;
    'outer: for s in corpus {
        let lx = lexemes(s);
        for k in 1..lx.len() {
            out.push(("truncation", lx[..k].join(" ")));
            n_trunc += 1;
            if n_trunc >= 12_000 * scale {
                break 'outer;
            }
        }
    }
    let mut r = Rng::new(seed, "c23/parse/tokmut");
    for _ in 0..25_000 * scale {
        let base = &corpus[r.below(corpus.len() as u64) as usize];
        out.push(("token-mutation", mutate_tokens(&mut r, base)));
    }
    let mut r = Rng::new(seed, "c23/parse/charmut");
    for _ in 0..8_000 * scale {
        let base = &corpus[r.below(corpus.len() as u64) as usize];
        out.push(("char-mutation", mutate_chars(&mut r, base)));
    }
    // huge literals
    let big = 100_000;
    let digits = "7".repeat(big);
    for t in [
        format!("SELECT {}", digits),
        format!("SELECT {}.{}", digits, digits),
        format!("SELECT 1e{}", digits),
        format!("SELECT .{}e-{}", digits, digits),
        format!("SELECT 1 LIMIT {}", digits),
        format!("SELECT 1 OFFSET {}", digits),
        format!("SELECT CURRENT_TIME({})", digits),
        format!("SELECT CAST(1 AS VARCHAR({}))", digits),
        format!("CREATE TABLE t (a DECIMAL({}, {}))", digits, digits),
        format!("INSERT INTO t VALUES ({})", digits),
        format!("SELECT '{}'", "s".repeat(big)),
        format!("SELECT '{}'", "''".repeat(big)),
        format!("SELECT \"{}\"", "i".repeat(big)),
        format!("SELECT {}", "c".repeat(big)),
        format!("SELECT x'{}'", "4a".repeat(big / 2)),
        format!("SELECT b'{}'", "01".repeat(big / 2)),
        format!("SELECT DATE '{}'", "1".repeat(big)),
        format!("SELECT INTERVAL '{}' DAY", "1".repeat(big)),
        format!("SELECT 1 -- {}", "c".repeat(big)),
        format!("SELECT{}1", " ".repeat(big)),
        format!("SELECT @@{}", "v.".repeat(big / 2)),
        format!("SELECT '{}", "u".repeat(big)),
        format!("SELECT {}", "é".repeat(big)),
    ] {
        out.push(("huge-literal", t));
    }
    out
}

// ------------------------------------------------------------------------------------------------
// nesting ramps
// ------------------------------------------------------------------------------------------------

pub const CONSTRUCTS: &[&str] = &["paren", "minus", "not", "case", "subquery", "func", "in_list", "exists", "from_paren", "derived", "union", "cast", "proc_if"];
pub const SKEL_CONSTRUCTS: &[&str] = &["paren", "minus", "not", "case", "subquery", "func", "in_list", "exists", "from_paren", "derived"];
pub const CHAINS: &[&str] = &["chain_plus", "chain_and", "chain_or", "chain_comma", "chain_concat", "chain_rows", "chain_mul"];

pub fn ramp_text(construct: &str, d: usize) -> String {
    match construct {
        "paren" => format!("SELECT {}1{}", "(".repeat(d), ")".repeat(d)),
        "minus" => format!("SELECT {}1", "- ".repeat(d)),
        "not" => format!("SELECT {}1", "NOT ".repeat(d)),
        "case" => format!("SELECT {}1{}", "CASE WHEN ".repeat(d), " THEN 1 END".repeat(d)),
        "subquery" => format!("SELECT {}1{}", "(SELECT ".repeat(d), ")".repeat(d)),
        "func" => format!("SELECT {}1{}", "f1(".repeat(d), ")".repeat(d)),
        "in_list" => format!("SELECT {}1{}", "1 IN (".repeat(d), ")".repeat(d)),
        "exists" => format!("SELECT {}1{}", "EXISTS (SELECT ".repeat(d), ")".repeat(d)),
        "from_paren" => format!("SELECT 1 FROM {}t1{}", "(".repeat(d), ")".repeat(d)),
        "derived" => format!("SELECT 1 FROM {}t1{}", "(SELECT 1 FROM ".repeat(d), ") t2".repeat(d)),
        "union" => format!("SELECT 1{}", " UNION SELECT 1".repeat(d)),
        "cast" => format!("SELECT {}1{}", "CAST(".repeat(d), " AS INTEGER)".repeat(d)),
        "proc_if" => format!("CREATE PROCEDURE p1() BEGIN {}RETURN 1; {}END", "IF 1 THEN ".repeat(d), "END IF; ".repeat(d)),
        "chain_plus" => format!("SELECT 1{}", "+1".repeat(d)),
        "chain_mul" => format!("SELECT 1{}", "*1".repeat(d)),
        "chain_and" => format!("SELECT 1 FROM t1 WHERE c1{}", " AND c1".repeat(d)),
        "chain_or" => format!("SELECT 1 FROM t1 WHERE c1{}", " OR c1".repeat(d)),
        "chain_comma" => format!("SELECT 1{}", ",1".repeat(d)),
        "chain_concat" => format!("SELECT 'a'{}", "||'a'".repeat(d)),
        "chain_rows" => format!("INSERT INTO t1 VALUES (1){}", ",(1)".repeat(d)),
        _ => "SELECT 1".to_string(),
    }
}

pub fn ramps(thorough: bool) -> Vec<(&'static str, usize, String)> {
    let depths: &[usize] = if thorough { &[10, 20, 30, 50, 100, 200, 300, 1000, 3000, 10_000, 30_000, 100_000] } else { &[10, 30, 100, 300, 1000, 3000, 10_000, 100_000] };
    let mut out = Vec::new();
    for c in CONSTRUCTS {
        for d in depths {
            out.push((*c, *d, ramp_text(c, *d)));
        }
    }
    let lens: &[usize] = if thorough { &[10, 1000, 30_000, 100_000, 300_000] } else { &[10, 1000, 100_000] };
    for c in CHAINS {
        for d in lens {
            out.push((*c, *d, ramp_text(c, *d)));
        }
    }
    out
}

/// depths at which the stack is measured; below the nesting limit when the implementation has one
pub fn measure_pairs(lim: Option<usize>) -> Vec<(&'static str, usize, usize)> {
    let (d1, d2) = match lim {
        None => (8usize, 24usize),
        Some(l) => {
            let d2 = (l.saturating_sub(4) / 2).clamp(3, 24);
            ((d2 / 3).max(1), d2)
        }
    };
    SKEL_CONSTRUCTS.iter().map(|c| (*c, d1, d2)).collect()
}

// ------------------------------------------------------------------------------------------------
// classifiers on inputs (used for the known classes and the skeleton tie)
// ------------------------------------------------------------------------------------------------

fn lex(s: &str) -> Option<Vec<Token>> {
    catch_unwind(AssertUnwindSafe(|| Lexer::new(s).tokenize())).ok().and_then(|r| r.ok())
}

/// syntactic nesting measure: deepest parenthesis nesting + deepest CASE nesting + longest run of
/// unary operators + number of set operators
pub fn nesting_measure(s: &str) -> usize {
    let toks = match lex(s) {
        Some(t) => t,
        None => return 0,
    };
    let (mut p, mut pmax, mut c, mut cmax, mut run, mut runmax, mut setops) = (0usize, 0usize, 0usize, 0usize, 0usize, 0usize, 0usize);
    for t in &toks {
        let mut unary = false;
        match t {
            Token::LParen => {
                p += 1;
                pmax = pmax.max(p);
            }
            Token::RParen => p = p.saturating_sub(1),
            Token::Symbol('+') | Token::Symbol('-') => unary = true,
            Token::Keyword(k) => match format!("{:?}", k).as_str() {
                "Case" | "If" => {
                    c += 1;
                    cmax = cmax.max(c);
                }
                "End" => c = c.saturating_sub(1),
                "Not" => unary = true,
                "Union" | "Intersect" | "Except" => setops += 1,
                _ => {}
            },
            _ => {}
        }
        if unary {
            run += 1;
            runmax = runmax.max(run);
        } else {
            run = 0;
        }
    }
    pmax + cmax + runmax + setops
}

/// number of infix operators / separators (length of flat chains)
pub fn chain_measure(s: &str) -> usize {
    match lex(s) {
        Some(toks) => toks
            .iter()
            .filter(|t| match t {
                Token::Symbol(_) | Token::Operator(_) | Token::Comma => true,
                Token::Keyword(k) => matches!(format!("{:?}", k).as_str(), "And" | "Or"),
                _ => false,
            })
            .count(),
        None => 0,
    }
}

/// exact precondition of the panic in parser/expressions/identifiers.rs (hex literal x'..'):
/// the byte loop `&string_val[i..i + 2]` reaches an index that is not a char boundary before it
/// reaches an invalid hex pair
pub fn hex_literal_panics(s: &str) -> bool {
    let toks = match lex(s) {
        Some(t) => t,
        None => return false,
    };
    for w in toks.windows(2) {
        if let (Token::Identifier(x) | Token::DelimitedIdentifier(x), Token::String(v)) = (&w[0], &w[1]) {
            if x.to_uppercase() == "X" {
                if v.len() % 2 != 0 {
                    continue;
                }
                let mut i = 0;
                while i < v.len() {
                    if !v.is_char_boundary(i) || !v.is_char_boundary(i + 2) {
                        return true;
                    }
                    if u8::from_str_radix(&v[i..i + 2], 16).is_err() {
                        break;
                    }
                    i += 2;
                }
            }
        }
    }
    false
}

const SKEL_KEYWORDS: &[&str] = &[
    "Select", "From", "Where", "And", "Or", "Not", "Is", "Null", "In", "Between", "Like", "Exists", "Case", "When", "Then", "Else", "End", "True", "False",
];
const SPECIAL_IDENTS: &[&str] = &["X", "B", "POSITION", "TRIM", "SUBSTRING", "VALUES", "CURRENT_DATE", "CURRENT_TIME", "CURRENT_TIMESTAMP"];

/// mirror of `skel_of_token` / `in_alphabet` in Lex/ParseSkel.v
pub fn in_skeleton_alphabet(s: &str) -> bool {
    let toks = match lex(s) {
        Some(t) => t,
        None => return false,
    };
    toks.iter().all(|t| match t {
        Token::Keyword(k) => SKEL_KEYWORDS.contains(&format!("{:?}", k).as_str()),
        Token::Identifier(s) => !SPECIAL_IDENTS.contains(&s.as_str()),
        Token::DelimitedIdentifier(_) | Token::SessionVariable(_) | Token::UserVariable(_) => false,
        Token::Number(_) | Token::String(_) => true,
        Token::Symbol(c) => matches!(c, '+' | '-' | '*' | '/' | '=' | '<' | '>'),
        Token::Operator(o) => matches!(o.as_str(), "||" | "<=" | ">=" | "!=" | "<>"),
        Token::Semicolon | Token::Comma | Token::LParen | Token::RParen | Token::Eof => true,
    })
}

// ------------------------------------------------------------------------------------------------
// (iii) token soups over the skeleton's alphabet
// ------------------------------------------------------------------------------------------------

const SK_LEX: &[&str] = &[
    "(", ")", ",", ";", "+", "-", "*", "/", "=", "<", ">=", "<>", "||", "SELECT", "FROM", "WHERE", "AND", "OR", "NOT", "IS", "NULL", "IN",
    "BETWEEN", "LIKE", "EXISTS", "CASE", "WHEN", "THEN", "ELSE", "END", "1", "2.5", "'s'", "TRUE", "FALSE", "c1", "c2", "t1", "f1", "g1",
];

fn sk_atom(r: &mut Rng) -> String {
    pick_str(r, &["1", "2.5", "'s'", "TRUE", "FALSE", "NULL", "c1", "c2"]).to_string()
}

fn sk_expr(r: &mut Rng, depth: u32) -> String {
    if depth == 0 {
        return sk_atom(r);
    }
    let d = depth - 1;
    match r.below(22) {
        0..=3 => sk_atom(r),
        4 => format!("({})", sk_expr(r, d)),
        5 => format!("- {}", sk_expr(r, d)),
        6 => format!("+ {}", sk_expr(r, d)),
        7 => format!("NOT {}", sk_expr(r, d)),
        8..=10 => {
            let op = *r.pick(&["+", "-", "*", "/", "||", "=", "<", ">=", "<>", "AND", "OR"]);
            format!("{} {} {}", sk_expr(r, d), op, sk_expr(r, d))
        }
        11 => {
            let n = r.below(4);
            let items: Vec<String> = (0..n).map(|_| sk_expr(r, d)).collect();
            format!("{} {}IN ({})", sk_expr(r, d), if r.chance(1, 3) { "NOT " } else { "" }, items.join(", "))
        }
        12 => format!("{} {}IN ({})", sk_expr(r, d), if r.chance(1, 3) { "NOT " } else { "" }, sk_select(r, d)),
        13 => format!("{} {}BETWEEN {} AND {}", sk_expr(r, d), if r.chance(1, 3) { "NOT " } else { "" }, sk_expr(r, d), sk_expr(r, d)),
        14 => format!("{} {}LIKE {}", sk_expr(r, d), if r.chance(1, 3) { "NOT " } else { "" }, sk_expr(r, d)),
        15 => format!("{} IS {}NULL", sk_expr(r, d), if r.chance(1, 2) { "NOT " } else { "" }),
        16 => {
            let mut s = String::from("CASE");
            if r.chance(1, 2) {
                s.push(' ');
                s.push_str(&sk_expr(r, d));
            }
            for _ in 0..1 + r.below(2) {
                s.push_str(&format!(" WHEN {}", sk_expr(r, d)));
                if r.chance(1, 4) {
                    s.push_str(&format!(", {}", sk_expr(r, d)));
                }
                s.push_str(&format!(" THEN {}", sk_expr(r, d)));
            }
            if r.chance(1, 2) {
                s.push_str(&format!(" ELSE {}", sk_expr(r, d)));
            }
            s.push_str(" END");
            s
        }
        17 => format!("{}EXISTS ({})", if r.chance(1, 3) { "NOT " } else { "" }, sk_select(r, d)),
        18 => format!("({})", sk_select(r, d)),
        19 => {
            let n = r.below(3);
            let items: Vec<String> = (0..n).map(|_| sk_expr(r, d)).collect();
            format!("f1({})", items.join(", "))
        }
        20 => "g1(*)".to_string(),
        _ => format!("- NOT {}", sk_expr(r, d)),
    }
}

fn sk_table(r: &mut Rng, depth: u32) -> String {
    if depth == 0 {
        return "t1".into();
    }
    match r.below(6) {
        0..=2 => if r.chance(1, 2) { "t1".into() } else { "t1 c1".into() },
        3 => format!("({}) t1", sk_select(r, depth - 1)),
        4 => format!("({})", sk_from(r, depth - 1)),
        _ => format!("({})", sk_select(r, depth - 1)), // missing alias: rejected
    }
}

fn sk_from(r: &mut Rng, depth: u32) -> String {
    let n = 1 + r.below(2);
    (0..n).map(|_| sk_table(r, depth)).collect::<Vec<_>>().join(", ")
}

fn sk_select(r: &mut Rng, depth: u32) -> String {
    let n = 1 + r.below(3);
    let items: Vec<String> = (0..n)
        .map(|_| {
            if r.chance(1, 8) {
                "*".to_string()
            } else {
                let e = sk_expr(r, depth);
                if r.chance(1, 5) {
                    format!("{} c2", e)
                } else {
                    e
                }
            }
        })
        .collect();
    let mut s = format!("SELECT {}", items.join(", "));
    if r.chance(1, 2) {
        s.push_str(&format!(" FROM {}", sk_from(r, depth)));
    }
    if r.chance(1, 3) {
        s.push_str(&format!(" WHERE {}", sk_expr(r, depth)));
    }
    s
}

/// hand-written boundary inputs: one per branch / error exit of the modelled parser functions
const SK_EDGE: &[&str] = &[
    "SELECT CASE c1 END", "SELECT CASE END", "SELECT CASE c1 ELSE 1 END", "SELECT CASE ELSE 1 END", "SELECT CASE WHEN 1 THEN 2",
    "SELECT CASE WHEN 1 THEN 2 WHEN 3 END", "SELECT CASE WHEN 1, THEN 2 END", "SELECT CASE WHEN 1 THEN 2 ELSE END",
    "SELECT CASE WHEN 1 THEN 2 ELSE 3", "SELECT CASE c1 WHEN 1 THEN 2 END c2", "SELECT CASE WHEN 1 2 END", "SELECT CASE CASE WHEN 1 THEN 2 END WHEN 2 THEN 3 END",
    "SELECT c1 IN ()", "SELECT c1 IN (SELECT 1", "SELECT c1 IN 1", "SELECT c1 IN (1,)", "SELECT c1 IN (,1)", "SELECT c1 NOT IN ()", "SELECT c1 IN (SELECT 1) c2",
    "SELECT c1 BETWEEN 1 2", "SELECT c1 BETWEEN 1 AND", "SELECT c1 NOT BETWEEN 1 AND 2", "SELECT 1 BETWEEN 2 AND 3 AND 4", "SELECT 1 BETWEEN 2 AND 3 BETWEEN 4 AND 5",
    "SELECT 1 BETWEEN 2 OR 3 AND 4", "SELECT c1 IS NULL", "SELECT c1 IS NOT", "SELECT c1 IS NOT NULL", "SELECT c1 IS 1", "SELECT 1 IS NULL IS NULL", "SELECT NULL IS NULL",
    "SELECT 1 = 2 IS NULL", "SELECT 1 IN (1) IS NULL", "SELECT 1 IN (1) IN (2)", "SELECT 1 LIKE 2 LIKE 3", "SELECT 1 LIKE", "SELECT 1 NOT LIKE 2",
    "SELECT f1(", "SELECT f1(*", "SELECT f1(*)", "SELECT f1(1,)", "SELECT f1()", "SELECT f1() g1()", "SELECT f1(*, 1)", "SELECT f1(1 2)", "SELECT f1 (1)", "SELECT f1(f1(), g1(*))",
    "SELECT (", "SELECT ()", "SELECT (1", "SELECT (1))", "SELECT (SELECT 1", "SELECT (SELECT 1)", "SELECT (SELECT)", "SELECT ((SELECT 1))", "SELECT (1, 2)",
    "SELECT EXISTS 1", "SELECT EXISTS (1)", "SELECT EXISTS (SELECT 1)", "SELECT NOT EXISTS (SELECT 1)", "SELECT NOT NOT EXISTS (SELECT 1)", "SELECT EXISTS (SELECT 1",
    "SELECT - NOT EXISTS (SELECT 1)", "SELECT NOT EXISTS 1", "SELECT 1 FROM", "SELECT 1 FROM (t1", "SELECT 1 FROM (SELECT 1)", "SELECT 1 FROM (SELECT 1) t1 t2",
    "SELECT 1 FROM t1 t2 t3", "SELECT 1 FROM t1,", "SELECT 1 FROM ,t1", "SELECT 1 FROM (t1) t2", "SELECT 1 FROM ((SELECT 1) t1)", "SELECT 1 FROM ()",
    "SELECT 1 FROM t1, (SELECT 2) t2 WHERE EXISTS (SELECT 3)", "SELECT 1 FROM (t1, (t1))", "SELECT 1 FROM 1", "SELECT 1 FROM (SELECT 1) 1", "SELECT 1 FROM t1 WHERE",
    "SELECT 1 WHERE", "SELECT 1 WHERE 1 WHERE 2", "SELECT 1 WHERE 1 FROM t1", "SELECT * c1", "SELECT *, 1", "SELECT 1, *", "SELECT * *", "SELECT 1 *", "SELECT 1,", "SELECT , 1",
    "SELECT 1 1", "SELECT 1 c1 c2 , 2", "SELECT 1 c1, 2 c2", "SELECT 1;", "SELECT 1; 2", "SELECT 1 ;;", "SELECT - ", "SELECT - - - 1", "SELECT + - + 1", "SELECT NOT", "SELECT NOT NOT 1",
    "SELECT 1 NOT", "SELECT 1 NOT 2", "SELECT 1 NOT IN", "SELECT 1 NOT LIKE", "SELECT 1 NOT BETWEEN 1 AND", "SELECT NOT IN (1)", "SELECT NOT LIKE 1", "SELECT NOT BETWEEN 1 AND 2",
    "SELECT 1 = ", "SELECT 1 = = 2", "SELECT 1 = 2 = 3", "SELECT 1 < 2 >= 3", "SELECT 1 + * 2", "SELECT 1 * - 2", "SELECT 1 * NOT 2", "SELECT 1 + NOT 2", "SELECT 1 || || 2",
    "SELECT 1 AND", "SELECT AND 1", "SELECT 1 OR OR 2", "SELECT 1 AND NOT 2 OR NOT 3", "SELECT TRUE AND FALSE OR NULL", "SELECT 's' || 's' = 's'", "SELECT 1 + 2 * 3 - 4 / 5",
    "FROM t1", "1", ";", "SELECT", "SELECT SELECT 1", "SELECT 1 SELECT 2", "SELECT (SELECT 1) c1 FROM (t1, (t1))", "SELECT 1 ) ) c1", "SELECT END", "SELECT THEN", "SELECT WHEN 1",
    "SELECT ELSE", "SELECT (SELECT 1;)", "SELECT EXISTS (SELECT 1 ;)", "SELECT 1 FROM (SELECT 1;) t1", "SELECT 1 IN (SELECT 2;)", "SELECT (SELECT 1;;)", "SELECT IN", "SELECT IS", "SELECT NULL", "SELECT , ", "SELECT 1 THEN 2", "SELECT 1 END", "SELECT (1 END)", "SELECT 1 WHEN 2",
];

pub fn skeleton_soups(seed: u64, thorough: bool) -> Vec<String> {
    let scale = if thorough { 4 } else { 1 };
    let mut out: Vec<String> = SK_EDGE.iter().map(|s| s.to_string()).collect();
    // every single-lexeme deletion and every truncation of a few hundred short accepted statements
    {
        let mut r = Rng::new(seed, "c23/skel/deletions");
        for _ in 0..160 * scale {
            let s = sk_select(&mut r, 1);
            let v = lexemes(&s);
            if v.len() > 16 {
                continue;
            }
            for k in 0..v.len() {
                let mut w = v.clone();
                w.remove(k);
                out.push(w.join(" "));
                out.push(v[..k].join(" "));
            }
        }
    }
    let mut r = Rng::new(seed, "c23/skel/grammar");
    for i in 0..2500 * scale {
        let depth = 1 + (i % 3) as u32;
        let mut s = sk_select(&mut r, depth);
        if r.chance(1, 6) {
            s.push(';');
        }
        if r.chance(1, 10) {
            s.push_str(" ) garbage1");
        }
        out.push(s);
    }
    // mutated: delete / duplicate / swap / insert / replace lexemes of the alphabet
    let mut r = Rng::new(seed, "c23/skel/mut");
    let base: Vec<String> = out.clone();
    for _ in 0..2500 * scale {
        let mut v = lexemes(&base[r.below(base.len() as u64) as usize]);
        for _ in 0..1 + r.below(3) {
            let len = v.len();
            match r.below(5) {
                0 if len > 0 => {
                    v.remove(r.below(len as u64) as usize);
                }
                1 if len > 0 => {
                    let i = r.below(len as u64) as usize;
                    let x = v[i].clone();
                    v.insert(i, x);
                }
                2 if len > 1 => {
                    let i = r.below(len as u64) as usize;
                    let j = r.below(len as u64) as usize;
                    v.swap(i, j);
                }
                3 => {
                    let x = pick_str(&mut r, SK_LEX).to_string();
                    v.insert(r.below(len as u64 + 1) as usize, x);
                }
                _ if len > 0 => {
                    let i = r.below(len as u64) as usize;
                    v[i] = pick_str(&mut r, SK_LEX).to_string();
                }
                _ => {}
            }
        }
        out.push(v.join(" "));
    }
    // pure soups
    let mut r = Rng::new(seed, "c23/skel/soup");
    for _ in 0..1000 * scale {
        let n = 1 + r.below(14);
        let mut v = vec!["SELECT".to_string()];
        for _ in 0..n {
            v.push(pick_str(&mut r, SK_LEX).to_string());
        }
        out.push(v.join(" "));
    }
    // the ramps at small depths
    for c in SKEL_CONSTRUCTS {
        // small depths, and depths around the limits a repaired parser is likely to use (24 / 64 / 128 counted
        // levels): all far below today's overflow thresholds on the 8 MiB stack
        for d in [0usize, 1, 2, 3, 5, 8, 10, 11, 12, 13, 20, 21, 22, 23, 24, 25, 26, 30, 31, 32, 33, 50, 62, 63, 64, 65] {
            out.push(ramp_text(c, d));
        }
    }
    out
}
