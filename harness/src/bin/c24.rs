//! C24 — statement execution never panics and never silently wraps numbers.
//!
//! One binary, two roles.  The parent (debug build, started by bin/check) generates the cases from the
//! seed, runs them in-process under catch_unwind, builds the RELEASE build of this same binary
//! (`cargo build --release --bin c24`, cached by cargo under /verif/.cache/target), spawns it with
//! `--role child` on the same seed, reads the child's observations and
//!   * evaluates the property's own oracle on both sets of observations (no panic, exact integer
//!     results, debug == release, database usable after every statement),
//!   * writes Coq shards in which the model (profile Debug / Release) is compared with both sets.
use serde_json::json;
use std::collections::BTreeMap;
use std::panic::{catch_unwind, AssertUnwindSafe};
use vh::out::*;
use vh::rng::Rng;
use vh::val::{bytes_lit, coq_value, zlit, F64_SPECIAL, I64_SPECIAL};
use vibesql_ast::{BinaryOperator, Expression, UnaryOperator};
use vibesql_catalog::{ColumnSchema, TableSchema};
use vibesql_executor::select::columnar::{compute_multiple_aggregates, AggregateOp, AggregateSource, AggregateSpec};
use vibesql_executor::{ExecutorError, ExpressionEvaluator};
use vibesql_storage::database::IndexData;
use vibesql_storage::{Database, Row};
use vibesql_types::{DataType, Date, SqlMode, SqlValue};

#[path = "../c24_stream.rs"]
mod stream;

// ------------------------------------------------------------------------------------------------
// cases and observations
// ------------------------------------------------------------------------------------------------

#[derive(Clone, Debug)]
pub enum Case {
    Bin { sqlite: bool, op: BinaryOperator, a: SqlValue, b: SqlValue },
    Neg(SqlValue),
    Plus(SqlValue),
    Abs(SqlValue),
    ModFn(SqlValue, SqlValue),
    SimdSum(Vec<i64>),
    ColAgg { avg: bool, vs: Vec<SqlValue> },
    AccAgg { avg: bool, distinct: bool, ty: &'static str, vs: Vec<SqlValue> },
    Substr(Vec<SqlValue>),
    Range { data: usize, start: Option<SqlValue>, end: Option<SqlValue>, incl_s: bool, incl_e: bool },
}

#[derive(Clone, Debug, PartialEq)]
pub enum Obs {
    Val(String), // Coq literal of the value (NaNs canonicalised)
    Err(i64),
    Panic(String),
    Unit,
}

pub fn canon_nan(v: &SqlValue) -> SqlValue {
    match v {
        SqlValue::Double(f) if f.is_nan() => SqlValue::Double(f64::from_bits(0x7ff8000000000000)),
        SqlValue::Numeric(f) if f.is_nan() => SqlValue::Numeric(f64::from_bits(0x7ff8000000000000)),
        SqlValue::Float(f) if f.is_nan() => SqlValue::Float(f32::from_bits(0x7fc00000)),
        SqlValue::Real(f) if f.is_nan() => SqlValue::Real(f32::from_bits(0x7fc00000)),
        o => o.clone(),
    }
}

fn obs_val(v: &SqlValue) -> Obs {
    Obs::Val(coq_value(&canon_nan(v)))
}

fn err_code(e: &ExecutorError) -> i64 {
    match e {
        ExecutorError::TypeMismatch { .. } => 1,
        ExecutorError::DivisionByZero => 2,
        ExecutorError::UnsupportedFeature(_) | ExecutorError::UnsupportedExpression(_) => 3,
        ExecutorError::TypeConversionError { .. } => 4,
        _ => 0,
    }
}

fn panic_text(p: Box<dyn std::any::Any + Send>) -> String {
    if let Some(s) = p.downcast_ref::<&str>() {
        s.to_string()
    } else if let Some(s) = p.downcast_ref::<String>() {
        s.clone()
    } else {
        "panic".into()
    }
}

fn guard(f: impl FnOnce() -> Result<SqlValue, ExecutorError>) -> Obs {
    match catch_unwind(AssertUnwindSafe(f)) {
        Ok(Ok(v)) => obs_val(&v),
        Ok(Err(e)) => Obs::Err(err_code(&e)),
        Err(p) => Obs::Panic(panic_text(p)),
    }
}

struct Ctx {
    schema: TableSchema,
    row: Row,
    db_sqlite: Database,
    range_data: Vec<(bool, IndexData)>, // (multi, data)
}

fn lit(v: &SqlValue) -> Expression {
    Expression::Literal(v.clone())
}

fn eval_expr(ctx: &Ctx, sqlite: bool, e: &Expression) -> Obs {
    guard(|| {
        if sqlite {
            ExpressionEvaluator::with_database(&ctx.schema, &ctx.db_sqlite).eval(e, &ctx.row)
        } else {
            ExpressionEvaluator::new(&ctx.schema).eval(e, &ctx.row)
        }
    })
}

fn sql_type_of(ty: &str) -> DataType {
    match ty {
        "INTEGER" => DataType::Integer,
        "SMALLINT" => DataType::Smallint,
        "BIGINT" => DataType::Bigint,
        "DOUBLE" => DataType::DoublePrecision,
        "FLOAT" => DataType::Float { precision: 24 },
        "REAL" => DataType::Real,
        "NUMERIC" => DataType::Numeric { precision: 18, scale: 4 },
        _ => DataType::Varchar { max_length: Some(40) },
    }
}

fn run_case(ctx: &Ctx, c: &Case) -> Obs {
    match c {
        Case::Bin { sqlite, op, a, b } => {
            eval_expr(ctx, *sqlite, &Expression::BinaryOp { left: Box::new(lit(a)), op: op.clone(), right: Box::new(lit(b)) })
        }
        Case::Neg(v) => eval_expr(ctx, false, &Expression::UnaryOp { op: UnaryOperator::Minus, expr: Box::new(lit(v)) }),
        Case::Plus(v) => eval_expr(ctx, false, &Expression::UnaryOp { op: UnaryOperator::Plus, expr: Box::new(lit(v)) }),
        Case::Abs(v) => eval_expr(ctx, false, &Expression::Function { name: "ABS".into(), args: vec![lit(v)], character_unit: None }),
        Case::ModFn(a, b) => eval_expr(ctx, false, &Expression::Function { name: "MOD".into(), args: vec![lit(a), lit(b)], character_unit: None }),
        Case::Substr(args) => {
            eval_expr(ctx, false, &Expression::Function { name: "SUBSTRING".into(), args: args.iter().map(lit).collect(), character_unit: None })
        }
        Case::SimdSum(col) => guard(|| Ok(SqlValue::Bigint(vibesql_executor::simd::simd_sum_i64(col)))),
        Case::ColAgg { avg, vs } => {
            let rows: Vec<Row> = vs.iter().map(|v| Row::new(vec![v.clone()])).collect();
            let spec = AggregateSpec { op: if *avg { AggregateOp::Avg } else { AggregateOp::Sum }, source: AggregateSource::Column(0) };
            guard(|| compute_multiple_aggregates(&rows, &[spec], None, None).map(|mut r| r.remove(0)))
        }
        Case::AccAgg { avg, distinct, ty, vs } => {
            let r = catch_unwind(AssertUnwindSafe(|| {
                let mut db = Database::new();
                let schema = TableSchema::new(
                    "ACC".to_string(),
                    vec![ColumnSchema::new("G".to_string(), DataType::Integer, true), ColumnSchema::new("V".to_string(), sql_type_of(ty), true)],
                );
                db.create_table(schema).expect("harness create_table");
                for v in vs {
                    db.insert_row("ACC", Row::new(vec![SqlValue::Integer(1), v.clone()])).expect("harness insert_row");
                }
                let q = format!("SELECT {}({}v) FROM acc GROUP BY g", if *avg { "AVG" } else { "SUM" }, if *distinct { "DISTINCT " } else { "" });
                vh::sql::exec(&mut db, &q)
            }));
            match r {
                Ok(vh::sql::Outcome::Rows(rows)) => {
                    if rows.len() == 1 && rows[0].len() == 1 {
                        obs_val(&rows[0][0])
                    } else if rows.is_empty() {
                        Obs::Val("EMPTY".into())
                    } else {
                        Obs::Val(format!("SHAPE{}", rows.len()))
                    }
                }
                Ok(vh::sql::Outcome::Panic(m)) => Obs::Panic(m),
                Ok(vh::sql::Outcome::Err(_, _)) => Obs::Err(0),
                Ok(_) => Obs::Err(0),
                Err(p) => Obs::Panic(format!("harness: {}", panic_text(p))),
            }
        }
        Case::Range { data, start, end, incl_s, incl_e } => {
            let (_, idx) = &ctx.range_data[*data];
            match catch_unwind(AssertUnwindSafe(|| idx.range_scan(start.as_ref(), end.as_ref(), *incl_s, *incl_e))) {
                Ok(_) => Obs::Unit,
                Err(p) => Obs::Panic(panic_text(p)),
            }
        }
    }
}

// ------------------------------------------------------------------------------------------------
// generators
// ------------------------------------------------------------------------------------------------

fn d(y: i32, m: u8, dd: u8) -> Date {
    Date { year: y, month: m, day: dd }
}

fn f64b(b: u64) -> f64 {
    f64::from_bits(b)
}

/// operands of the binary operator matrix: every variant, values at which a branch changes
fn operand_set() -> Vec<SqlValue> {
    use SqlValue::*;
    let mut v = vec![Null];
    for i in [0i64, 1, -1, 2, 7, -7, i64::MAX, i64::MIN, i64::MAX - 1, i64::MIN + 1, 3037000500, 4611686018427387904, 9007199254740993] {
        v.push(Integer(i));
    }
    for i in [0i16, 1, -1, i16::MAX, i16::MIN] {
        v.push(Smallint(i));
    }
    for i in [i64::MAX, i64::MIN, 1, -1, 9007199254740993] {
        v.push(Bigint(i));
    }
    for u in [0u64, 5, 1 << 63, u64::MAX, (1 << 63) - 1] {
        v.push(Unsigned(u));
    }
    v.push(Boolean(true));
    v.push(Boolean(false));
    for b in [0u64, 0x8000000000000000, 0x3ff8000000000000, 0x43e0000000000000, 0x7ff8000000000000, 0x7ff0000000000000, 0x7fefffffffffffff, 0xc01e000000000000] {
        v.push(Numeric(f64b(b)));
    }
    for b in [0u64, 0x3ff8000000000000, 0x4000000000000000, 0xfff8000000000000, 0xfff0000000000000, 0x43e0222222222222, 1, 0xc3e0000000000001] {
        v.push(Double(f64b(b)));
    }
    for b in [0x3fc00000u32, 0, 0x7fc00000, 0x7f7fffff, 0x4b800001, 0xc0200000] {
        v.push(Float(f32::from_bits(b)));
    }
    for b in [0x40200000u32, 0x80000000] {
        v.push(Real(f32::from_bits(b)));
    }
    v.push(Varchar("abc".into()));
    v.push(Varchar("5".into()));
    v.push(Varchar("2024-01-31".into()));
    v.push(Character("x".into()));
    v.push(Date(d(2024, 1, 31)));
    v.push(Time(vibesql_types::Time { hour: 1, minute: 2, second: 3, nanosecond: 0 }));
    v.push(Timestamp(vibesql_types::Timestamp { date: d(2024, 2, 29), time: vibesql_types::Time { hour: 0, minute: 0, second: 0, nanosecond: 0 } }));
    v.push(Interval(vibesql_types::Interval::new("1 DAY".to_string())));
    v
}

fn rand_operand(r: &mut Rng) -> SqlValue {
    use SqlValue::*;
    match r.below(12) {
        0 => Integer(vh::val::random_i64(r)),
        1 => Integer(r.range(-50, 50)),
        2 => Smallint(vh::val::random_i64(r) as i16),
        3 => Bigint(vh::val::random_i64(r)),
        4 => Unsigned(vh::val::random_i64(r) as u64),
        5 => Boolean(r.chance(1, 2)),
        6 => Numeric(f64b(vh::val::random_f64_bits(r))),
        7 => Double(f64b(vh::val::random_f64_bits(r))),
        8 => Float(f32::from_bits(vh::val::random_f32_bits(r))),
        9 => Real(f32::from_bits(vh::val::random_f32_bits(r))),
        10 => Integer((r.next() as i64) >> r.below(40)),
        _ => Null,
    }
}

const OPS: [BinaryOperator; 6] =
    [BinaryOperator::Plus, BinaryOperator::Minus, BinaryOperator::Multiply, BinaryOperator::Divide, BinaryOperator::IntegerDivide, BinaryOperator::Modulo];

fn rand_i64_list(r: &mut Rng, n: usize) -> Vec<i64> {
    let style = r.below(5);
    (0..n)
        .map(|_| match style {
            0 => r.range(-100, 100),
            1 => r.range(0, i64::MAX / 3),
            2 => {
                if r.chance(1, 6) {
                    *r.pick(I64_SPECIAL)
                } else {
                    r.range(-5, 5)
                }
            }
            3 => vh::val::random_i64(r),
            _ => r.range(i64::MIN / 4, i64::MAX / 4),
        })
        .collect()
}

fn int_cell(r: &mut Rng, z: i64) -> SqlValue {
    match r.below(4) {
        0 => SqlValue::Bigint(z),
        1 if z >= i16::MIN as i64 && z <= i16::MAX as i64 => SqlValue::Smallint(z as i16),
        _ => SqlValue::Integer(z),
    }
}

fn range_datasets() -> Vec<(bool, IndexData)> {
    use SqlValue::*;
    let mut out = Vec::new();
    let mk = |keys: Vec<Vec<SqlValue>>| {
        let mut m: BTreeMap<Vec<SqlValue>, Vec<usize>> = BTreeMap::new();
        for (i, k) in keys.into_iter().enumerate() {
            m.entry(k).or_default().push(i);
        }
        IndexData::InMemory { data: m }
    };
    out.push((false, mk(vec![])));
    out.push((false, mk((1..=6).map(|i| vec![Double(i as f64)]).collect())));
    out.push((false, mk(vec![vec![Varchar("a".into())], vec![Varchar("x".into())], vec![Varchar("y".into())]])));
    out.push((true, mk((1..=6).flat_map(|i| vec![vec![Double(i as f64), Double(1.0)], vec![Double(i as f64 + 0.5), Double(2.0)]]).collect())));
    out.push((true, mk(vec![vec![Varchar("a".into()), Double(1.0)], vec![Varchar("x".into()), Double(2.0)], vec![Boolean(true), Double(3.0)]])));
    out.push((false, mk(vec![vec![Double(f64::NAN)], vec![Double(1.5)], vec![Null], vec![Boolean(false)]])));
    out
}

fn range_bounds() -> Vec<Option<SqlValue>> {
    use SqlValue::*;
    let mut v: Vec<Option<SqlValue>> = vec![None];
    for x in [
        Integer(5),
        Integer(6),
        Integer(0),
        Integer(i64::MAX),
        Integer(i64::MIN),
        Smallint(5),
        Bigint(5),
        Unsigned(u64::MAX),
        Double(1.5),
        Double(f64b(0x3ff8000000000001)),
        Double(f64b(0x3ff8000000000002)),
        Double(0.0),
        Double(-0.0),
        Double(f64::NAN),
        Double(f64::INFINITY),
        Double(f64::MAX),
        Double(-2.5),
        Double(f64b(0xc004000000000001)),
        Numeric(5.0),
        Float(1.5),
        Real(2.5),
        Varchar("x".into()),
        Varchar("x\0".into()),
        Varchar("".into()),
        Character("x".into()),
        Boolean(false),
        Boolean(true),
        Null,
        Date(d(2024, 1, 1)),
    ] {
        v.push(Some(x));
    }
    v
}

pub fn gen_cases(seed: u64, thorough: bool) -> Vec<Case> {
    let mut cases = Vec::new();
    // A. operator matrix
    let ops = operand_set();
    for op in OPS.iter() {
        for a in &ops {
            for b in &ops {
                cases.push(Case::Bin { sqlite: false, op: op.clone(), a: a.clone(), b: b.clone() });
            }
        }
    }
    for a in &ops {
        for b in &ops {
            cases.push(Case::Bin { sqlite: true, op: BinaryOperator::Divide, a: a.clone(), b: b.clone() });
        }
    }
    let mut r = Rng::new(seed, "c24/bin");
    let nrand = if thorough { 60000 } else { 6000 };
    for _ in 0..nrand {
        let op = r.pick(&OPS).clone();
        let (a, b) = (rand_operand(&mut r), rand_operand(&mut r));
        cases.push(Case::Bin { sqlite: r.chance(1, 8), op, a, b });
    }
    // integer pairs near the overflow boundary: a op b with a*b / a+b close to 2^63
    for _ in 0..(if thorough { 20000 } else { 3000 }) {
        let op = r.pick(&OPS[0..3]).clone();
        let (a, b) = match op {
            BinaryOperator::Multiply => {
                let a = r.range(-4_000_000_000, 4_000_000_000);
                let q = if a == 0 { 0 } else { i64::MAX / a };
                (a, q.wrapping_add(r.range(-2, 2)))
            }
            BinaryOperator::Plus => {
                let a = vh::val::random_i64(&mut r);
                (a, (if r.chance(1, 2) { i64::MAX } else { i64::MIN }).wrapping_sub(a).wrapping_add(r.range(-2, 2)))
            }
            _ => {
                let a = vh::val::random_i64(&mut r);
                (a, a.wrapping_sub(if r.chance(1, 2) { i64::MAX } else { i64::MIN }).wrapping_add(r.range(-2, 2)))
            }
        };
        cases.push(Case::Bin { sqlite: false, op, a: SqlValue::Integer(a), b: int_cell(&mut r, b) });
    }
    // B. unary
    for v in &ops {
        cases.push(Case::Neg(v.clone()));
        cases.push(Case::Plus(v.clone()));
        cases.push(Case::Abs(v.clone()));
    }
    for a in &ops {
        for b in &ops {
            if matches!(a, SqlValue::Integer(_) | SqlValue::Float(_) | SqlValue::Real(_) | SqlValue::Null | SqlValue::Double(_))
                && matches!(b, SqlValue::Integer(_) | SqlValue::Float(_) | SqlValue::Real(_) | SqlValue::Null | SqlValue::Bigint(_))
            {
                cases.push(Case::ModFn(a.clone(), b.clone()));
            }
        }
    }
    // C. sums
    let mut r = Rng::new(seed, "c24/sum");
    for fixed in [
        vec![],
        vec![i64::MAX],
        vec![i64::MAX, 1],
        vec![i64::MIN, -1],
        vec![i64::MAX, 1, -5, 0],
        vec![i64::MAX, -5, 1, 0],
        vec![1, 2, 3, 4, i64::MAX, -10, 0, 0],
        vec![1, 2, 3, 4, 5],
        vec![i64::MAX / 2, i64::MAX / 2, 1, 0, 1],
        vec![i64::MAX / 2, i64::MAX / 2, 1, 0, 0, 0, 0, 0, 1],
        vec![i64::MIN, i64::MAX, i64::MIN, i64::MAX],
        vec![i64::MIN, i64::MIN],
    ] {
        cases.push(Case::SimdSum(fixed));
    }
    for _ in 0..(if thorough { 3000 } else { 400 }) {
        let n = r.below(14) as usize;
        cases.push(Case::SimdSum(rand_i64_list(&mut r, n)));
    }
    for k in 0..(if thorough { 1500 } else { 260 }) {
        let n = match k % 40 {
            0 => 1030,
            1 => 2100,
            _ => r.below(12) as usize,
        };
        let zs = rand_i64_list(&mut r, n);
        let kind = r.below(8);
        let mut vs: Vec<SqlValue> = zs
            .iter()
            .map(|&z| {
                if r.chance(1, 9) {
                    SqlValue::Null
                } else {
                    match kind {
                        0..=3 => int_cell(&mut r, z),
                        4 => SqlValue::Double(z as f64 / 4.0),
                        5 => match r.below(4) {
                            0 => SqlValue::Float(z as f32 / 8.0),
                            1 => SqlValue::Numeric(z as f64 * 0.1),
                            2 => SqlValue::Double(f64b(*r.pick(F64_SPECIAL))),
                            _ => int_cell(&mut r, z),
                        },
                        6 => match r.below(6) {
                            0 => SqlValue::Double(1.5),
                            _ => int_cell(&mut r, z),
                        },
                        _ => match r.below(6) {
                            0 => SqlValue::Real(1.5),
                            1 => SqlValue::Varchar("v".into()),
                            2 => SqlValue::Unsigned(7),
                            3 => SqlValue::Boolean(true),
                            _ => int_cell(&mut r, z),
                        },
                    }
                }
            })
            .collect();
        if n > 1000 && k % 80 < 40 {
            // make the overflow happen across the batch boundary
            vs[0] = SqlValue::Integer(i64::MAX - 100_000);
        }
        cases.push(Case::ColAgg { avg: r.chance(1, 3), vs });
    }
    for k in 0..(if thorough { 1200 } else { 260 }) {
        let n = 1 + r.below(9) as usize;
        let zs = rand_i64_list(&mut r, n);
        let ty = *r.pick(&["INTEGER", "INTEGER", "SMALLINT", "BIGINT", "DOUBLE", "FLOAT", "REAL", "NUMERIC", "VARCHAR"]);
        let vs: Vec<SqlValue> = zs
            .iter()
            .map(|&z| {
                if r.chance(1, 8) {
                    SqlValue::Null
                } else {
                    match ty {
                        "INTEGER" => SqlValue::Integer(z),
                        "SMALLINT" => SqlValue::Smallint(z as i16),
                        "BIGINT" => SqlValue::Bigint(z),
                        "DOUBLE" => SqlValue::Double(if r.chance(1, 10) { f64b(*r.pick(F64_SPECIAL)) } else { z as f64 / 4.0 }),
                        "FLOAT" => SqlValue::Float(z as f32 / 4.0),
                        "REAL" => SqlValue::Real(z as f32 / 4.0),
                        "NUMERIC" => SqlValue::Numeric((z % 100000) as f64 / 100.0),
                        _ => SqlValue::Varchar(format!("{}", z % 10)),
                    }
                }
            })
            .collect();
        cases.push(Case::AccAgg { avg: k % 3 == 0, distinct: k % 4 == 1, ty, vs });
    }
    // D. SUBSTRING
    let strs = ["", "a", "hello", "h\u{e9}llo", "\u{65e5}\u{672c}\u{8a9e}", "a\u{1f600}b", "\u{e9}"];
    let starts = [i64::MIN, -5, 0, 1, 2, 3, 4, 5, 6, 7, 8, i64::MAX];
    let lens: [Option<i64>; 10] = [None, Some(i64::MIN), Some(-1), Some(0), Some(1), Some(2), Some(3), Some(4), Some(1 << 62), Some(i64::MAX)];
    for (si, s) in strs.iter().enumerate() {
        for st in starts {
            for l in lens {
                let sv = if si % 2 == 0 { SqlValue::Varchar(s.to_string()) } else { SqlValue::Character(s.to_string()) };
                let mut args = vec![sv, SqlValue::Integer(st)];
                if let Some(l) = l {
                    args.push(SqlValue::Integer(l));
                }
                cases.push(Case::Substr(args));
            }
        }
    }
    let odd = [SqlValue::Null, SqlValue::Double(1.0), SqlValue::Varchar("2".into()), SqlValue::Bigint(1), SqlValue::Integer(2), SqlValue::Boolean(true)];
    for a in &odd {
        for b in &odd {
            cases.push(Case::Substr(vec![a.clone(), b.clone()]));
            for c in &odd {
                cases.push(Case::Substr(vec![SqlValue::Varchar("h\u{e9}llo".into()), b.clone(), c.clone()]));
                cases.push(Case::Substr(vec![a.clone(), SqlValue::Integer(2), c.clone()]));
            }
        }
    }
    cases.push(Case::Substr(vec![]));
    cases.push(Case::Substr(vec![SqlValue::Varchar("x".into())]));
    cases.push(Case::Substr(vec![SqlValue::Varchar("x".into()), SqlValue::Integer(1), SqlValue::Integer(1), SqlValue::Integer(1)]));
    // E. range_scan
    let bounds = range_bounds();
    let nd = range_datasets().len();
    for data in 0..nd {
        for s in &bounds {
            for e in &bounds {
                for flags in 0..4 {
                    cases.push(Case::Range { data, start: s.clone(), end: e.clone(), incl_s: flags & 1 == 1, incl_e: flags & 2 == 2 });
                }
            }
        }
    }
    let mut r = Rng::new(seed, "c24/range");
    for _ in 0..(if thorough { 20000 } else { 3000 }) {
        // neighbouring doubles: where the epsilon step overshoots
        let base = match r.below(3) {
            0 => (r.range(-4000, 4000) as f64) / 8.0,
            1 => f64b(vh::val::random_f64_bits(&mut r)),
            _ => r.range(-20, 20) as f64,
        };
        let hi = f64b(base.to_bits().wrapping_add(r.below(4)));
        let (s, e) = if r.chance(1, 2) { (base, hi) } else { (hi, base) };
        cases.push(Case::Range {
            data: 1 + (r.below(2) as usize) * 2,
            start: Some(SqlValue::Double(s)),
            end: Some(SqlValue::Double(e)),
            incl_s: r.chance(1, 3),
            incl_e: r.chance(1, 2),
        });
    }
    cases
}

// ------------------------------------------------------------------------------------------------
// Coq printing
// ------------------------------------------------------------------------------------------------

fn coq_op(op: &BinaryOperator) -> &'static str {
    match op {
        BinaryOperator::Plus => "BPlus",
        BinaryOperator::Minus => "BMinus",
        BinaryOperator::Multiply => "BMultiply",
        BinaryOperator::Divide => "BDivide",
        BinaryOperator::IntegerDivide => "BIntegerDivide",
        _ => "BModulo",
    }
}

fn coq_vals(vs: &[SqlValue]) -> String {
    format!("[{}]", vs.iter().map(coq_value).collect::<Vec<_>>().join("; "))
}

fn coq_opt(v: &Option<SqlValue>) -> String {
    match v {
        None => "None".into(),
        Some(x) => format!("(Some {})", coq_value(x)),
    }
}

fn coq_case(c: &Case, ctx: &Ctx) -> String {
    match c {
        Case::Bin { sqlite, op, a, b } => format!("CBin {} {} {} {}", if *sqlite { "SQLite" } else { "MySQL" }, coq_op(op), coq_value(a), coq_value(b)),
        Case::Neg(v) => format!("CNeg {}", coq_value(v)),
        Case::Plus(v) => format!("CPlus {}", coq_value(v)),
        Case::Abs(v) => format!("CAbs {}", coq_value(v)),
        Case::ModFn(a, b) => format!("CMod {} {}", coq_value(a), coq_value(b)),
        Case::SimdSum(col) => format!("CSimdSum [{}]", col.iter().map(|z| zlit(*z as i128)).collect::<Vec<_>>().join("; ")),
        Case::ColAgg { avg, vs } => format!("CColAgg {} {}", if *avg { "AggAvg" } else { "AggSum" }, coq_vals(vs)),
        Case::AccAgg { avg, distinct, vs, .. } => format!("CAccAgg {} {} {}", avg, distinct, coq_vals(vs)),
        Case::Substr(args) => format!("CSubstr {}", coq_vals(args)),
        Case::Range { data, start, end, incl_s, incl_e } => {
            let (multi, idx) = &ctx.range_data[*data];
            let nonempty = match idx {
                IndexData::InMemory { data } => !data.is_empty(),
                _ => false,
            };
            format!("CRange {} {} {} {} {} {}", multi, nonempty, coq_opt(start), coq_opt(end), incl_s, incl_e)
        }
    }
}

fn coq_obs(o: &Obs) -> String {
    match o {
        Obs::Val(s) if s.starts_with('(') || s == "VNull" => format!("(OVal {})", s),
        Obs::Val(_) => "(OErr 99)".into(), // unexpected result shape: never agrees with the model
        Obs::Err(k) => format!("(OErr {})", k),
        Obs::Panic(_) => "OPanic".into(),
        Obs::Unit => "OUnit".into(),
    }
}

// ------------------------------------------------------------------------------------------------
// the property's own oracle on the implementation
// ------------------------------------------------------------------------------------------------

/// mathematical integer of an integer-variant operand
fn to_z(v: &SqlValue) -> Option<i128> {
    match v {
        SqlValue::Integer(i) | SqlValue::Bigint(i) => Some(*i as i128),
        SqlValue::Smallint(i) => Some(*i as i128),
        SqlValue::Unsigned(u) => Some(*u as i128),
        SqlValue::Boolean(b) => Some(*b as i128),
        _ => None,
    }
}

fn fits(z: i128) -> bool {
    z >= i64::MIN as i128 && z <= i64::MAX as i128
}

fn is_big_unsigned(v: &SqlValue) -> bool {
    matches!(v, SqlValue::Unsigned(u) if *u > i64::MAX as u64)
}

fn int_obs(z: i128) -> Obs {
    Obs::Val(coq_value(&SqlValue::Integer(z as i64)))
}

/// the documented result of an integer operation: `Some(Some(z))` exact value, `Some(None)` NULL or an
/// error is acceptable, `None` when the case is not an integer operation
fn exact_int_result(c: &Case) -> Option<Option<i128>> {
    match c {
        Case::Bin { op, a, b, .. } => {
            let (x, y) = (to_z(a)?, to_z(b)?);
            match op {
                BinaryOperator::Plus => Some(Some(x + y)),
                BinaryOperator::Minus => Some(Some(x - y)),
                BinaryOperator::Multiply => Some(Some(x.checked_mul(y).unwrap_or(i128::MAX))),
                BinaryOperator::IntegerDivide => Some(if y == 0 { None } else { Some(x / y) }),
                BinaryOperator::Modulo => Some(if y == 0 { None } else { Some(x % y) }),
                _ => None,
            }
        }
        _ => None,
    }
}

fn partial_sum_overflows(vs: &[i64]) -> bool {
    // any order of evaluation used by the code adds values one at a time or in chunks of four:
    // a partial sum of consecutive elements (within a chunk or of the running total) overflows
    let mut run: i128 = 0;
    let mut over = false;
    for ch in vs.chunks(4) {
        let mut c: i128 = 0;
        for &z in ch {
            c += z as i128;
            if !fits(c) {
                over = true;
            }
            run += z as i128;
            if !fits(run) {
                over = true;
            }
        }
    }
    over
}

fn case_ints(c: &Case) -> Option<Vec<i64>> {
    match c {
        Case::SimdSum(v) => Some(v.clone()),
        Case::ColAgg { vs, .. } | Case::AccAgg { vs, .. } => Some(
            vs.iter()
                .filter_map(|v| match v {
                    SqlValue::Integer(i) | SqlValue::Bigint(i) => Some(*i),
                    SqlValue::Smallint(i) => Some(*i as i64),
                    _ => None,
                })
                .collect(),
        ),
        _ => None,
    }
}

/// narrow classification of a panic
fn classify_panic(c: &Case, ctx: &Ctx, msg: &str) -> &'static str {
    let over = |f: fn(i128, i128) -> i128, a: &SqlValue, b: &SqlValue| -> bool {
        let w = |v: &SqlValue| -> Option<i128> {
            match v {
                SqlValue::Unsigned(u) => Some(*u as i64 as i128),
                SqlValue::Numeric(f) | SqlValue::Double(f) => Some(*f as i64 as i128),
                SqlValue::Float(f) | SqlValue::Real(f) => Some(*f as i64 as i128),
                o => to_z(o),
            }
        };
        match (w(a), w(b)) {
            (Some(x), Some(y)) => !fits(f(x, y)),
            _ => false,
        }
    };
    match c {
        Case::Bin { op: BinaryOperator::Plus, a, b, .. } if msg == "attempt to add with overflow" && over(|x, y| x + y, a, b) => "i64-add-overflow",
        Case::Bin { op: BinaryOperator::Minus, a, b, .. } if msg == "attempt to subtract with overflow" && over(|x, y| x - y, a, b) => "i64-sub-overflow",
        Case::Bin { op: BinaryOperator::Multiply, a, b, .. } if msg == "attempt to multiply with overflow" && over(|x, y| x.checked_mul(y).unwrap_or(i128::MAX), a, b) => "i64-mul-overflow",
        Case::Bin { op: BinaryOperator::Modulo, a, b, .. } if msg == "attempt to calculate the remainder with overflow" && over(|x, y| if y == -1 { -x } else { 0 }, a, b) => {
            "i64-rem-overflow"
        }
        Case::ModFn(SqlValue::Integer(i64::MIN), SqlValue::Integer(-1)) if msg == "attempt to calculate the remainder with overflow" => "i64-rem-overflow",
        Case::Bin { op: BinaryOperator::Divide, a, b, .. }
            if msg.contains("Unexpected combination of coerced type and result type")
                && (matches!(a, SqlValue::Float(_) | SqlValue::Real(_) | SqlValue::Double(_) | SqlValue::Numeric(_) | SqlValue::Boolean(_))
                    || matches!(b, SqlValue::Float(_) | SqlValue::Real(_) | SqlValue::Double(_) | SqlValue::Numeric(_) | SqlValue::Boolean(_))) =>
        {
            "div-unreachable-arm"
        }
        Case::Neg(SqlValue::Integer(i64::MIN)) | Case::Neg(SqlValue::Bigint(i64::MIN)) | Case::Neg(SqlValue::Smallint(i16::MIN)) if msg == "attempt to negate with overflow" => {
            "i64-neg-overflow"
        }
        Case::Abs(SqlValue::Integer(i64::MIN)) | Case::Abs(SqlValue::Bigint(i64::MIN)) | Case::Abs(SqlValue::Smallint(i16::MIN)) if msg == "attempt to negate with overflow" => {
            "i64-abs-overflow"
        }
        Case::SimdSum(_) | Case::ColAgg { .. } | Case::AccAgg { .. } if msg == "attempt to add with overflow" && partial_sum_overflows(&case_ints(c).unwrap()) => "sum-i64-overflow",
        Case::Substr(args) if msg.contains("is not a char boundary") && matches!(args.first(), Some(SqlValue::Varchar(s)) | Some(SqlValue::Character(s)) if !s.is_ascii()) => {
            "substring-char-boundary"
        }
        Case::Range { data, incl_s: false, start: Some(_), end: Some(_), .. } if msg == "range start is greater than range end in BTreeMap" && ctx.range_data[*data].0 => {
            "range-multi-column-exclusive-start-overshoot"
        }
        _ => "panic-unclassified",
    }
}

fn case_json(c: &Case) -> serde_json::Value {
    let s = format!("{:?}", c);
    json!({ "case": if s.len() > 600 { format!("{}...", &s[..s.char_indices().take(600).last().map(|x| x.0).unwrap_or(0)]) } else { s } })
}

/// integer results are exact or an error / NULL (shared with the SQL-text arithmetic of the stream)
fn exactness(sum: &mut Summary, id: u64, c: &Case, od: &Obs, orl: &Obs) {
    // 2. integer results are exact or an error / NULL
    if let Some(exact) = exact_int_result(c) {
        if let Case::Bin { op, a, b, .. } = c {
            for (which, o) in [("debug", od), ("release", orl)] {
                if let Obs::Val(s) = o {
                    let ok = match exact {
                        Some(z) => (fits(z) && *o == int_obs(z)) || (!fits(z) && s == "VNull"),
                        None => s == "VNull",
                    };
                    if !ok {
                        let class = if is_big_unsigned(a) || is_big_unsigned(b) {
                            "unsigned-as-i64-wrap"
                        } else {
                            match (op, exact) {
                                (BinaryOperator::Plus, Some(z)) if !fits(z) && *o == int_obs((z as i64) as i128) => "i64-add-overflow",
                                (BinaryOperator::Minus, Some(z)) if !fits(z) && *o == int_obs((z as i64) as i128) => "i64-sub-overflow",
                                (BinaryOperator::Multiply, Some(z)) if !fits(z) && *o == int_obs((z as i64) as i128) => "i64-mul-overflow",
                                (BinaryOperator::IntegerDivide, Some(_))
                                    if to_z(a).map(|x| x.abs() > (1 << 53)).unwrap_or(false) || to_z(b).map(|x| x.abs() > (1 << 53)).unwrap_or(false) =>
                                {
                                    "int-div-via-f64-inexact"
                                }
                                _ => "result-mismatch",
                            }
                        };
                        sum.finding(class, id, format!("{} build returned {} but the exact result is {:?}", which, s, exact), case_json(c));
                        sum.count(&format!("inexact/{}/{}", which, class));
                    }
                }
            }
        }
    }
}

pub fn oracle_sql_arith(sum: &mut Summary, id: u64, c: &Case, od: &Obs, orl: &Obs, _sql: &str) {
    exactness(sum, id, c, od, orl);
}

fn oracle(sum: &mut Summary, ctx: &Ctx, id: u64, c: &Case, od: &Obs, orl: &Obs) {
    // 1. no panic, in either build
    for (which, o) in [("debug", od), ("release", orl)] {
        if let Obs::Panic(m) = o {
            let class = classify_panic(c, ctx, m);
            sum.finding(class, id, format!("{} build panicked: {}", which, m), case_json(c));
            sum.count(&format!("panic/{}/{}", which, class));
        }
    }
    exactness(sum, id, c, od, orl);
    // 3. sums of integer columns: the exact sum, or NULL / an error / the documented saturation of the i64
    //    helper when the exact sum cannot be represented -- never a wrapped value
    if let Some(zs) = case_ints(c) {
        let all_int = match c {
            Case::SimdSum(_) => true,
            Case::ColAgg { avg, vs } | Case::AccAgg { avg, vs, .. } => {
                !*avg && vs.iter().all(|v| matches!(v, SqlValue::Integer(_) | SqlValue::Bigint(_) | SqlValue::Smallint(_) | SqlValue::Null))
            }
            _ => false,
        };
        let distinct = matches!(c, Case::AccAgg { distinct: true, .. });
        if all_int && !distinct {
            let total: i128 = zs.iter().map(|z| *z as i128).sum();
            let mut run: i128 = 0;
            let mut prefix_over = false;
            for z in &zs {
                run += *z as i128;
                if !fits(run) {
                    prefix_over = true;
                }
            }
            for (which, o) in [("debug", od), ("release", orl)] {
                if let Obs::Val(s) = o {
                    let ok = match c {
                        // simd_sum_i64: the exact sum, saturated at the i64 bounds (documented)
                        Case::SimdSum(_) => *s == coq_value(&SqlValue::Bigint(total.clamp(i64::MIN as i128, i64::MAX as i128) as i64)),
                        // columnar SUM: accumulated in i128, converted once
                        Case::ColAgg { .. } => {
                            if zs.is_empty() {
                                s == "VNull"
                            } else {
                                *s == coq_value(&SqlValue::Double(total as f64))
                            }
                        }
                        // accumulator SUM: exact while every partial sum (in row order) fits i64, NULL afterwards
                        _ => {
                            if zs.is_empty() || prefix_over {
                                s == "VNull"
                            } else {
                                *s == coq_value(&SqlValue::Integer(total as i64))
                            }
                        }
                    };
                    if !ok {
                        let class = if partial_sum_overflows(&zs) { "sum-i64-overflow" } else { "result-mismatch" };
                        sum.finding(class, id, format!("{} build returned {} but the exact sum is {}", which, s, total), case_json(c));
                        sum.count(&format!("inexact/{}/{}", which, class));
                    }
                }
            }
        }
    }
    // 4. the two builds agree, or the difference is one of the listed overflow classes
    if od != orl {
        let explained = match (od, orl) {
            (Obs::Panic(m), _) => classify_panic(c, ctx, m) != "panic-unclassified",
            _ => false,
        };
        sum.count("debug_release_differ");
        if !explained {
            sum.finding("debug-release-differ", id, format!("debug {:?} vs release {:?}", od, orl), case_json(c));
        }
    }
}

// ------------------------------------------------------------------------------------------------
// main
// ------------------------------------------------------------------------------------------------

fn family(c: &Case) -> &'static str {
    match c {
        Case::Bin { .. } => "bin",
        Case::Neg(_) | Case::Plus(_) | Case::Abs(_) | Case::ModFn(..) => "unary",
        Case::SimdSum(_) => "simd_sum",
        Case::ColAgg { .. } => "columnar_agg",
        Case::AccAgg { .. } => "accumulator_agg",
        Case::Substr(_) => "substring",
        Case::Range { .. } => "range_scan",
    }
}

fn obs_line(id: u64, o: &Obs) -> String {
    match o {
        Obs::Val(s) => format!("{}\tV\t{}", id, s),
        Obs::Err(k) => format!("{}\tE\t{}", id, k),
        Obs::Panic(m) => format!("{}\tP\t{}", id, m.replace(['\n', '\t'], " ")),
        Obs::Unit => format!("{}\tU\t", id),
    }
}

fn parse_obs_line(l: &str) -> Option<(u64, Obs)> {
    let mut it = l.splitn(3, '\t');
    let id = it.next()?.parse().ok()?;
    let k = it.next()?;
    let p = it.next().unwrap_or("");
    Some((
        id,
        match k {
            "V" => Obs::Val(p.to_string()),
            "E" => Obs::Err(p.parse().unwrap_or(0)),
            "P" => Obs::Panic(p.to_string()),
            _ => Obs::Unit,
        },
    ))
}

fn main() {
    let args = parse_args();
    quiet_panics();
    if args.extra.get("role").map(|s| s == "single").unwrap_or(false) {
        stream::run_single(&std::env::var("C24_SQL").unwrap_or_default());
        return;
    }
    let child = args.extra.get("role").map(|s| s == "child").unwrap_or(false);
    let mut cfg = vibesql_storage::database::DatabaseConfig::server_default();
    cfg.sql_mode = SqlMode::SQLite;
    let ctx = Ctx { schema: TableSchema::new("T".to_string(), vec![]), row: Row::new(vec![]), db_sqlite: Database::with_config(cfg), range_data: range_datasets() };
    let cases = gen_cases(args.seed, args.thorough);
    let obs: Vec<Obs> = cases.iter().map(|c| run_case(&ctx, c)).collect();
    let stream_base = cases.len() as u64 + 1000;
    let stmts = stream::gen_stream(args.seed, args.thorough);
    let sobs = stream::run_stream(&stmts);

    if child {
        let mut out = String::new();
        for (i, o) in obs.iter().enumerate() {
            out.push_str(&obs_line(i as u64, o));
            out.push('\n');
        }
        for (i, o) in sobs.iter().enumerate() {
            out.push_str(&format!("{}\tS\t{}\n", stream_base + i as u64, o.encode()));
        }
        std::fs::write(args.out.join("obs_release.tsv"), out).expect("write obs_release.tsv");
        return;
    }

    // ---- release build of this binary, run as a child on the same seed ----
    let mut sum = Summary::default();
    sum.nontrivial_rule = "a case is one evaluation of the real code (operator on a pair of literal values through ExpressionEvaluator, unary minus/ABS/MOD, simd_sum_i64, columnar SUM/AVG on a column, accumulator SUM/AVG through SQL GROUP BY, SUBSTRING, IndexData::range_scan) or one hostile SQL statement with its sanity queries, each observed in the debug AND the release build; distinct = distinct printed case; non-trivial = at least one operand/row is not NULL and the case is not a duplicate".into();
    let t0 = std::time::Instant::now();
    let harness_dir = std::env::var("VERIF_HARNESS_DIR").unwrap_or_else(|_| "/verif/harness".into());
    let target = std::env::var("CARGO_TARGET_DIR").unwrap_or_else(|_| "/verif/.cache/target".into());
    let b = std::process::Command::new("cargo")
        .args(["build", "--offline", "--release", "--bin", "c24"])
        .current_dir(&harness_dir)
        .env("CARGO_TARGET_DIR", &target)
        .env("CARGO_NET_OFFLINE", "true")
        .env("RUSTC_WRAPPER", "")
        .env("RUSTFLAGS", "--cfg vibesql_verif")
        .output()
        .expect("harness: cannot start cargo for the release build");
    if !b.status.success() {
        let e = String::from_utf8_lossy(&b.stderr);
        panic!("harness: release build of c24 failed: {}", &e[e.len().saturating_sub(1500)..]);
    }
    sum.notes.push(format!("release build of the harness binary: {:.1}s (cargo, cached under {})", t0.elapsed().as_secs_f64(), target));
    let relbin = std::path::Path::new(&target).join("release").join("c24");
    let st = std::process::Command::new(&relbin)
        .args(["--seed", &args.seed.to_string(), "--tier", if args.thorough { "thorough" } else { "quick" }, "--out", args.out.to_str().unwrap(), "--role", "child"])
        .env("RUST_BACKTRACE", "0")
        .status()
        .expect("harness: cannot start the release child");
    if !st.success() {
        panic!("harness: release child exited with {:?} (abort / stack overflow inside the engine?)", st);
    }
    let rel_text = std::fs::read_to_string(args.out.join("obs_release.tsv")).expect("obs_release.tsv");
    let mut rel: Vec<Obs> = vec![Obs::Unit; cases.len()];
    let mut rel_stream: BTreeMap<u64, String> = BTreeMap::new();
    let mut nrel = 0;
    for l in rel_text.lines() {
        if let Some(rest) = l.split_once("\tS\t") {
            rel_stream.insert(rest.0.parse().unwrap_or(0), rest.1.to_string());
        } else if let Some((id, o)) = parse_obs_line(l) {
            rel[id as usize] = o;
            nrel += 1;
        }
    }
    if nrel != cases.len() {
        panic!("harness: release child reported {} of {} cases", nrel, cases.len());
    }

    // ---- statements that may not return: one child process each, both builds ----
    let hang_base: u64 = 20_000_000;
    let dbg_exe = std::env::current_exe().expect("current_exe");
    let mut hang_log: Vec<(u64, serde_json::Value)> = Vec::new();
    let mut probes = Vec::new();
    for (k, (sql, class)) in stream::HANG_PROBES.iter().enumerate() {
        let id = hang_base + k as u64;
        if args.only.as_ref().map(|o| !o.contains(&id)).unwrap_or(false) {
            continue;
        }
        for (which, exe) in [("debug", dbg_exe.clone()), ("release", relbin.clone())] {
            let sql = sql.to_string();
            probes.push((id, which, sql.clone(), *class, std::thread::spawn(move || stream::probe_in_child(&exe, &sql, 8000))));
        }
    }
    for (id, which, sql, class, h) in probes {
        let r = h.join().expect("probe thread");
        sum.evaluations += 1;
        sum.count(&format!("hang_probe/{}", if r.is_some() { "returned" } else { "killed_after_8s" }));
        let cj = json!({"sql": sql, "build": which, "outcome": r.clone().unwrap_or_else(|| "did not return within 8 s".into())});
        match &r {
            None => sum.finding(class.unwrap_or("statement-does-not-return"), id, format!("{} build: `{}` did not return within 8 s (killed)", which, sql), cj.clone()),
            Some(t) if t == "panic" => sum.finding("panic-unclassified", id, format!("{} build panicked on `{}`", which, sql), cj.clone()),
            _ => {}
        }
        hang_log.push((id, cj));
    }

    // ---- oracle + shards ----
    let mut log = CaseLog::new(&args);
    for (id, cj) in hang_log {
        log.log(id, cj);
    }
    let wanted = |id: u64| args.only.as_ref().map(|o| o.contains(&id)).unwrap_or(true);
    let nsh = if args.thorough { 48usize } else { 16usize };
    let mut shard_text: Vec<Vec<String>> = vec![Vec::new(); nsh];
    // contiguous ids per shard
    let per = (cases.len() + nsh - 1) / nsh;
    for (i, c) in cases.iter().enumerate() {
        let id = i as u64;
        if !wanted(id) {
            continue;
        }
        sum.evaluations += 2;
        sum.count(&format!("family/{}", family(c)));
        let txt = coq_case(c, &ctx);
        let nontrivial = match c {
            Case::Bin { a, b, .. } | Case::ModFn(a, b) => !a.is_null() || !b.is_null(),
            Case::Neg(v) | Case::Plus(v) | Case::Abs(v) => !v.is_null(),
            Case::SimdSum(v) => !v.is_empty(),
            Case::ColAgg { vs, .. } | Case::AccAgg { vs, .. } => vs.iter().any(|v| !v.is_null()),
            Case::Substr(a) => !a.is_empty(),
            Case::Range { start, end, .. } => start.is_some() || end.is_some(),
        };
        if nontrivial {
            sum.nontrivial(&txt);
        }
        match &obs[i] {
            Obs::Val(_) | Obs::Unit => sum.count("outcome/ok"),
            Obs::Err(_) => sum.count("outcome/err"),
            Obs::Panic(_) => sum.count("outcome/panic_debug"),
        }
        if matches!(rel[i], Obs::Panic(_)) {
            sum.count("outcome/panic_release");
        }
        oracle(&mut sum, &ctx, id, c, &obs[i], &rel[i]);
        // every case is printable from its id (a model/implementation disagreement is reported by id)
        log.log(id, json!({"case": format!("{:?}", c).chars().take(400).collect::<String>(), "debug": format!("{:?}", obs[i]).chars().take(200).collect::<String>(), "release": format!("{:?}", rel[i]).chars().take(200).collect::<String>()}));
        if i % 4001 == 17 {
            sum.sample(json!({"case": format!("{:?}", c).chars().take(300).collect::<String>(), "debug": format!("{:?}", obs[i]), "release": format!("{:?}", rel[i])}));
        }
        shard_text[(i / per).min(nsh - 1)].push(format!("({}, {}, {})", txt, coq_obs(&obs[i]), coq_obs(&rel[i])));
    }
    // hostile statement stream
    let extra = stream::judge(&mut sum, &mut log, &args, stream_base, &stmts, &sobs, &rel_stream);
    // SQL-level arithmetic of the stream whose operands are known: compared with the model as well (own shard)
    let extra_base: u64 = 10_000_000;
    let mut extra_items = Vec::new();
    for (j, (c, od, orl)) in extra.iter().enumerate() {
        extra_items.push(format!("({}, {}, {})", coq_case(c, &ctx), coq_obs(od), coq_obs(orl)));
        {
            log.log(extra_base + j as u64, json!({"sql_arith_case": format!("{:?}", c), "debug": format!("{:?}", od), "release": format!("{:?}", orl)}));
        }
    }
    if args.only.is_none() {
        let header = "From Coq Require Import List ZArith Bool.\nImport ListNotations.\nOpen Scope Z_scope.\nFrom VibeSQL Require Import Value.SqlValue Mech.Arith Run.C24Run.\n";
        for (k, items) in shard_text.iter().enumerate() {
            let mut s = String::from(header);
            s.push_str("Definition cases : list (case * obs * obs) := [\n");
            s.push_str(&items.join(";\n"));
            s.push_str(&format!("].\nEval vm_compute in (c24_mismatches {} cases).\n", k * per));
            write_shard(&args, k, &s);
        }
        let mut s = String::from(header);
        s.push_str("Definition cases : list (case * obs * obs) := [\n");
        s.push_str(&extra_items.join(";\n"));
        s.push_str(&format!("].\nEval vm_compute in (c24_mismatches {} cases).\n", extra_base));
        write_shard(&args, nsh, &s);
        sum.model_cases += (cases.len() + extra.len()) as u64;
    }
    let _ = bytes_lit(&[]);
    sum.write(&args);
}
