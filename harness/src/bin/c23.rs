//! C23 — "The SQL parser is total": correspondence harness + property oracle.
//!
//! (i)   lexer: `Lexer::tokenize` vs the Coq model `Lex/Lexer.v`, token for token, on generated and
//!       mutated inputs (arbitrary Unicode, unterminated strings/comments, huge numbers);
//! (ii)  parser: `Parser::parse_sql` in CHILD PROCESSES (this binary re-executed with `--child`), on the
//!       SQL of the repository's own parser tests, token- and character-level mutations of it, huge
//!       literals, and nesting ramps; observation {ok, err, panic, abort, timeout} -- anything but
//!       ok/err is a finding;
//! (iii) recursion skeleton: accept/reject of the real parser vs `Lex/ParseSkel.v` on random token
//!       soups over the skeleton's alphabet; measured stack high-water marks vs the model's depth.
use serde_json::json;
use std::collections::{BTreeMap, BTreeSet, HashMap};
use std::io::{BufRead, BufReader, Read, Write};
use std::panic::{catch_unwind, AssertUnwindSafe};
use std::path::{Path, PathBuf};
use std::sync::mpsc;
use std::time::{Duration, Instant};
use vh::out::*;
use vh::rng::Rng;
use vibesql_parser::{Lexer, Parser, Token};

#[path = "../c23_gen.rs"]
mod gen;

const MAIN_STACK: u64 = 8 << 20; // RLIMIT_STACK given to every child: the usual 8 MiB main-thread stack
const THREAD_STACK: usize = 2 << 20; // Rust's default for spawned threads
const MEASURE_STACK: usize = 40 << 20;
const PAINT_BYTES: usize = 30 << 20;
const PAINT_MARGIN: usize = 32 << 10;
/// limit per input: 2 s of CPU time + 20 us per input byte (the harness build is unoptimised: lexing
/// alone costs ~3 us per character), enforced by a watchdog inside the child so that a loaded machine
/// cannot cause false alarms; the parent's wall-clock limit is only a backstop against a sleeping child
const PER_INPUT_CPU_NANOS: u64 = 2_000_000_000;
const PER_BYTE_CPU_NANOS: u64 = 20_000;
const PER_INPUT_TIMEOUT: Duration = Duration::from_secs(120);
/// known class "nesting-depth-stack-overflow": an abort counts as known only when the input nests at
/// least this deep (syntactic measure `gen::nesting_measure`), per stack size
const NEST_MIN_MAIN: usize = 100;
const NEST_MIN_THREAD: usize = 25;
/// known class "long-chain-drop-stack-overflow": flat operator chains of at least this many operators
const CHAIN_MIN: usize = 20_000;

// ------------------------------------------------------------------------------------------------
// child side
// ------------------------------------------------------------------------------------------------

fn panic_text(p: Box<dyn std::any::Any + Send>) -> String {
    if let Some(s) = p.downcast_ref::<&str>() {
        s.to_string()
    } else if let Some(s) = p.downcast_ref::<String>() {
        s.clone()
    } else {
        "panic".into()
    }
}

fn read_batch(path: &Path) -> Vec<(u64, String)> {
    let mut buf = Vec::new();
    std::fs::File::open(path).expect("batch file").read_to_end(&mut buf).unwrap();
    let mut out = Vec::new();
    let mut i = 0;
    while i + 12 <= buf.len() {
        let id = u64::from_le_bytes(buf[i..i + 8].try_into().unwrap());
        let n = u32::from_le_bytes(buf[i + 8..i + 12].try_into().unwrap()) as usize;
        i += 12;
        out.push((id, String::from_utf8(buf[i..i + n].to_vec()).expect("utf8")));
        i += n;
    }
    out
}

static CUR_ID: std::sync::atomic::AtomicU64 = std::sync::atomic::AtomicU64::new(u64::MAX);
static CUR_START: std::sync::atomic::AtomicU64 = std::sync::atomic::AtomicU64::new(0);
static CUR_EXTRA: std::sync::atomic::AtomicU64 = std::sync::atomic::AtomicU64::new(0);

fn process_cpu_nanos() -> u64 {
    let mut ts = libc::timespec { tv_sec: 0, tv_nsec: 0 };
    unsafe { libc::clock_gettime(libc::CLOCK_PROCESS_CPUTIME_ID, &mut ts) };
    ts.tv_sec as u64 * 1_000_000_000 + ts.tv_nsec as u64
}

fn begin_input(id: u64, len: usize) {
    use std::sync::atomic::Ordering::SeqCst;
    CUR_EXTRA.store(len as u64 * PER_BYTE_CPU_NANOS, SeqCst);
    CUR_START.store(process_cpu_nanos(), SeqCst);
    CUR_ID.store(id, SeqCst);
}

fn end_input() {
    CUR_ID.store(u64::MAX, std::sync::atomic::Ordering::SeqCst);
}

/// kills the child when one input has used more than the CPU limit
fn start_watchdog() {
    // (C23_CPU_LIMIT_NS overrides the limit; used only to test the watchdog itself)
    let limit: u64 = std::env::var("C23_CPU_LIMIT_NS").ok().and_then(|v| v.parse().ok()).unwrap_or(PER_INPUT_CPU_NANOS);
    std::thread::spawn(move || loop {
        std::thread::sleep(Duration::from_millis(50));
        let id = CUR_ID.load(std::sync::atomic::Ordering::SeqCst);
        if id != u64::MAX {
            let used = process_cpu_nanos().saturating_sub(CUR_START.load(std::sync::atomic::Ordering::SeqCst));
            if used > limit + CUR_EXTRA.load(std::sync::atomic::Ordering::SeqCst) {
                let msg = format!("\nT {}\n", id);
                unsafe {
                    libc::write(1, msg.as_ptr() as *const libc::c_void, msg.len());
                    libc::_exit(3);
                }
            }
        }
    });
}

#[inline(never)]
fn parse_and_report(id: u64, sql: &str) {
    let so = std::io::stdout();
    {
        let mut o = so.lock();
        writeln!(o, "S {}", id).ok();
        o.flush().ok();
    }
    begin_input(id, sql.len());
    if std::env::var("C23_TEST_SPIN_ID").ok().and_then(|v| v.parse::<u64>().ok()) == Some(id) {
        // self-test of the watchdog: behave like a parser that loops forever on this input
        let mut x = 0u64;
        loop {
            x = std::hint::black_box(x.wrapping_add(1));
        }
    }
    let r = catch_unwind(AssertUnwindSafe(|| Parser::parse_sql(sql)));
    let (code, msg, val) = match r {
        Ok(Ok(stmt)) => (0, String::new(), Some(stmt)),
        Ok(Err(_)) => (1, String::new(), None),
        Err(p) => (2, panic_text(p).replace('\n', " "), None),
    };
    {
        let mut o = so.lock();
        writeln!(o, "P {} {} {}", id, code, msg).ok();
        o.flush().ok();
    }
    drop(val); // dropping a deep AST recurses as well
    end_input();
    let mut o = so.lock();
    writeln!(o, "R {}", id).ok();
    o.flush().ok();
}

#[inline(never)]
fn parse_only(sql: &str) -> u8 {
    match catch_unwind(AssertUnwindSafe(|| Parser::parse_sql(sql))) {
        Ok(Ok(s)) => {
            std::mem::forget(s);
            0
        }
        Ok(Err(_)) => 1,
        Err(_) => 2,
    }
}

/// Stack high-water mark of one parse: paint the unused part of this thread's stack, parse, look for
/// the lowest overwritten word.
fn measure_one(sql: String) -> (usize, u8) {
    std::thread::Builder::new()
        .stack_size(MEASURE_STACK)
        .spawn(move || {
            const PAT: u64 = 0xA5A5_5A5A_C3C3_3C3C;
            let marker = 0u8;
            let sp = &marker as *const u8 as usize & !7usize;
            let top = sp - PAINT_MARGIN;
            let bottom = sp - PAINT_BYTES;
            let mut p = bottom;
            while p < top {
                unsafe { std::ptr::write_volatile(p as *mut u64, PAT) };
                p += 8;
            }
            let code = parse_only(&sql);
            let mut q = bottom;
            while q < top {
                if unsafe { std::ptr::read_volatile(q as *const u64) } != PAT {
                    break;
                }
                q += 8;
            }
            (sp - q, code)
        })
        .expect("spawn")
        .join()
        .unwrap_or((0, 9))
}

fn child_main(file: &str, mode: &str) {
    std::panic::set_hook(Box::new(|_| {}));
    start_watchdog();
    let inputs = read_batch(Path::new(file));
    match mode {
        "main" => {
            for (id, sql) in &inputs {
                parse_and_report(*id, sql);
            }
        }
        "thread" => {
            std::thread::Builder::new()
                .stack_size(THREAD_STACK)
                .spawn(move || {
                    for (id, sql) in &inputs {
                        parse_and_report(*id, sql);
                    }
                })
                .expect("spawn")
                .join()
                .ok();
        }
        "measure" => {
            for (id, sql) in inputs {
                println!("S {}", id);
                begin_input(id, sql.len());
                let (bytes, code) = measure_one(sql);
                end_input();
                println!("M {} {} {}", id, bytes, code);
                println!("R {}", id);
                std::io::stdout().flush().ok();
            }
        }
        _ => {}
    }
    println!("E");
    std::io::stdout().flush().ok();
}

// ------------------------------------------------------------------------------------------------
// parent side: batches in child processes
// ------------------------------------------------------------------------------------------------

#[derive(Debug, Clone, PartialEq)]
pub enum Obs {
    Ok,
    Err,
    Panic(String),
    Abort { stage: &'static str, signal: i32 },
    Timeout,
    Lost, // child failed in a way the protocol does not explain
}

impl Obs {
    fn tag(&self) -> &'static str {
        match self {
            Obs::Ok => "ok",
            Obs::Err => "err",
            Obs::Panic(_) => "panic",
            Obs::Abort { .. } => "abort",
            Obs::Timeout => "timeout",
            Obs::Lost => "lost",
        }
    }
}

struct ChildRun {
    obs: HashMap<u64, Obs>,
    bytes: HashMap<u64, usize>,
    spawned: u64,
}

fn spawn_child(exe: &Path, file: &Path, mode: &str) -> std::process::Child {
    use std::os::unix::process::CommandExt;
    let mut cmd = std::process::Command::new(exe);
    cmd.arg("--child").arg(file).arg("--mode").arg(mode).arg("--out").arg(file.parent().unwrap());
    cmd.stdout(std::process::Stdio::piped()).stderr(std::process::Stdio::null()).stdin(std::process::Stdio::null());
    cmd.env("RUST_BACKTRACE", "0");
    unsafe {
        cmd.pre_exec(|| {
            let set = |res, v: u64| {
                let l = libc::rlimit { rlim_cur: v, rlim_max: v };
                libc::setrlimit(res, &l);
            };
            set(libc::RLIMIT_STACK, MAIN_STACK);
            set(libc::RLIMIT_CORE, 0);
            set(libc::RLIMIT_AS, 6u64 << 30);
            Ok(())
        });
    }
    cmd.spawn().expect("spawn child")
}

/// Run `inputs` (in order) in child processes of the given mode; one child handles as many inputs as
/// it survives, a dead or stuck child is replaced and the run continues behind the culprit.
fn run_in_children(exe: &Path, dir: &Path, tag: &str, mode: &str, inputs: &[(u64, String)]) -> ChildRun {
    let mut res = ChildRun { obs: HashMap::new(), bytes: HashMap::new(), spawned: 0 };
    let mut start = 0usize;
    let mut round = 0;
    while start < inputs.len() {
        round += 1;
        let file = dir.join(format!("batch_{}_{}.bin", tag, round));
        {
            let mut f = std::io::BufWriter::new(std::fs::File::create(&file).expect("batch"));
            for (id, s) in &inputs[start..] {
                f.write_all(&id.to_le_bytes()).unwrap();
                f.write_all(&(s.len() as u32).to_le_bytes()).unwrap();
                f.write_all(s.as_bytes()).unwrap();
            }
        }
        let mut child = spawn_child(exe, &file, mode);
        res.spawned += 1;
        let stdout = child.stdout.take().unwrap();
        let (tx, rx) = mpsc::channel::<String>();
        let reader = std::thread::spawn(move || {
            for line in BufReader::new(stdout).lines() {
                match line {
                    Ok(l) => {
                        if tx.send(l).is_err() {
                            break;
                        }
                    }
                    Err(_) => break,
                }
            }
        });
        let pos: HashMap<u64, usize> = inputs[start..].iter().enumerate().map(|(i, (id, _))| (*id, start + i)).collect();
        let mut current: Option<u64> = None;
        let mut parsed: Option<Obs> = None;
        let mut done_upto = start; // index of the first input without a final observation
        let mut finished = false;
        let mut timed_out = false;
        let mut cpu_timeout = false;
        loop {
            // generous for the first line (process start), 2 s per input afterwards
            let to = if current.is_some() { PER_INPUT_TIMEOUT } else { PER_INPUT_TIMEOUT + Duration::from_secs(3) };
            match rx.recv_timeout(to) {
                Ok(line) => {
                    let mut it = line.splitn(4, ' ');
                    match it.next() {
                        Some("S") => {
                            current = it.next().and_then(|x| x.parse().ok());
                            parsed = None;
                        }
                        Some("P") => {
                            let _id = it.next();
                            let code = it.next().unwrap_or("9");
                            let msg = it.next().unwrap_or("").to_string();
                            parsed = Some(match code {
                                "0" => Obs::Ok,
                                "1" => Obs::Err,
                                "2" => Obs::Panic(msg),
                                _ => Obs::Lost,
                            });
                        }
                        Some("M") => {
                            let id: u64 = it.next().and_then(|x| x.parse().ok()).unwrap_or(0);
                            let b: usize = it.next().and_then(|x| x.parse().ok()).unwrap_or(0);
                            let code = it.next().unwrap_or("9");
                            res.bytes.insert(id, b);
                            parsed = Some(match code {
                                "0" => Obs::Ok,
                                "1" => Obs::Err,
                                "2" => Obs::Panic(String::new()),
                                _ => Obs::Lost,
                            });
                        }
                        Some("R") => {
                            if let Some(id) = current.take() {
                                res.obs.insert(id, parsed.take().unwrap_or(Obs::Lost));
                                if let Some(p) = pos.get(&id) {
                                    done_upto = p + 1;
                                }
                            }
                        }
                        Some("E") => {
                            finished = true;
                        }
                        Some("T") => {
                            cpu_timeout = true;
                        }
                        _ => {}
                    }
                }
                Err(mpsc::RecvTimeoutError::Timeout) => {
                    timed_out = true;
                    child.kill().ok();
                    break;
                }
                Err(mpsc::RecvTimeoutError::Disconnected) => break,
            }
        }
        let status = child.wait().ok();
        reader.join().ok();
        std::fs::remove_file(&file).ok();
        if finished && current.is_none() {
            break;
        }
        // the child died or hung: blame the input in progress
        use std::os::unix::process::ExitStatusExt;
        let signal = status.and_then(|s| s.signal()).unwrap_or(0);
        match current {
            Some(id) => {
                let o = if timed_out || cpu_timeout {
                    Obs::Timeout
                } else {
                    Obs::Abort { stage: if parsed.is_some() { "drop" } else { "parse" }, signal }
                };
                res.obs.insert(id, o);
                start = pos.get(&id).map(|p| p + 1).unwrap_or(inputs.len());
            }
            None => {
                // died between inputs (or before the first): blame the next one conservatively
                if done_upto < inputs.len() {
                    res.obs.insert(inputs[done_upto].0, if timed_out { Obs::Timeout } else { Obs::Lost });
                }
                start = done_upto + 1;
            }
        }
    }
    res
}

/// Spread `inputs` over worker threads, each running its share in its own children.
fn run_parallel(exe: &Path, dir: &Path, tag: &str, mode: &str, inputs: &[(u64, String)], workers: usize) -> ChildRun {
    let mut all = ChildRun { obs: HashMap::new(), bytes: HashMap::new(), spawned: 0 };
    if inputs.is_empty() {
        return all;
    }
    let chunk = (inputs.len() + workers - 1) / workers;
    let parts: Vec<&[(u64, String)]> = inputs.chunks(chunk.max(1)).collect();
    let results: Vec<ChildRun> = std::thread::scope(|sc| {
        let hs: Vec<_> = parts
            .iter()
            .enumerate()
            .map(|(w, part)| {
                let t = format!("{}_{}", tag, w);
                sc.spawn(move || run_in_children(exe, dir, &t, mode, part))
            })
            .collect();
        hs.into_iter().map(|h| h.join().expect("worker")).collect()
    });
    for r in results {
        all.obs.extend(r.obs);
        all.bytes.extend(r.bytes);
        all.spawned += r.spawned;
    }
    // an input whose child failed outside the protocol (could not start, died between inputs) is run
    // again on its own before anything is concluded about it
    if mode != "measure" {
        for attempt in 0..2 {
            let lost: Vec<(u64, String)> =
                inputs.iter().filter(|(id, _)| matches!(all.obs.get(id), None | Some(Obs::Lost))).cloned().collect();
            if lost.is_empty() {
                break;
            }
            for one in lost.chunks(1) {
                let r = run_in_children(exe, dir, &format!("{}_lost{}", tag, attempt), mode, one);
                all.spawned += r.spawned;
                all.obs.extend(r.obs);
            }
        }
    }
    all
}

// ------------------------------------------------------------------------------------------------
// Coq printing
// ------------------------------------------------------------------------------------------------

fn codes(s: &str) -> String {
    if !s.is_empty() && s.chars().all(|c| (' '..='~').contains(&c)) {
        return format!("(cs \"{}\")", s.replace('"', "\"\""));
    }
    let mut o = String::with_capacity(s.len() * 4 + 2);
    o.push('[');
    let mut first = true;
    for c in s.chars() {
        if !first {
            o.push(';');
        }
        first = false;
        o.push_str(&(c as u32).to_string());
    }
    o.push(']');
    o
}

fn coq_token(t: &Token) -> String {
    match t {
        Token::Keyword(k) => format!("TKeyword {}", codes(&format!("{:?}", k))),
        Token::Identifier(s) => format!("TIdent {}", codes(s)),
        Token::DelimitedIdentifier(s) => format!("TDelim {}", codes(s)),
        Token::Number(s) => format!("TNumber {}", codes(s)),
        Token::String(s) => format!("TString {}", codes(s)),
        Token::Symbol(c) => format!("TSymbol {}", *c as u32),
        Token::Operator(s) => format!("TOperator {}", codes(s)),
        Token::SessionVariable(s) => format!("TSessionVar {}", codes(s)),
        Token::UserVariable(s) => format!("TUserVar {}", codes(s)),
        Token::Semicolon => "TSemicolon".into(),
        Token::Comma => "TComma".into(),
        Token::LParen => "TLParen".into(),
        Token::RParen => "TRParen".into(),
        Token::Eof => "TEof".into(),
    }
}

fn uni_table(inputs: &mut dyn Iterator<Item = &String>) -> String {
    let mut set = BTreeSet::new();
    for s in inputs {
        for c in s.chars() {
            if (c as u32) >= 128 {
                set.insert(c);
            }
        }
    }
    let rows: Vec<String> = set
        .iter()
        .map(|c| {
            let up: String = c.to_uppercase().collect();
            format!("({}, {}, {})", *c as u32, if c.is_alphanumeric() { "true" } else { "false" }, codes(&up))
        })
        .collect();
    format!("Definition tbl : uni_table := [\n{}].\n", rows.join(";\n"))
}

const SHARD_HEAD: &str = "From Coq Require Import List ZArith Bool String.\nImport ListNotations.\nOpen Scope Z_scope.\nFrom VibeSQL Require Import Lex.Lexer Lex.ParseSkel Run.C23Run.\n";

fn bool_lit(b: bool) -> &'static str {
    if b {
        "true"
    } else {
        "false"
    }
}

// ------------------------------------------------------------------------------------------------
// main
// ------------------------------------------------------------------------------------------------

fn lex_real(s: &str) -> Result<Result<Vec<Token>, ()>, String> {
    match catch_unwind(AssertUnwindSafe(|| Lexer::new(s).tokenize())) {
        Ok(Ok(t)) => Ok(Ok(t)),
        Ok(Err(_)) => Ok(Err(())),
        Err(p) => Err(panic_text(p)),
    }
}

fn short(s: &str) -> String {
    if s.chars().count() > 300 {
        let head: String = s.chars().take(200).collect();
        format!("{}…[{} chars]", head, s.chars().count())
    } else {
        s.to_string()
    }
}

fn main() {
    let args = parse_args();
    if let Some(file) = args.extra.get("child") {
        let mode = args.extra.get("mode").cloned().unwrap_or_else(|| "main".into());
        child_main(file, &mode);
        return;
    }
    quiet_panics();
    let t0 = Instant::now();
    let exe = std::env::current_exe().expect("current_exe");
    let dir: PathBuf = args.out.clone();
    let only: Option<BTreeSet<u64>> = args.only.as_ref().map(|v| v.iter().cloned().collect());
    let keep = |id: u64| only.as_ref().map(|o| o.contains(&id)).unwrap_or(true);
    let mut sum = Summary::default();
    sum.nontrivial_rule = "a case is one input text with the observation of the real lexer (token list or error) or of the real parser in a child process (ok/err/panic/abort/timeout); distinct = distinct texts; non-trivial = the text has at least 3 lexemes for parser cases / at least 2 characters for lexer cases (empty and single-token inputs are not counted)".into();
    let mut log = CaseLog::new(&args);
    let workers = 12;
    let mut shard_no = 0usize;

    // ---------------------------------------------------------------- (i) lexer
    let lex_inputs = gen::lexer_inputs(args.seed, args.thorough);
    let mut lex_cases: Vec<(u64, String, Option<Vec<Token>>)> = Vec::new();
    for (i, s) in lex_inputs.iter().enumerate() {
        let id = 1_000_000 + i as u64;
        if !keep(id) {
            continue;
        }
        sum.evaluations += 1;
        let n = s.chars().count();
        sum.count(match n {
            0..=1 => "lex_len_0_1",
            2..=15 => "lex_len_2_15",
            16..=63 => "lex_len_16_63",
            64..=255 => "lex_len_64_255",
            _ => "lex_len_256_plus",
        });
        if !s.is_ascii() {
            sum.count("lex_non_ascii");
        }
        if n >= 2 {
            sum.nontrivial(&format!("L{}", s));
        }
        match lex_real(s) {
            Ok(Ok(t)) => {
                sum.count("lex_ok");
                sum.count_n("lex_tokens", t.len() as u64);
                // property oracle on the implementation: shape of a successful run
                if t.last() != Some(&Token::Eof) || t.len() > n + 1 {
                    sum.finding("lexer-shape", id, format!("{} tokens for {} chars / last token {:?}", t.len(), n, t.last()), json!({"input": short(s)}));
                }
                lex_cases.push((id, s.clone(), Some(t)));
            }
            Ok(Err(())) => {
                sum.count("lex_err");
                lex_cases.push((id, s.clone(), None));
            }
            Err(msg) => {
                sum.count("lex_panic");
                sum.finding("lexer-panic", id, format!("Lexer::tokenize panicked: {}", msg), json!({"input": short(s)}));
                lex_cases.push((id, s.clone(), None));
            }
        }
        if i < 40 || i % 997 == 0 {
            log.log(id, json!({"kind": "lexer", "input": short(s)}));
        }
    }
    if let Some((_, s, Some(t))) = lex_cases.iter().find(|c| c.2.as_ref().map(|t| t.len() > 6).unwrap_or(false)) {
        sum.sample(json!({"kind": "lexer", "input": short(s), "tokens": format!("{:?}", t)}));
    }
    if only.is_none() {
        // whitespace table of core::char over all scalar values
        let mut ranges: Vec<(u32, u32)> = Vec::new();
        for cp in 0u32..=0x10FFFF {
            if let Some(c) = char::from_u32(cp) {
                if c.is_whitespace() {
                    match ranges.last_mut() {
                        Some(r) if r.1 + 1 == cp => r.1 = cp,
                        _ => ranges.push((cp, cp)),
                    }
                }
            }
        }
        sum.evaluations += 1;
        let per = 900;
        for (k, chunk) in lex_cases.chunks(per).enumerate() {
            let mut s = String::from(SHARD_HEAD);
            s.push_str(&uni_table(&mut chunk.iter().map(|c| &c.1)));
            s.push_str("Definition cases : list lex_case := [\n");
            let rows: Vec<String> = chunk
                .iter()
                .map(|(id, inp, obs)| {
                    let o = match obs {
                        Some(ts) => format!("Some [{}]", ts.iter().map(coq_token).collect::<Vec<_>>().join("; ")),
                        None => "None".to_string(),
                    };
                    format!("({}, {}, {})", id, codes(inp), o)
                })
                .collect();
            s.push_str(&rows.join(";\n"));
            s.push_str("].\n");
            if k == 0 {
                s.push_str(&format!(
                    "Definition impl_ws : list (Z * Z) := [{}].\nEval vm_compute in (ws_table_mismatch 9000001 impl_ws ++ lex_mismatches tbl cases).\n",
                    ranges.iter().map(|(a, b)| format!("({}, {})", a, b)).collect::<Vec<_>>().join("; ")
                ));
            } else {
                s.push_str("Eval vm_compute in (lex_mismatches tbl cases).\n");
            }
            write_shard(&args, shard_no, &s);
            shard_no += 1;
            sum.model_cases += chunk.len() as u64;
        }
    }

    // ---------------------------------------------------------------- (ii) parser stream in children
    let corpus = gen::corpus();
    sum.count_n("corpus_statements", corpus.len() as u64);
    let stream = gen::parser_stream(args.seed, args.thorough, &corpus);
    let mut p_inputs: Vec<(u64, String)> = Vec::new();
    let mut p_kind: HashMap<u64, &'static str> = HashMap::new();
    for (i, (kind, s)) in stream.into_iter().enumerate() {
        let id = 2_000_000 + i as u64;
        if keep(id) {
            p_kind.insert(id, kind);
            p_inputs.push((id, s));
        }
    }
    let pr = run_parallel(&exe, &dir, "p", "main", &p_inputs, workers);
    let mut child_spawns = pr.spawned;
    let classify = |sum: &mut Summary, id: u64, kind: &str, mode: &str, s: &str, o: &Obs| {
        sum.evaluations += 1;
        sum.count(&format!("parse_{}_{}", kind, o.tag()));
        if gen::lexeme_count(s) >= 3 {
            sum.nontrivial(&format!("P{}", s));
        }
        let case = json!({"kind": kind, "mode": mode, "input": short(s), "chars": s.chars().count()});
        match o {
            Obs::Ok | Obs::Err => {}
            Obs::Panic(msg) => {
                let class = if gen::hex_literal_panics(s) { "hex-literal-non-ascii-panic" } else { "parser-panic" };
                sum.finding(class, id, format!("Parser::parse_sql panicked: {}", msg), case);
            }
            Obs::Abort { stage, signal } => {
                let nest = gen::nesting_measure(s);
                let chain = gen::chain_measure(s);
                let min = if mode == "thread" { NEST_MIN_THREAD } else { NEST_MIN_MAIN };
                let class = if nest >= min {
                    "nesting-depth-stack-overflow"
                } else if *stage == "drop" && chain >= CHAIN_MIN {
                    "long-chain-drop-stack-overflow"
                } else {
                    "parser-abort"
                };
                sum.finding(class, id, format!("child process died (signal {}) during {} of a {}-char input with nesting measure {} / chain length {} on a {} stack", signal, stage, s.chars().count(), nest, chain, if mode == "thread" { "2 MiB thread" } else { "8 MiB main-thread" }), case);
            }
            Obs::Timeout => sum.finding("parser-timeout", id, "no answer within 2 s + 20 us/byte of CPU time (or 120 s wall)".into(), case),
            Obs::Lost => sum.finding("parser-child-lost", id, "child process failed outside the protocol".into(), case),
        }
    };
    for (id, s) in &p_inputs {
        let o = pr.obs.get(id).cloned().unwrap_or(Obs::Lost);
        let kind = p_kind[id];
        classify(&mut sum, *id, kind, "main", s, &o);
        if (*id % 1009) == 0 {
            log.log(*id, json!({"kind": kind, "input": short(s), "obs": o.tag()}));
        }
    }
    if let Some((id, s)) = p_inputs.iter().find(|(id, s)| p_kind[id] == "token-mutation" && s.len() > 30) {
        sum.sample(json!({"kind": "token-mutation", "input": short(s), "obs": pr.obs.get(id).map(|o| o.tag())}));
    }

    // ---------------------------------------------------------------- nesting ramps, both stack sizes
    let ramps = gen::ramps(args.thorough);
    let mut ramp_inputs: Vec<(u64, String)> = Vec::new();
    let mut ramp_meta: HashMap<u64, (&'static str, usize)> = HashMap::new();
    for (i, (construct, depth, s)) in ramps.into_iter().enumerate() {
        let id = 4_000_000 + i as u64;
        if keep(id) || keep(id + 500_000) {
            ramp_meta.insert(id, (construct, depth));
            ramp_inputs.push((id, s));
        }
    }
    // every ramp input gets its own slot in a child (an abort only costs that input)
    let mut abort_cases: Vec<(u64, String, bool)> = Vec::new();
    for mode in ["main", "thread"] {
        let off = if mode == "main" { 0 } else { 500_000 };
        let ins: Vec<(u64, String)> = ramp_inputs.iter().filter(|(id, _)| keep(id + off)).map(|(id, s)| (id + off, s.clone())).collect();
        let rr = run_parallel(&exe, &dir, &format!("r{}", mode), mode, &ins, workers);
        child_spawns += rr.spawned;
        for (id, s) in &ins {
            let o = rr.obs.get(id).cloned().unwrap_or(Obs::Lost);
            let (construct, depth) = ramp_meta[&(id - off)];
            sum.count(&format!("ramp_{}_{}_{}", mode, construct, o.tag()));
            classify(&mut sum, *id, "ramp", mode, s, &o);
            log.log(*id, json!({"kind": "ramp", "construct": construct, "depth": depth, "mode": mode, "obs": o.tag()}));
            if gen::SKEL_CONSTRUCTS.contains(&construct) && s.len() <= 1300 {
                if let Obs::Ok | Obs::Err | Obs::Abort { .. } = o {
                    abort_cases.push((*id, s.clone(), matches!(o, Obs::Abort { stage: "parse", .. })));
                }
            }
        }
    }

    // ---------------------------------------------------------------- thresholds (bisection) per construct and stack
    if only.is_none() {
        let constructs: Vec<&'static str> = gen::CONSTRUCTS.to_vec();
        let jobs: Vec<(&'static str, &'static str)> = constructs.iter().flat_map(|c| [(*c, "main"), (*c, "thread")]).collect();
        let exe2 = exe.clone();
        let dir2 = dir.clone();
        let results: Vec<(&'static str, &'static str, usize, usize, u64)> = std::thread::scope(|sc| {
            let hs: Vec<_> = jobs
                .iter()
                .enumerate()
                .map(|(j, (c, m))| {
                    let exe = exe2.clone();
                    let dir = dir2.clone();
                    sc.spawn(move || {
                        let (mut lo, mut hi) = (1usize, 150_000usize);
                        let mut spawned = 0;
                        let probe = |d: usize, spawned: &mut u64| -> bool {
                            let inp = vec![(7_000_000 + j as u64, gen::ramp_text(c, d))];
                            let r = run_in_children(&exe, &dir, &format!("b{}", j), m, &inp);
                            *spawned += r.spawned;
                            matches!(r.obs.get(&inp[0].0), Some(Obs::Ok) | Some(Obs::Err))
                        };
                        if probe(hi, &mut spawned) {
                            return (*c, *m, hi, usize::MAX, spawned);
                        }
                        while hi - lo > 1 {
                            let mid = (lo + hi) / 2;
                            if probe(mid, &mut spawned) {
                                lo = mid;
                            } else {
                                hi = mid;
                            }
                        }
                        (*c, *m, lo, hi, spawned)
                    })
                })
                .collect();
            hs.into_iter().map(|h| h.join().expect("bisect")).collect()
        });
        for (c, m, lo, hi, sp) in results {
            child_spawns += sp;
            sum.evaluations += sp;
            if hi == usize::MAX {
                sum.notes.push(format!("threshold {} on {} stack: no overflow up to depth {}", c, m, lo));
            } else {
                sum.notes.push(format!("threshold {} on {} stack: depth {} parses, depth {} kills the process", c, if m == "main" { "8 MiB main" } else { "2 MiB thread" }, lo, hi));
                sum.count_n(&format!("threshold_{}_{}", m, c), hi as u64);
            }
        }
    }

    // ---------------------------------------------------------------- is there a nesting limit in the implementation?
    // (none today: a 100000-deep input kills the child.  Once a limit such as fixes/C23-depth-limit.patch is
    // applied the same input is a ParseError; the deepest accepted parenthesis nesting p then gives the limit
    // l = p + 2 with which the model is run, so that the comparison describes the code as it is.)
    let lim: Option<usize> = {
        let probe = |d: usize| -> Option<bool> {
            let inp = vec![(8_000_000u64, gen::ramp_text("paren", d))];
            match run_in_children(&exe, &dir, "lim", "thread", &inp).obs.get(&8_000_000) {
                Some(Obs::Ok) => Some(true),
                Some(Obs::Err) => Some(false),
                _ => None,
            }
        };
        match probe(100_000) {
            Some(false) if probe(1) == Some(true) => {
                let (mut lo, mut hi) = (1usize, 100_000usize);
                let mut clean = true;
                while hi - lo > 1 {
                    let mid = (lo + hi) / 2;
                    match probe(mid) {
                        Some(true) => lo = mid,
                        Some(false) => hi = mid,
                        None => {
                            clean = false;
                            hi = mid;
                        }
                    }
                }
                if clean {
                    Some(lo + 2)
                } else {
                    None
                }
            }
            _ => None,
        }
    };
    let lim_coq = match lim {
        Some(l) => format!("(Some {}%nat)", l),
        None => "None".to_string(),
    };
    sum.notes.push(match lim {
        Some(l) => format!("the implementation rejects deep nesting with a ParseError: detected nesting limit {} (model run with lim = Some {})", l, l),
        None => "the implementation has no nesting limit (a 100000-deep input kills the process); model run with lim = None".to_string(),
    });

    // ---------------------------------------------------------------- (iii) skeleton: accept/reject + depth
    let soups = gen::skeleton_soups(args.seed, args.thorough);
    let mut sk_inputs: Vec<(u64, String)> = Vec::new();
    for (i, s) in soups.into_iter().enumerate() {
        let id = 3_000_000 + i as u64;
        if keep(id) {
            sk_inputs.push((id, s));
        }
    }
    let sr = run_parallel(&exe, &dir, "s", "main", &sk_inputs, workers);
    child_spawns += sr.spawned;
    let mut skel_cases: Vec<(u64, String, bool, bool)> = Vec::new();
    for (id, s) in &sk_inputs {
        let o = sr.obs.get(id).cloned().unwrap_or(Obs::Lost);
        classify(&mut sum, *id, "skeleton-soup", "main", s, &o);
        let claim = gen::in_skeleton_alphabet(s);
        if claim {
            sum.count("skeleton_in_alphabet");
        }
        match o {
            Obs::Ok => {
                sum.count("skeleton_accept");
                skel_cases.push((*id, s.clone(), claim, true));
            }
            Obs::Err => {
                sum.count("skeleton_reject");
                skel_cases.push((*id, s.clone(), claim, false));
            }
            _ => {}
        }
        if (*id % 499) == 0 {
            log.log(*id, json!({"kind": "skeleton-soup", "input": short(s), "obs": o.tag()}));
        }
    }
    if let Some((_, s, _, acc)) = skel_cases.iter().find(|c| c.2 && c.3 && c.1.len() > 25) {
        sum.sample(json!({"kind": "skeleton-soup", "input": s, "accepted": acc}));
    }
    // measured stack high-water marks for pairs of depths
    let mut depth_cases: Vec<(u64, String, usize, String, usize)> = Vec::new();
    if only.is_none() {
        let pairs = gen::measure_pairs(lim);
        let mut m_inputs: Vec<(u64, String)> = Vec::new();
        for (i, (_, d1, d2)) in pairs.iter().enumerate() {
            let c = pairs[i].0;
            m_inputs.push((5_000_000 + 2 * i as u64, gen::ramp_text(c, *d1)));
            m_inputs.push((5_000_001 + 2 * i as u64, gen::ramp_text(c, *d2)));
        }
        let mut mr = run_parallel(&exe, &dir, "m", "measure", &m_inputs, workers);
        child_spawns += mr.spawned;
        // a measurement can fail for reasons that have nothing to do with the parser (memory pressure on a
        // loaded machine): retry the missing ones, sequentially
        for attempt in 0..3 {
            let missing: Vec<(u64, String)> = m_inputs.iter().filter(|(id, _)| !mr.bytes.contains_key(id)).cloned().collect();
            if missing.is_empty() {
                break;
            }
            let again = run_in_children(&exe, &dir, &format!("m_retry{}", attempt), "measure", &missing);
            child_spawns += again.spawned;
            mr.bytes.extend(again.bytes);
        }
        let mut measured = 0;
        for (i, (c, d1, d2)) in pairs.iter().enumerate() {
            let (ia, ib) = (5_000_000 + 2 * i as u64, 5_000_001 + 2 * i as u64);
            sum.evaluations += 2;
            match (mr.bytes.get(&ia), mr.bytes.get(&ib)) {
                (Some(a), Some(b)) => {
                    let per = (*b as f64 - *a as f64) / ((d2 - d1) as f64);
                    sum.notes.push(format!("stack high-water {}: depth {} -> {} bytes, depth {} -> {} bytes ({:.0} bytes per nesting level)", c, d1, a, d2, b, per));
                    sum.count_n(&format!("stack_bytes_per_level_{}", c), per.max(0.0) as u64);
                    // oracle on the implementation: stack use grows with the nesting depth (no cut-off)
                    if b <= a && lim.is_none() {
                        sum.finding("stack-not-growing", ia, format!("{}: measured stack did not grow between depth {} and {}", c, d1, d2), json!({"construct": c}));
                    }
                    depth_cases.push((ia, m_inputs[2 * i].1.clone(), *a, m_inputs[2 * i + 1].1.clone(), *b));
                    log.log(ia, json!({"kind": "measure", "construct": c, "depths": [d1, d2], "bytes": [a, b]}));
                }
                _ => {
                    sum.count("measure_skipped");
                    sum.notes.push(format!("stack measurement for {} failed 4 times (skipped)", c));
                    continue;
                }
            }
            measured += 1;
        }
        if measured == 0 {
            sum.finding("measure-failed", 5_000_000, "no stack measurement succeeded".into(), json!({"constructs": pairs.len()}));
        }
    }
    if only.is_none() {
        for chunk in skel_cases.chunks(700) {
            let mut s = String::from(SHARD_HEAD);
            s.push_str(&uni_table(&mut chunk.iter().map(|c| &c.1)));
            s.push_str("Definition cases : list skel_case := [\n");
            s.push_str(&chunk.iter().map(|(id, inp, claim, acc)| format!("({}, {}, {}, {})", id, codes(inp), bool_lit(*claim), bool_lit(*acc))).collect::<Vec<_>>().join(";\n"));
            s.push_str(&format!("].\nEval vm_compute in (skel_mismatches {} tbl cases).\n", lim_coq));
            write_shard(&args, shard_no, &s);
            shard_no += 1;
            sum.model_cases += chunk.len() as u64;
        }
        let mut s = String::from(SHARD_HEAD);
        s.push_str("Definition tbl : uni_table := [].\n");
        s.push_str("Definition dcases : list depth_case := [\n");
        s.push_str(&depth_cases.iter().map(|(id, a, ba, b, bb)| format!("({}, {}, {}, {}, {})", id, codes(a), ba, codes(b), bb)).collect::<Vec<_>>().join(";\n"));
        s.push_str("].\nDefinition acases : list abort_case := [\n");
        s.push_str(&abort_cases.iter().map(|(id, a, ab)| format!("({}, {}, {})", id, codes(a), bool_lit(*ab))).collect::<Vec<_>>().join(";\n"));
        // bytes per model frame: between 16 B and 64 KiB; aborting inputs are >= 150 frames deep, inputs
        // of <= 60 frames never abort
        s.push_str(&format!("].\nEval vm_compute in (depth_mismatches {} tbl 16 65536 dcases ++ abort_mismatches {} tbl 60 150 acases).\n", lim_coq, lim_coq));
        write_shard(&args, shard_no, &s);
        sum.model_cases += (depth_cases.len() + abort_cases.len()) as u64;
    }

    sum.count_n("child_processes", child_spawns);
    sum.notes.push(format!("harness wall time {:.1} s; {} child processes", t0.elapsed().as_secs_f64(), child_spawns));
    let mut dist: BTreeMap<String, u64> = BTreeMap::new();
    std::mem::swap(&mut dist, &mut sum.distribution);
    sum.distribution = dist;
    sum.write(&args);
}
