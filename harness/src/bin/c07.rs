//! C07: aggregates and grouping follow their SQL definitions on every input.
//! Tables of INTEGER / DOUBLE PRECISION / VARCHAR columns (NULL densities 0 / 30% / 100%, empty tables,
//! duplicates, -0.0 / 0.0, 100+ rows so that the columnar path is also reached) are loaded through the
//! storage API; single-table aggregate queries run through the executor; the result rows go to Coq,
//! where they are compared with the accumulator / grouping model (Mech/Accumulator.v).
use serde_json::json;
use vh::out::*;
use vh::rng::Rng;
use vh::sql::{self, Outcome};
use vibesql_storage::{Database, Row};
use vibesql_types::SqlValue;

#[derive(Clone, Copy, PartialEq, Debug)]
enum Ty {
    Int,
    Dbl,
    Real, // REAL column: SqlValue::Real(f32); quarter values are exact in f32 too
    Str,
}

#[derive(Clone, Debug)]
enum V {
    Null,
    Int(i64),
    Q(i64, bool), // quarter-valued double k/4; the flag marks a negative zero
    R(i64, bool), // the same as a REAL (f32) value
    Str(String),
}

fn sqlv(v: &V) -> SqlValue {
    match v {
        V::Null => SqlValue::Null,
        V::Int(i) => SqlValue::Integer(*i),
        V::Q(k, negz) => SqlValue::Double(if *k == 0 && *negz { -0.0 } else { *k as f64 / 4.0 }),
        V::R(k, negz) => SqlValue::Real(if *k == 0 && *negz { -0.0 } else { *k as f32 / 4.0 }),
        V::Str(s) => SqlValue::Varchar(s.clone()),
    }
}

fn coq_v(v: &V) -> String {
    match v {
        V::Null => "VNull".into(),
        V::Int(i) => format!("VInt ({})", i * 4),
        V::Q(k, _) | V::R(k, _) => format!("VInt ({})", k),
        V::Str(s) => format!("VStr [{}]", s.bytes().map(|b| b.to_string()).collect::<Vec<_>>().join("; ")),
    }
}

fn sql_lit(v: &V) -> String {
    match v {
        V::Null => "NULL".into(),
        V::Int(i) => format!("{}", i),
        V::Q(k, _) | V::R(k, _) => format!("{:?}", *k as f64 / 4.0),
        V::Str(s) => format!("'{}'", s),
    }
}

fn gen_v(r: &mut Rng, t: Ty, null_pct: u64) -> V {
    if r.below(100) < null_pct {
        return V::Null;
    }
    match t {
        Ty::Int => V::Int(r.range(-3, 8)),
        Ty::Dbl => {
            let k = r.range(-12, 32);
            V::Q(k, k == 0 && r.chance(1, 2))
        }
        Ty::Real => {
            let k = r.range(-6, 12);
            V::R(k, k == 0 && r.chance(1, 2))
        }
        Ty::Str => V::Str(r.pick(&["", "a", "A", "ab", "b", "ba", "c"]).to_string()),
    }
}

/// exact dyadic (m, e) of an f64: value = m * 2^e
fn dyadic(f: f64) -> Option<(i64, i64)> {
    if !f.is_finite() {
        return None;
    }
    if f == 0.0 {
        return Some((0, 0));
    }
    let bits = f.to_bits();
    let sign = if bits >> 63 == 1 { -1i64 } else { 1 };
    let exp = ((bits >> 52) & 0x7ff) as i64;
    let frac = (bits & ((1u64 << 52) - 1)) as i64;
    if exp == 0 {
        Some((sign * frac, -1074))
    } else {
        Some((sign * (frac | (1i64 << 52)), exp - 1075))
    }
}

fn coq_oval(v: &SqlValue) -> String {
    match v {
        SqlValue::Null => "ONull".into(),
        SqlValue::Integer(i) | SqlValue::Bigint(i) => format!("(ODy ({}) 0)", i),
        SqlValue::Smallint(i) => format!("(ODy ({}) 0)", i),
        SqlValue::Double(f) | SqlValue::Numeric(f) => match dyadic(*f) {
            Some((m, e)) => format!("(ODy ({}) ({}))", m, e),
            None => "OOther".into(),
        },
        SqlValue::Float(f) | SqlValue::Real(f) => match dyadic(*f as f64) {
            Some((m, e)) => format!("(ODy ({}) ({}))", m, e),
            None => "OOther".into(),
        },
        SqlValue::Varchar(s) | SqlValue::Character(s) => format!("(OStr [{}])", s.bytes().map(|b| b.to_string()).collect::<Vec<_>>().join("; ")),
        _ => "OOther".into(),
    }
}

#[derive(Clone, Debug)]
enum Sel {
    CountStar,
    Agg(&'static str, bool, usize),
    Sum2(&'static str, bool, usize, usize),
}

fn main() {
    let args = parse_args();
    quiet_panics();
    let mut sum = Summary::default();
    sum.nontrivial_rule = "a case is (table contents, aggregate query); distinct = distinct (table, SQL); non-trivial = at least one row passes the filter, or the table is empty / all-NULL on an aggregated column (the edge cases the property names)".into();
    let mut log = CaseLog::new(&args);
    let ntab = if args.thorough { 1600 } else { 260 };
    let per_tab = 10;
    let nshards = 16;
    let header = "From Coq Require Import List ZArith.\nImport ListNotations.\nOpen Scope Z_scope.\nFrom VibeSQL Require Import Sem.Syntax Sem.Rel Mech.Accumulator Run.C07Run.\n".to_string();
    let mut shards: Vec<String> = (0..nshards).map(|_| header.clone()).collect();
    let mut shard_lists: Vec<Vec<String>> = (0..nshards).map(|_| Vec::new()).collect();
    let mut id: u64 = 0;
    for k in 0..ntab {
        let mut r = Rng::new(args.seed, &format!("c07/tab/{}", k));
        let ncols = 2 + r.below(4) as usize;
        let tys: Vec<Ty> = (0..ncols).map(|_| *r.pick(&[Ty::Int, Ty::Int, Ty::Dbl, Ty::Dbl, Ty::Real, Ty::Str])).collect();
        let nulls: Vec<u64> = (0..ncols).map(|_| *r.pick(&[0u64, 0, 30, 30, 60, 100])).collect();
        let nrows = match r.below(10) {
            0 => 0,
            1 => 1,
            2..=6 => 2 + r.below(12) as usize,
            _ => 100 + r.below(70) as usize,
        };
        let rows: Vec<Vec<V>> = (0..nrows).map(|_| (0..ncols).map(|c| gen_v(&mut r, tys[c], nulls[c])).collect()).collect();
        let mut db = Database::new();
        let cols_sql: Vec<String> = tys.iter().enumerate().map(|(i, t)| format!("c{} {}", i, match t { Ty::Int => "INTEGER", Ty::Dbl => "DOUBLE PRECISION", Ty::Real => "REAL", Ty::Str => "VARCHAR(10)" })).collect();
        sql::must(&mut db, &format!("CREATE TABLE t ({})", cols_sql.join(", ")));
        for row in &rows {
            db.insert_row("T", Row::new(row.iter().map(sqlv).collect())).expect("insert_row");
        }
        let rows_coq = format!("[{}]", rows.iter().map(|row| format!("[{}]", row.iter().map(coq_v).collect::<Vec<_>>().join("; "))).collect::<Vec<_>>().join(";\n  "));
        let s = k % nshards;
        shards[s].push_str(&format!("Definition rows{} : list row := {}.\n", k, rows_coq));
        sum.count(&format!("rows:{}", if nrows == 0 { "0" } else if nrows == 1 { "1" } else if nrows < 100 { "2-13" } else { "100+" }));
        let numeric: Vec<usize> = (0..ncols).filter(|c| tys[*c] != Ty::Str).collect();
        for _ in 0..per_tab {
            // filter
            let flt: Option<(usize, &'static str, &'static str, V)> = if r.chance(2, 5) {
                let c = r.below(ncols as u64) as usize;
                let (op, opc) = *r.pick(&[("=", "OEq"), ("<>", "ONe"), ("<", "OLt"), ("<=", "OLe"), (">", "OGt"), (">=", "OGe")]);
                let mut lit = gen_v(&mut r, tys[c], 0);
                if let V::Q(k2, _) = lit {
                    lit = V::Q(k2, false);
                }
                if let V::R(k2, _) = lit {
                    lit = V::R(k2, false);
                }
                // negative literals are written with a leading minus, which the executor folds
                Some((c, op, opc, lit))
            } else {
                None
            };
            // constant predicates (1 = 0, 1 = 1, NULL comparisons): the optimizer folds them before the
            // aggregation runs; the model then sees no row (or every row)
            let constant: Option<(&'static str, bool)> = if flt.is_none() && r.chance(1, 6) { Some(*r.pick(&[("1 = 0", false), ("1 = 1", true), ("2 < 1", false), ("NULL = 1", false), ("NOT (1 = 0)", true), ("1 = 0 AND c0 = c0", false)])) } else { None };
            let grouped = r.chance(3, 5);
            let nkeys = if grouped { 1 + r.below(2.min(ncols as u64)) as usize } else { 0 };
            let mut keys: Vec<usize> = Vec::new();
            while keys.len() < nkeys {
                let c = r.below(ncols as u64) as usize;
                if !keys.contains(&c) {
                    keys.push(c);
                }
            }
            let nsel = 1 + r.below(4) as usize;
            let mut sels: Vec<Sel> = Vec::new();
            for _ in 0..nsel {
                let dst = r.chance(1, 4);
                let pick = r.below(10);
                let sel = match pick {
                    0 => Sel::CountStar,
                    1 => Sel::Agg("COUNT", dst, r.below(ncols as u64) as usize),
                    2..=3 if !numeric.is_empty() => Sel::Agg("SUM", dst, *r.pick(&numeric)),
                    4..=5 if !numeric.is_empty() => Sel::Agg("AVG", dst, *r.pick(&numeric)),
                    6 => Sel::Agg("MIN", dst, r.below(ncols as u64) as usize),
                    7 => Sel::Agg("MAX", dst, r.below(ncols as u64) as usize),
                    8 if numeric.len() >= 2 => {
                        let a = *r.pick(&numeric);
                        let b = *r.pick(&numeric);
                        Sel::Sum2(*r.pick(&["SUM", "AVG", "MIN", "MAX", "COUNT"]), false, a, b)
                    }
                    _ => Sel::CountStar,
                };
                sels.push(sel);
            }
            let sel_sql: Vec<String> = sels
                .iter()
                .map(|s| match s {
                    Sel::CountStar => "COUNT(*)".to_string(),
                    Sel::Agg(f, d, c) => format!("{}({}c{})", f, if *d { "DISTINCT " } else { "" }, c),
                    Sel::Sum2(f, _, a, b) => format!("{}(c{} + c{})", f, a, b),
                })
                .collect();
            let key_sql: Vec<String> = keys.iter().map(|c| format!("c{}", c)).collect();
            let mut q = format!("SELECT {} FROM t", key_sql.iter().cloned().chain(sel_sql.iter().cloned()).collect::<Vec<_>>().join(", "));
            if let Some((c, op, _, lit)) = &flt {
                q.push_str(&format!(" WHERE c{} {} {}", c, op, sql_lit(lit)));
            }
            if let Some((text, _)) = &constant {
                q.push_str(&format!(" WHERE {}", text));
                sum.count("where:constant-predicate");
            }
            if grouped {
                q.push_str(&format!(" GROUP BY {}", key_sql.join(", ")));
            }
            let this = id;
            id += 1;
            let selected = args.only.as_ref().map(|o| o.contains(&this)).unwrap_or(false);
            let out = sql::exec(&mut db, &q);
            sum.evaluations += 1;
            let fcoq = |f: &str| match f { "COUNT" => "FCount", "SUM" => "FSum", "AVG" => "FAvg", "MIN" => "FMin", _ => "FMax" };
            let sels_coq: Vec<String> = sels
                .iter()
                .map(|s| match s {
                    Sel::CountStar => "SCountStar".to_string(),
                    Sel::Agg(f, d, c) => format!("SAgg {} {} {}%nat", fcoq(f), d, c),
                    Sel::Sum2(f, d, a, b) => format!("SAggSum2 {} {} {}%nat {}%nat", fcoq(f), d, a, b),
                })
                .collect();
            let flt_coq = match &flt {
                None => "None".to_string(),
                Some((c, _, opc, lit)) => format!("(Some ({}%nat, {}, {}))", c, opc, coq_v(lit)),
            };
            let obs_coq = match &out {
                Outcome::Rows(rs) => format!("(C07Rows [{}])", rs.iter().map(|row| format!("[{}]", row.iter().map(coq_oval).collect::<Vec<_>>().join("; "))).collect::<Vec<_>>().join("; ")),
                Outcome::Panic(_) => "C07Panic".to_string(),
                _ => "C07Err".to_string(),
            };
            let case_coq = format!(
                "{{| cid := {}; crows := {}; cflt := {}; ckeys := [{}]; cgrouped := {}; csels := [{}]; cobs := {} |}}",
                this,
                if matches!(constant, Some((_, false))) { "[]".to_string() } else { format!("rows{}", k) },
                flt_coq,
                keys.iter().map(|c| format!("{}%nat", c)).collect::<Vec<_>>().join("; "),
                grouped,
                sels_coq.join("; "),
                obs_coq
            );
            shard_lists[s].push(case_coq.clone());
            sum.model_cases += 1;
            let case = json!({"classes": Vec::<&str>::new(), "sql": q, "columns": cols_sql, "rows": rows.iter().take(170).map(|r| r.iter().map(sql_lit).collect::<Vec<_>>().join(", ")).collect::<Vec<_>>(), "outcome": out.tag(),
                "result": match &out { Outcome::Rows(rs) => format!("{:?}", rs.iter().take(30).collect::<Vec<_>>()), Outcome::Err(_, m) => m.clone(), Outcome::Panic(m) => m.clone(), _ => String::new() }});
            log.log(this, case.clone());
            if selected {
                let tt = format!("{}Definition rows{} : list row := {}.\nEval vm_compute in (c07_expected {}).\n", header, k, rows_coq, case_coq);
                std::fs::write(args.out.join(format!("only_{}.v", this)), tt).unwrap();
                println!("case {}: {}\n  table: {:?}\n  rows: {}\n  outcome: {:?}", this, q, cols_sql, rows.iter().take(40).map(|r| format!("({})", r.iter().map(sql_lit).collect::<Vec<_>>().join(","))).collect::<Vec<_>>().join(" "), out);
            }
            // ---- direct checks on the implementation ----
            let passing = rows
                .iter()
                .filter(|_| !matches!(constant, Some((_, false))))
                .filter(|row| match &flt {
                    None => true,
                    Some((c, op, _, lit)) => {
                        let ord = match (&row[*c], lit) {
                            (V::Int(a), V::Int(b)) => Some((a * 4).cmp(&(b * 4))),
                            (V::Q(a, _), V::Q(b, _)) | (V::R(a, _), V::R(b, _)) => Some(a.cmp(b)),
                            (V::Str(a), V::Str(b)) => Some(a.as_bytes().cmp(b.as_bytes())),
                            _ => None,
                        };
                        match ord {
                            None => false,
                            Some(o) => match *op {
                                "=" => o.is_eq(),
                                "<>" => o.is_ne(),
                                "<" => o.is_lt(),
                                "<=" => o.is_le(),
                                ">" => o.is_gt(),
                                _ => o.is_ge(),
                            },
                        }
                    }
                })
                .count();
            match &out {
                Outcome::Panic(m) => sum.finding("panic", this, format!("aggregate query panicked: {}", m), case.clone()),
                Outcome::Err(_, m) => sum.finding("aggregate-query-error", this, format!("aggregate query failed: {}", m), case.clone()),
                Outcome::Rows(rs) => {
                    if !grouped && rs.len() != 1 {
                        sum.finding("no-group-by-not-one-row", this, format!("an aggregate query without GROUP BY returned {} rows", rs.len()), case.clone());
                    }
                    if !grouped {
                        for (i, s2) in sels.iter().enumerate() {
                            if let (Sel::CountStar, Some(row)) = (s2, rs.first()) {
                                if sql::num_of(&row[i]) != Some(passing as f64) {
                                    sum.finding("count-star-wrong", this, format!("COUNT(*) = {:?} but {} rows pass the filter", row[i], passing), case.clone());
                                }
                            }
                        }
                    }
                    for row in rs {
                        for (i, s2) in sels.iter().enumerate() {
                            let is_count = matches!(s2, Sel::CountStar | Sel::Agg("COUNT", _, _) | Sel::Sum2("COUNT", _, _, _));
                            if is_count && matches!(row[keys.len() + i], SqlValue::Null) {
                                sum.finding("count-is-null", this, "a COUNT aggregate returned NULL".into(), case.clone());
                            }
                        }
                    }
                }
                _ => {}
            }
            let edge = nrows == 0 || sels.iter().any(|s2| match s2 { Sel::Agg(_, _, c) => nulls[*c] == 100, _ => false });
            if passing > 0 || edge {
                sum.nontrivial(&format!("{}|{}", k, q));
            }
            for s2 in &sels {
                sum.count(&format!("agg:{}", match s2 { Sel::CountStar => "COUNT(*)".to_string(), Sel::Agg(f, d, _) => format!("{}{}", f, if *d { " DISTINCT" } else { "" }), Sel::Sum2(f, _, _, _) => format!("{}(a+b)", f) }));
            }
            sum.count(if grouped { "shape:group-by" } else { "shape:scalar" });
            if edge {
                sum.count("edge:empty-or-all-null");
            }
            if sum.samples.len() < 5 && passing > 0 && k % 7 == 3 {
                sum.sample(json!({"sql": q, "outcome": out.tag()}));
            }
        }
    }
    if args.only.is_none() {
        for s in 0..nshards {
            if !shard_lists[s].is_empty() {
                shards[s].push_str(&format!("Eval vm_compute in (c07_mismatches [\n{}]).\n", shard_lists[s].join(";\n")));
                write_shard(&args, s, &shards[s]);
            }
        }
    }
    sum.write(&args);
}
