//! C05: families of equivalent formulations (comma-join permutations, JOIN vs WHERE, derived-table
//! wrapping, IN / EXISTS / NOT IN / NOT EXISTS) must return the same bag on the executor, and each
//! member must agree with the reference semantics.
use serde_json::json;
use std::collections::BTreeMap;
use vh::out::*;
use vh::qgen::*;
use vh::rng::Rng;
use vh::semrun::*;

/// Rewrite the column indices of the references to the row `level` levels out.
fn remap(e: &Expr, level: usize, f: &dyn Fn(usize) -> usize) -> Expr {
    let r = |x: &Expr| Box::new(remap(x, level, f));
    match e {
        Expr::Col(d, i) => {
            if *d == level {
                Expr::Col(*d, f(*i))
            } else {
                e.clone()
            }
        }
        Expr::Const(_) => e.clone(),
        Expr::Bin(op, a, b) => Expr::Bin(*op, r(a), r(b)),
        Expr::Not(a) => Expr::Not(r(a)),
        Expr::IsNull(a, n) => Expr::IsNull(r(a), *n),
        Expr::Between(a, b, c, n) => Expr::Between(r(a), r(b), r(c), *n),
        Expr::InList(a, l, n) => Expr::InList(r(a), l.iter().map(|x| remap(x, level, f)).collect(), *n),
        Expr::Case(ws, els) => Expr::Case(ws.iter().map(|(c, t)| (remap(c, level, f), remap(t, level, f))).collect(), els.as_ref().map(|x| r(x))),
        Expr::Coalesce(l) => Expr::Coalesce(l.iter().map(|x| remap(x, level, f)).collect()),
        // the families are generated without subqueries in the remapped parts
        Expr::Scalar(_) | Expr::InSub(..) | Expr::Exists(..) => e.clone(),
    }
}

/// `e` moved one query level inwards: every reference goes one level further out.
fn shift(e: &Expr) -> Expr {
    let r = |x: &Expr| Box::new(shift(x));
    match e {
        Expr::Col(d, i) => Expr::Col(d + 1, *i),
        Expr::Const(_) => e.clone(),
        Expr::Bin(op, a, b) => Expr::Bin(*op, r(a), r(b)),
        Expr::Not(a) => Expr::Not(r(a)),
        Expr::IsNull(a, n) => Expr::IsNull(r(a), *n),
        Expr::Between(a, b, c, n) => Expr::Between(r(a), r(b), r(c), *n),
        Expr::InList(a, l, n) => Expr::InList(r(a), l.iter().map(shift).collect(), *n),
        Expr::Case(ws, els) => Expr::Case(ws.iter().map(|(c, t)| (shift(c), shift(t))).collect(), els.as_ref().map(|x| r(x))),
        Expr::Coalesce(l) => Expr::Coalesce(l.iter().map(shift).collect()),
        Expr::Scalar(_) | Expr::InSub(..) | Expr::Exists(..) => e.clone(),
    }
}

fn and(a: Option<Expr>, b: Expr) -> Expr {
    match a {
        Some(a) => Expr::Bin(BinOp::And, Box::new(a), Box::new(b)),
        None => b,
    }
}

fn plain(from: Vec<From>, where_: Option<Expr>, proj: Vec<Expr>) -> Query {
    Query::Select(Select { distinct: false, from, where_, grouping: None, having: None, proj, order: vec![], limit: None, offset: None })
}

/// `column op value` over the joined row of tables `ta`, `tb`, with a value that occurs in that column (so
/// the predicate is TRUE for some rows and not for others)
fn present_pred(r: &mut Rng, d: &DbDef, ta: usize, tb: usize, wa: usize, tys: &[Ty]) -> Expr {
    let i = r.below(tys.len() as u64) as usize;
    let (t, c) = if i < wa { (ta, i) } else { (tb, i - wa) };
    let rows = &d.tables[t].rows;
    let v = if rows.is_empty() { gen_val(r, tys[i], 0) } else { rows[r.below(rows.len() as u64) as usize][c].clone() };
    let v = if matches!(v, Val::Null) { gen_val(r, tys[i], 0) } else { v };
    let op = *r.pick(&[BinOp::Eq, BinOp::Eq, BinOp::Le, BinOp::Gt, BinOp::Ne]);
    Expr::Bin(op, Box::new(Expr::Col(0, i)), Box::new(Expr::Const(v)))
}

fn bag(rows: &[Vec<Val>]) -> BTreeMap<String, i64> {
    let mut m = BTreeMap::new();
    for r in rows {
        *m.entry(format!("{:?}", r)).or_insert(0) += 1;
    }
    m
}

fn main() {
    let args = parse_args();
    quiet_panics();
    let mut sum = Summary::default();
    sum.nontrivial_rule = "a case is a family of equivalent queries over one database (kinds: from-permutation, join-as-where, derived-wrap, in-exists, not-in-not-exists); distinct = distinct (db, SQL of all members); non-trivial = the members return at least one row and the family's WHERE / subquery is neither always true nor always false on the database (the result is a proper non-empty subset of the unfiltered result)".into();
    let mut log = CaseLog::new(&args);
    let ndb = if args.thorough { 1600 } else { 260 };
    let per_db = 8;
    let nshards = 16;
    let mut shards: Vec<String> = (0..nshards).map(|_| String::from(SHARD_HEADER)).collect();
    let mut shard_lists: Vec<Vec<String>> = (0..nshards).map(|_| Vec::new()).collect();
    let mut id: u64 = 0;
    let nocfg = GenCfg { subqueries: false, setops: false, grouping: false, order: false, limit: false, distinct: false, ..GenCfg::default() };
    for k in 0..ndb {
        let mut r = Rng::new(args.seed, &format!("c05/db/{}", k));
        // every tenth database is larger (hash-join / reordering heuristics depend on sizes)
        let big = k % 10 == 9;
        let dbdef = gen_db(&mut r, 3, if big { 30 } else { 7 });
        let mut db = load_db(&dbdef);
        // every other database also has secondary indexes (results must not depend on them)
        let index_ddl = if k % 2 == 1 { add_random_indexes(&mut db, &dbdef, &mut r, "c05") } else { Vec::new() };
        if !index_ddl.is_empty() {
            sum.count("database:with-indexes");
        }
        let mut cases = Vec::new();
        for _ in 0..per_db {
            let kind = r.below(5);
            let mut members: Vec<(&str, Query)> = Vec::new();
            let mut unfiltered: Option<Query> = None;
            match kind {
                0 => {
                    // FROM permutation of 2-3 base tables
                    let n = 2 + r.below(if big { 1 } else { 2 }) as usize;
                    let mut from = Vec::new();
                    let mut tys = Vec::new();
                    let mut offs = Vec::new();
                    for _ in 0..n {
                        let t = r.below(dbdef.tables.len() as u64) as usize;
                        offs.push(tys.len());
                        tys.extend(dbdef.tables[t].cols.clone());
                        from.push(From::Table(t, dbdef.tables[t].cols.len()));
                    }
                    let scopes = vec![tys.clone()];
                    let (w, proj) = {
                        let mut g = Gen { r: &mut r, db: &dbdef, cfg: nocfg.clone() };
                        let w = g.expr(Ty::Bool, &scopes, 1);
                        let np = 1 + g.r.below(3) as usize;
                        let proj: Vec<Expr> = (0..np).map(|_| { let t = if g.r.chance(3, 4) { Ty::Int } else { Ty::Str }; g.expr(t, &scopes, 1) }).collect();
                        (w, proj)
                    };
                    members.push(("original", plain(from.clone(), Some(w.clone()), proj.clone())));
                    unfiltered = Some(plain(from.clone(), None, proj.clone()));
                    // a random permutation of the FROM items (not the identity when n > 1)
                    let mut perm: Vec<usize> = (0..n).collect();
                    for i in 0..n {
                        let j = i + r.below((n - i) as u64) as usize;
                        perm.swap(i, j);
                    }
                    if perm.iter().enumerate().all(|(i, p)| i == *p) {
                        perm.rotate_left(1);
                    }
                    let widths: Vec<usize> = from.iter().map(|f| f.width()).collect();
                    let mut new_off = vec![0usize; n];
                    let mut acc = 0;
                    for &p in &perm {
                        new_off[p] = acc;
                        acc += widths[p];
                    }
                    let offs2 = offs.clone();
                    let f = move |i: usize| -> usize {
                        let item = (0..n).rev().find(|t| offs2[*t] <= i).unwrap();
                        new_off[item] + (i - offs2[item])
                    };
                    let from2: Vec<From> = perm.iter().map(|p| from[*p].clone()).collect();
                    members.push(("permuted", plain(from2, Some(remap(&w, 0, &f)), proj.iter().map(|p| remap(p, 0, &f)).collect())));
                }
                1 => {
                    // A JOIN B ON c [, C] WHERE w   vs   A, B [, C] WHERE c AND w
                    let ta = r.below(dbdef.tables.len() as u64) as usize;
                    let tb = r.below(dbdef.tables.len() as u64) as usize;
                    let (wa, wb) = (dbdef.tables[ta].cols.len(), dbdef.tables[tb].cols.len());
                    let mut tys: Vec<Ty> = dbdef.tables[ta].cols.clone();
                    tys.extend(dbdef.tables[tb].cols.clone());
                    let jscope = vec![tys.clone()];
                    let third = if !big && r.chance(1, 3) { Some(r.below(dbdef.tables.len() as u64) as usize) } else { None };
                    if let Some(tc) = third {
                        tys.extend(dbdef.tables[tc].cols.clone());
                    }
                    let scopes = vec![tys.clone()];
                    let (on, w, proj) = {
                        let mut g = Gen { r: &mut r, db: &dbdef, cfg: nocfg.clone() };
                        // mostly equi-conditions (hash join path), sometimes arbitrary
                        let on = if g.r.chance(2, 3) {
                            let ia: Vec<usize> = (0..wa).filter(|i| jscope[0][*i] == Ty::Int).collect();
                            let ib: Vec<usize> = (wa..wa + wb).filter(|i| jscope[0][*i] == Ty::Int).collect();
                            if !ia.is_empty() && !ib.is_empty() {
                                let eq = Expr::Bin(BinOp::Eq, Box::new(Expr::Col(0, *g.r.pick(&ia))), Box::new(Expr::Col(0, *g.r.pick(&ib))));
                                match g.r.below(6) {
                                    0..=1 => Expr::Bin(BinOp::And, Box::new(eq), Box::new(g.expr(Ty::Bool, &jscope, 1))),
                                    // disjunctions around an equi-condition: (eq AND p) OR q, eq OR q, (eq AND p) OR (eq' AND q):
                                    // the hash-join analysis of OR conditions must not lose the branches without an equi-join
                                    2 => {
                                        let p1 = present_pred(g.r, &dbdef, ta, tb, wa, &jscope[0]);
                                        let q1 = present_pred(g.r, &dbdef, ta, tb, wa, &jscope[0]);
                                        Expr::Bin(BinOp::Or, Box::new(Expr::Bin(BinOp::And, Box::new(eq), Box::new(p1))), Box::new(q1))
                                    }
                                    3 => {
                                        let q1 = present_pred(g.r, &dbdef, ta, tb, wa, &jscope[0]);
                                        if g.r.chance(1, 2) { Expr::Bin(BinOp::Or, Box::new(eq), Box::new(q1)) } else { Expr::Bin(BinOp::Or, Box::new(q1), Box::new(eq)) }
                                    }
                                    _ => eq,
                                }
                            } else {
                                g.expr(Ty::Bool, &jscope, 1)
                            }
                        } else {
                            g.expr(Ty::Bool, &jscope, 2)
                        };
                        let w = if g.r.chance(1, 2) { Some(g.expr(Ty::Bool, &scopes, 1)) } else { None };
                        let np = 1 + g.r.below(3) as usize;
                        let proj: Vec<Expr> = (0..np).map(|_| { let t = if g.r.chance(3, 4) { Ty::Int } else { Ty::Str }; g.expr(t, &scopes, 1) }).collect();
                        (on, w, proj)
                    };
                    let mut from1 = vec![From::Join(JoinKind::Inner, Box::new(From::Table(ta, wa)), Box::new(From::Table(tb, wb)), on.clone())];
                    let mut from2 = vec![From::Table(ta, wa), From::Table(tb, wb)];
                    if let Some(tc) = third {
                        from1.push(From::Table(tc, dbdef.tables[tc].cols.len()));
                        from2.push(From::Table(tc, dbdef.tables[tc].cols.len()));
                    }
                    members.push(("join-on", plain(from1, w.clone(), proj.clone())));
                    members.push(("cross-where", plain(from2.clone(), Some(and(Some(on), w.clone().unwrap_or(Expr::Const(Val::Bool(true))))), proj.clone())));
                    unfiltered = Some(plain(from2, None, proj));
                }
                2 => {
                    // base tables vs the same tables wrapped as derived tables
                    let n = 1 + r.below(2) as usize;
                    let mut from = Vec::new();
                    let mut from_wrapped = Vec::new();
                    let mut tys = Vec::new();
                    for _ in 0..n {
                        let t = r.below(dbdef.tables.len() as u64) as usize;
                        let w = dbdef.tables[t].cols.len();
                        tys.extend(dbdef.tables[t].cols.clone());
                        from.push(From::Table(t, w));
                        let inner = plain(vec![From::Table(t, w)], None, (0..w).map(|i| Expr::Col(0, i)).collect());
                        from_wrapped.push(From::Sub(Box::new(inner), w));
                    }
                    let scopes = vec![tys.clone()];
                    let (w, proj) = {
                        let mut g = Gen { r: &mut r, db: &dbdef, cfg: nocfg.clone() };
                        let w = g.expr(Ty::Bool, &scopes, 1);
                        let np = 1 + g.r.below(3) as usize;
                        let proj: Vec<Expr> = (0..np).map(|_| { let t = if g.r.chance(3, 4) { Ty::Int } else { Ty::Str }; g.expr(t, &scopes, 1) }).collect();
                        (w, proj)
                    };
                    members.push(("base", plain(from.clone(), Some(w.clone()), proj.clone())));
                    members.push(("derived", plain(from_wrapped, Some(w), proj.clone())));
                    unfiltered = Some(plain(from, None, proj));
                }
                _ => {
                    // [NOT] IN  vs  [NOT] EXISTS with the exact NULL side conditions
                    let negated = kind == 4;
                    let ta = r.below(dbdef.tables.len() as u64) as usize;
                    let tb = r.below(dbdef.tables.len() as u64) as usize;
                    let (wa, wb) = (dbdef.tables[ta].cols.len(), dbdef.tables[tb].cols.len());
                    let atys = dbdef.tables[ta].cols.clone();
                    let btys = dbdef.tables[tb].cols.clone();
                    let ty = if r.chance(3, 4) { Ty::Int } else { Ty::Str };
                    let (a, e, w, w2, proj) = {
                        let mut g = Gen { r: &mut r, db: &dbdef, cfg: nocfg.clone() };
                        let a = g.expr(ty, &[atys.clone()], 1);
                        let ed = if g.r.chance(3, 4) { 0 } else { 1 };
                        let e = g.expr(ty, &[btys.clone()], ed);
                        let w = if g.r.chance(1, 3) { Some(g.expr(Ty::Bool, &[atys.clone()], 1)) } else { None };
                        // the subquery's own filter, possibly correlated with the outer row
                        let w2 = if g.r.chance(1, 2) { Some(g.expr(Ty::Bool, &[btys.clone(), atys.clone()], 1)) } else { None };
                        let np = 1 + g.r.below(2) as usize;
                        let proj: Vec<Expr> = (0..np).map(|_| { let t = if g.r.chance(3, 4) { Ty::Int } else { Ty::Str }; g.expr(t, &[atys.clone()], 1) }).collect();
                        (a, e, w, w2, proj)
                    };
                    let sub_in = plain(vec![From::Table(tb, wb)], w2.clone(), vec![e.clone()]);
                    let a_in = shift(&a);
                    let link = if negated {
                        // x NOT IN S  <=>  NOT EXISTS (s in S with  s = x  OR  s IS NULL  OR  x IS NULL)
                        Expr::Bin(
                            BinOp::Or,
                            Box::new(Expr::Bin(BinOp::Eq, Box::new(e.clone()), Box::new(a_in.clone()))),
                            Box::new(Expr::Bin(BinOp::Or, Box::new(Expr::IsNull(Box::new(e.clone()), false)), Box::new(Expr::IsNull(Box::new(a_in.clone()), false)))),
                        )
                    } else {
                        Expr::Bin(BinOp::Eq, Box::new(e.clone()), Box::new(a_in))
                    };
                    let sub_ex = plain(vec![From::Table(tb, wb)], Some(and(w2.clone(), link)), vec![e.clone()]);
                    let from = vec![From::Table(ta, wa)];
                    members.push((if negated { "not-in" } else { "in" }, plain(from.clone(), Some(and(w.clone(), Expr::InSub(Box::new(a.clone()), Box::new(sub_in), negated))), proj.clone())));
                    members.push((if negated { "not-exists-null-aware" } else { "exists" }, plain(from.clone(), Some(and(w.clone(), Expr::Exists(Box::new(sub_ex), negated))), proj.clone())));
                    unfiltered = Some(plain(from, w, proj));
                }
            }
            let kindname = ["from-permutation", "join-as-where", "derived-wrap", "in-exists", "not-in-not-exists"][kind as usize];
            let case_base = id;
            id += 4;
            if let Some(only) = &args.only {
                if !only.iter().any(|x| *x >= case_base && *x < case_base + 4) {
                    continue;
                }
            }
            sum.count(&format!("kind:{}", kindname));
            let mut obs = Vec::new();
            let mut sqls = Vec::new();
            for (j, (label, q)) in members.iter().enumerate() {
                let sql_text = to_sql(q);
                let o = observe(&mut db, &sql_text);
                sum.evaluations += 1;
                cases.push(format!("({}, {}, {})", case_base + j as u64, coq_query(q), coq_obs(&o)));
                sum.model_cases += 1;
                let classes: Vec<&str> = if has_selfjoin_3way(q) { vec!["selfjoin-3way"] } else { vec![] };
                log.log(case_base + j as u64, json!({"classes": classes, "member": label, "sql": sql_text, "tables": dbdef.tables.iter().map(|t| format!("{:?}", t.rows)).collect::<Vec<_>>(), "observed": obs_text(&o)}));
                if args.only.is_some() {
                    let t = format!("{}Definition d : db := {}.\nEval vm_compute in (sem_expected d {}).\n", SHARD_HEADER, coq_db(&dbdef), coq_query(q));
                    std::fs::write(args.out.join(format!("only_{}.v", case_base + j as u64)), t).unwrap();
                    println!("case {} [{}]: {}\n  observed: {}", case_base + j as u64, label, sql_text, obs_text(&o));
                }
                sqls.push(sql_text);
                obs.push(o);
            }
            let case = json!({"kind": kindname, "sql": sqls, "create": create_sql(&dbdef), "tables": dbdef.tables.iter().map(|t| format!("{:?}", t.rows)).collect::<Vec<_>>(), "observed": obs.iter().map(obs_text).collect::<Vec<_>>()});
            for (j, o) in obs.iter().enumerate() {
                match o {
                    Obs::Panic(m) => sum.finding("panic", case_base + j as u64, format!("executor panicked: {}", m), case.clone()),
                    Obs::Alien(m) => sum.finding("alien-value", case_base + j as u64, format!("value outside the reference domain: {}", m), case.clone()),
                    _ => {}
                }
            }
            // ---- the metamorphic relation on the implementation: all members return the same bag ----
            let selfjoin = members.iter().any(|(_, q)| has_selfjoin_3way(q));
            let all_rows: Vec<Option<&Vec<Vec<Val>>>> = obs.iter().map(|o| if let Obs::Rows(r) = o { Some(r) } else { None }).collect();
            if all_rows.iter().all(|x| x.is_some()) {
                let b0 = bag(all_rows[0].unwrap());
                let same = all_rows.iter().all(|x| bag(x.unwrap()) == b0);
                if !same {
                    let class = if selfjoin { "selfjoin-3way" } else { "equivalent-formulations-differ" };
                    sum.finding(class, case_base, format!("equivalent formulations ({}) return different bags", kindname), case.clone());
                }
                // non-triviality: compare with the unfiltered query
                if let Some(u) = &unfiltered {
                    if let Obs::Rows(ur) = observe(&mut db, &to_sql(u)) {
                        let n = all_rows[0].unwrap().len();
                        if n > 0 && n < ur.len() {
                            sum.nontrivial(&format!("{}|{}", coq_db(&dbdef), sqls.join("|")));
                        }
                        sum.count(if n == 0 { "result:empty" } else if n == ur.len() { "result:everything" } else { "result:proper-subset" });
                    }
                }
                if sum.samples.len() < 5 && !all_rows[0].unwrap().is_empty() {
                    sum.sample(case.clone());
                }
            } else if obs.iter().any(|o| matches!(o, Obs::Rows(_))) {
                sum.finding("equivalent-formulations-differ", case_base, format!("one formulation ({}) fails while an equivalent one succeeds", kindname), case.clone());
            } else {
                sum.count("result:all-error");
            }
        }
        if !cases.is_empty() && args.only.is_none() {
            let s = k % nshards;
            shards[s].push_str(&format!("Definition db{} : db := {}.\nDefinition cs{} : list (Z * query * obs) := [\n{}].\n", k, coq_db(&dbdef), k, cases.join(";\n")));
            shard_lists[s].push(format!("(db{}, cs{})", k, k));
        }
    }
    if args.only.is_none() {
        for s in 0..nshards {
            if !shard_lists[s].is_empty() {
                shards[s].push_str(&format!("Eval vm_compute in (sem_mismatches [{}]).\n", shard_lists[s].join("; ")));
                write_shard(&args, s, &shards[s]);
            }
        }
    }
    sum.write(&args);
}
