//! Scratch: run SQL statements from stdin (one per line) and print outcomes.
use std::io::BufRead;
use vh::sql::*;
fn main() {
    vh::out::quiet_panics();
    let mut db = vibesql_storage::Database::new();
    for line in std::io::stdin().lock().lines() {
        let l = line.unwrap();
        let l = l.trim();
        if l.is_empty() || l.starts_with('#') { continue; }
        let o = exec(&mut db, l);
        match &o {
            Outcome::Rows(r) => println!("{}\n  => {:?}", l, r.iter().map(|x| format!("{:?}", x)).collect::<Vec<_>>()),
            _ => println!("{}\n  => {:?}", l, o),
        }
    }
}
