//! Scratch for C26: run SQL statements from stdin; `!role X`, `!norole`, `!sec on|off`, `!grants`.
use std::io::BufRead;
use vh::sql::*;
fn main() {
    vh::out::quiet_panics();
    let mut db = vibesql_storage::Database::new();
    for line in std::io::stdin().lock().lines() {
        let l = line.unwrap();
        let l = l.trim();
        if l.is_empty() || l.starts_with('#') {
            continue;
        }
        if let Some(r) = l.strip_prefix("!role ") {
            db.set_role(Some(r.to_string()));
            println!("-- role {}", r);
            continue;
        }
        if l == "!norole" {
            db.set_role(None);
            continue;
        }
        if l == "!sec on" {
            db.enable_security();
            continue;
        }
        if l == "!sec off" {
            db.disable_security();
            continue;
        }
        if l == "!grants" {
            for g in db.catalog.get_all_grants() {
                println!("   {:?}", g);
            }
            continue;
        }
        if let Some(rest) = l.strip_prefix("!parse ") {
            println!("{:?}", vibesql_parser::Parser::parse_sql(rest));
            continue;
        }
        let o = match vibesql_parser::Parser::parse_sql(l) {
            Ok(vibesql_ast::Statement::CreateSchema(s)) => { println!("{} => {:?}", l, vibesql_executor::SchemaExecutor::execute_create_schema(&s, &mut db)); continue; }
            Ok(vibesql_ast::Statement::SetSchema(s)) => { println!("{} => {:?}", l, vibesql_executor::SchemaExecutor::execute_set_schema(&s, &mut db)); continue; }
            _ => exec(&mut db, l),
        };
        match &o {
            Outcome::Rows(r) => println!("{}\n  => {:?}", l, r.iter().map(|x| format!("{:?}", x)).collect::<Vec<_>>()),
            _ => println!("{}\n  => {:?}", l, o),
        }
    }
}
