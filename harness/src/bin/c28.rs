//! C28 correspondence + property oracle: BackendMessage::encode of the real
//! crates/vibesql-server/src/protocol/messages.rs (included by path: the server is a bin crate).
//!
//! Every generated message is encoded by the real code; the appended bytes are (1) compared with the
//! Coq model's bytes (shards), (2) checked to be exactly one frame whose length field equals the number
//! of bytes after the type byte, and (3) parsed by an independent frame parser written here from the
//! PostgreSQL protocol description; the parsed fields must equal the message's fields (Error/Notice:
//! as a set of (type, value) pairs).
use bytes::BytesMut;
use serde_json::{json, Value};
use std::collections::HashMap;
use vh::out::*;
use vh::rng::Rng;
use vh::val::bytes_lit;

#[path = "/repo/crates/vibesql-server/src/protocol/messages.rs"]
#[allow(dead_code)]
mod messages;
use messages::{BackendMessage, FieldDescription, TransactionStatus};

// ---------------------------------------------------------------------------------------------
// independent parser (PostgreSQL "Message Formats")
// ---------------------------------------------------------------------------------------------
#[derive(Debug, Clone, PartialEq)]
struct PField {
    name: Vec<u8>,
    table_oid: i32,
    attr: i16,
    type_oid: i32,
    type_size: i16,
    type_mod: i32,
    format: i16,
}

#[derive(Debug, Clone, PartialEq)]
enum PMsg {
    AuthOk,
    AuthCleartext,
    AuthMD5([u8; 4]),
    ParameterStatus(Vec<u8>, Vec<u8>),
    BackendKeyData(i32, i32),
    ReadyForQuery(u8),
    RowDescription(Vec<PField>),
    DataRow(Vec<Option<Vec<u8>>>),
    CommandComplete(Vec<u8>),
    ErrorResponse(Vec<(u8, Vec<u8>)>),
    NoticeResponse(Vec<(u8, Vec<u8>)>),
    EmptyQuery,
}

struct Cur<'a> {
    b: &'a [u8],
}
impl<'a> Cur<'a> {
    fn u8(&mut self) -> Option<u8> {
        let (x, r) = self.b.split_first()?;
        self.b = r;
        Some(*x)
    }
    fn i16(&mut self) -> Option<i16> {
        if self.b.len() < 2 {
            return None;
        }
        let v = i16::from_be_bytes([self.b[0], self.b[1]]);
        self.b = &self.b[2..];
        Some(v)
    }
    fn i32(&mut self) -> Option<i32> {
        if self.b.len() < 4 {
            return None;
        }
        let v = i32::from_be_bytes([self.b[0], self.b[1], self.b[2], self.b[3]]);
        self.b = &self.b[4..];
        Some(v)
    }
    fn cstr(&mut self) -> Option<Vec<u8>> {
        let p = self.b.iter().position(|&x| x == 0)?;
        let s = self.b[..p].to_vec();
        self.b = &self.b[p + 1..];
        Some(s)
    }
    fn take(&mut self, n: usize) -> Option<Vec<u8>> {
        if self.b.len() < n {
            return None;
        }
        let s = self.b[..n].to_vec();
        self.b = &self.b[n..];
        Some(s)
    }
    fn done(&self) -> Option<()> {
        if self.b.is_empty() {
            Some(())
        } else {
            None
        }
    }
}

fn parse_body(t: u8, body: &[u8]) -> Option<PMsg> {
    let mut c = Cur { b: body };
    let m = match t {
        b'R' => match c.i32()? {
            0 => PMsg::AuthOk,
            3 => PMsg::AuthCleartext,
            5 => {
                let s = c.take(4)?;
                PMsg::AuthMD5([s[0], s[1], s[2], s[3]])
            }
            _ => return None,
        },
        b'S' => {
            let n = c.cstr()?;
            let v = c.cstr()?;
            PMsg::ParameterStatus(n, v)
        }
        b'K' => {
            let p = c.i32()?;
            let k = c.i32()?;
            PMsg::BackendKeyData(p, k)
        }
        b'Z' => {
            let s = c.u8()?;
            if !(s == b'I' || s == b'T' || s == b'E') {
                return None;
            }
            PMsg::ReadyForQuery(s)
        }
        b'T' => {
            let n = c.i16()?;
            if n < 0 {
                return None;
            }
            let mut fs = vec![];
            for _ in 0..n {
                let name = c.cstr()?;
                let table_oid = c.i32()?;
                let attr = c.i16()?;
                let type_oid = c.i32()?;
                let type_size = c.i16()?;
                let type_mod = c.i32()?;
                let format = c.i16()?;
                fs.push(PField { name, table_oid, attr, type_oid, type_size, type_mod, format });
            }
            PMsg::RowDescription(fs)
        }
        b'D' => {
            let n = c.i16()?;
            if n < 0 {
                return None;
            }
            let mut vs = vec![];
            for _ in 0..n {
                let l = c.i32()?;
                if l == -1 {
                    vs.push(None);
                } else if l < 0 {
                    return None;
                } else {
                    vs.push(Some(c.take(l as usize)?));
                }
            }
            PMsg::DataRow(vs)
        }
        b'C' => PMsg::CommandComplete(c.cstr()?),
        b'E' | b'N' => {
            let mut fs = vec![];
            loop {
                let k = c.u8()?;
                if k == 0 {
                    break;
                }
                fs.push((k, c.cstr()?));
            }
            if t == b'E' {
                PMsg::ErrorResponse(fs)
            } else {
                PMsg::NoticeResponse(fs)
            }
        }
        b'I' => PMsg::EmptyQuery,
        _ => return None,
    };
    c.done()?;
    Some(m)
}

/// one frame from the front of `b`: (message, bytes consumed)
fn parse_frame(b: &[u8]) -> Option<(PMsg, usize)> {
    if b.len() < 5 {
        return None;
    }
    let l = i32::from_be_bytes([b[1], b[2], b[3], b[4]]);
    if l < 4 {
        return None;
    }
    let total = 1 + l as usize;
    if b.len() < total {
        return None;
    }
    Some((parse_body(b[0], &b[5..total])?, total))
}

// ---------------------------------------------------------------------------------------------
// the message as the protocol sees it, and as a Coq literal
// ---------------------------------------------------------------------------------------------
fn status_byte(s: TransactionStatus) -> u8 {
    match s {
        TransactionStatus::Idle => b'I',
        TransactionStatus::InTransaction => b'T',
        TransactionStatus::FailedTransaction => b'E',
    }
}

/// expected parse result; Error/Notice fields in the map's iteration order
fn expected(m: &BackendMessage) -> PMsg {
    match m {
        BackendMessage::AuthenticationOk => PMsg::AuthOk,
        BackendMessage::AuthenticationCleartextPassword => PMsg::AuthCleartext,
        BackendMessage::AuthenticationMD5Password { salt } => PMsg::AuthMD5(*salt),
        BackendMessage::ParameterStatus { name, value } => PMsg::ParameterStatus(name.as_bytes().to_vec(), value.as_bytes().to_vec()),
        BackendMessage::BackendKeyData { process_id, secret_key } => PMsg::BackendKeyData(*process_id, *secret_key),
        BackendMessage::ReadyForQuery { status } => PMsg::ReadyForQuery(status_byte(*status)),
        BackendMessage::RowDescription { fields } => PMsg::RowDescription(
            fields
                .iter()
                .map(|f| PField { name: f.name.as_bytes().to_vec(), table_oid: f.table_oid, attr: f.column_attr_number, type_oid: f.data_type_oid, type_size: f.data_type_size, type_mod: f.type_modifier, format: f.format_code })
                .collect(),
        ),
        BackendMessage::DataRow { values } => PMsg::DataRow(values.clone()),
        BackendMessage::CommandComplete { tag } => PMsg::CommandComplete(tag.as_bytes().to_vec()),
        BackendMessage::ErrorResponse { fields } => PMsg::ErrorResponse(fields.iter().map(|(k, v)| (*k, v.as_bytes().to_vec())).collect()),
        BackendMessage::NoticeResponse { fields } => PMsg::NoticeResponse(fields.iter().map(|(k, v)| (*k, v.as_bytes().to_vec())).collect()),
        BackendMessage::EmptyQueryResponse => PMsg::EmptyQuery,
    }
}

fn tag_of(p: &PMsg) -> u8 {
    match p {
        PMsg::AuthOk | PMsg::AuthCleartext | PMsg::AuthMD5(_) => b'R',
        PMsg::ParameterStatus(..) => b'S',
        PMsg::BackendKeyData(..) => b'K',
        PMsg::ReadyForQuery(_) => b'Z',
        PMsg::RowDescription(_) => b'T',
        PMsg::DataRow(_) => b'D',
        PMsg::CommandComplete(_) => b'C',
        PMsg::ErrorResponse(_) => b'E',
        PMsg::NoticeResponse(_) => b'N',
        PMsg::EmptyQuery => b'I',
    }
}

/// same fields? (Error/Notice: same set of pairs — HashMap order is not part of the message)
fn same_fields(a: &PMsg, b: &PMsg) -> bool {
    match (a, b) {
        (PMsg::ErrorResponse(x), PMsg::ErrorResponse(y)) | (PMsg::NoticeResponse(x), PMsg::NoticeResponse(y)) => {
            let (mut x, mut y) = (x.clone(), y.clone());
            x.sort();
            y.sort();
            x == y
        }
        _ => a == b,
    }
}

fn zl(x: i64) -> String {
    if x < 0 {
        format!("({})", x)
    } else {
        x.to_string()
    }
}

fn coq_pfield(f: &PField) -> String {
    format!("(mk_field {} {} {} {} {} {} {})", coq_bytes_big(&f.name), zl(f.table_oid as i64), zl(f.attr as i64), zl(f.type_oid as i64), zl(f.type_size as i64), zl(f.type_mod as i64), zl(f.format as i64))
}
fn coq_value(v: &Option<Vec<u8>>) -> String {
    match v {
        None => "None".into(),
        Some(x) => format!("(Some {})", coq_bytes_big(x)),
    }
}

/// run-length compressed list literal: `rep n x ++ [..] ++ ...`
fn coq_list_rle<T: PartialEq>(xs: &[T], pr: &dyn Fn(&T) -> String) -> String {
    if xs.len() < 64 {
        return format!("[{}]", xs.iter().map(|x| pr(x)).collect::<Vec<_>>().join(";"));
    }
    let mut parts = vec![];
    let mut i = 0;
    let mut lits: Vec<String> = vec![];
    while i < xs.len() {
        let mut j = i;
        while j < xs.len() && xs[j] == xs[i] {
            j += 1;
        }
        if j - i >= 8 {
            if !lits.is_empty() {
                parts.push(format!("[{}]", lits.join(";")));
                lits.clear();
            }
            parts.push(format!("rep {} {}", j - i, pr(&xs[i])));
        } else {
            for k in i..j {
                lits.push(pr(&xs[k]));
                if lits.len() >= 500 {
                    parts.push(format!("[{}]", lits.join(";")));
                    lits.clear();
                }
            }
        }
        i = j;
    }
    if !lits.is_empty() {
        parts.push(format!("[{}]", lits.join(";")));
    }
    format!("({})", parts.join(" ++ "))
}

fn coq_bytes_big(b: &[u8]) -> String {
    coq_list_rle(b, &|x: &u8| x.to_string())
}

fn coq_msg(p: &PMsg) -> String {
    match p {
        PMsg::AuthOk => "BAuthOk".into(),
        PMsg::AuthCleartext => "BAuthCleartext".into(),
        PMsg::AuthMD5(s) => format!("(BAuthMD5 {})", bytes_lit(s)),
        PMsg::ParameterStatus(n, v) => format!("(BParameterStatus {} {})", coq_bytes_big(n), coq_bytes_big(v)),
        PMsg::BackendKeyData(p, k) => format!("(BBackendKeyData {} {})", zl(*p as i64), zl(*k as i64)),
        PMsg::ReadyForQuery(s) => format!("(BReadyForQuery {})", match s { b'I' => "Idle", b'T' => "InTransaction", _ => "FailedTransaction" }),
        PMsg::RowDescription(fs) => format!("(BRowDescription {})", coq_list_rle(fs, &coq_pfield)),
        PMsg::DataRow(vs) => format!("(BDataRow {})", coq_list_rle(vs, &coq_value)),
        PMsg::CommandComplete(t) => format!("(BCommandComplete {})", coq_bytes_big(t)),
        PMsg::ErrorResponse(fs) => format!("(BErrorResponse [{}])", fs.iter().map(|(k, v)| format!("({},{})", k, coq_bytes_big(v))).collect::<Vec<_>>().join(";")),
        PMsg::NoticeResponse(fs) => format!("(BNoticeResponse [{}])", fs.iter().map(|(k, v)| format!("({},{})", k, coq_bytes_big(v))).collect::<Vec<_>>().join(";")),
        PMsg::EmptyQuery => "BEmptyQuery".into(),
    }
}

fn lossy(b: &[u8]) -> String {
    let s = String::from_utf8_lossy(b);
    if s.len() > 60 {
        format!("{}… ({} bytes)", s.chars().take(60).collect::<String>(), b.len())
    } else {
        s.into_owned()
    }
}

fn json_msg(p: &PMsg) -> Value {
    match p {
        PMsg::RowDescription(fs) => json!({"RowDescription": {"fields": fs.len(), "first": fs.first().map(|f| json!({"name": lossy(&f.name), "table_oid": f.table_oid, "attr": f.attr, "type_oid": f.type_oid, "type_size": f.type_size, "type_mod": f.type_mod, "format": f.format}))}}),
        PMsg::DataRow(vs) => json!({"DataRow": {"values": vs.len(), "first": vs.iter().take(4).map(|v| v.as_ref().map(|x| lossy(x))).collect::<Vec<_>>()}}),
        PMsg::ParameterStatus(n, v) => json!({"ParameterStatus": [lossy(n), lossy(v)]}),
        PMsg::CommandComplete(t) => json!({"CommandComplete": lossy(t)}),
        PMsg::ErrorResponse(fs) => json!({"ErrorResponse": fs.iter().map(|(k, v)| json!([k, lossy(v)])).collect::<Vec<_>>()}),
        PMsg::NoticeResponse(fs) => json!({"NoticeResponse": fs.iter().map(|(k, v)| json!([k, lossy(v)])).collect::<Vec<_>>()}),
        other => json!(format!("{:?}", other)),
    }
}

fn hex_short(b: &[u8]) -> String {
    let h: Vec<String> = b.iter().take(48).map(|x| format!("{:02x}", x)).collect();
    if b.len() > 48 {
        format!("{} … ({} bytes)", h.join(" "), b.len())
    } else {
        h.join(" ")
    }
}

// ---------------------------------------------------------------------------------------------
// classification of a failing message (narrow predicates; mirrors WireSpec.wf_backend)
// ---------------------------------------------------------------------------------------------
fn classify(p: &PMsg) -> &'static str {
    let nul = |s: &Vec<u8>| s.contains(&0);
    match p {
        PMsg::ParameterStatus(n, v) if nul(n) || nul(v) => "embedded-nul-in-cstring",
        PMsg::CommandComplete(t) if nul(t) => "embedded-nul-in-cstring",
        PMsg::RowDescription(fs) => {
            if fs.len() > 32767 {
                "field-count-over-32767"
            } else if fs.iter().any(|f| nul(&f.name)) {
                "embedded-nul-in-cstring"
            } else {
                "frame-mismatch"
            }
        }
        PMsg::DataRow(vs) if vs.len() > 32767 => "field-count-over-32767",
        PMsg::ErrorResponse(fs) | PMsg::NoticeResponse(fs) => {
            if fs.iter().any(|(k, _)| *k == 0) {
                "error-field-type-zero"
            } else if fs.iter().any(|(_, v)| nul(v)) {
                "embedded-nul-in-cstring"
            } else {
                "frame-mismatch"
            }
        }
        _ => "frame-mismatch",
    }
}

// ---------------------------------------------------------------------------------------------
// generators
// ---------------------------------------------------------------------------------------------
fn gen_string(r: &mut Rng) -> String {
    let mut s = String::new();
    let n = match r.below(40) {
        0..=3 => 0,
        4..=7 => 1,
        8 => 200 + r.below(200),
        _ => r.below(14),
    };
    for _ in 0..n {
        let c = match r.below(14) {
            0 => 'é',
            1 => '€',
            2 => '😀',
            3 => '\u{7f}',
            4 => char::from_u32(0x80 + r.below(0x2000) as u32).unwrap_or('ß'),
            5 => '\u{1}',
            _ => (0x20 + r.below(0x5f) as u8) as char,
        };
        s.push(c);
    }
    if r.chance(1, 9) {
        // embedded NUL (a legal Rust String)
        let mut p = r.below(s.len() as u64 + 1) as usize;
        while !s.is_char_boundary(p) {
            p -= 1;
        }
        s.insert(p, '\0');
    }
    s
}

const I32S: [i32; 9] = [0, 1, -1, 25, 12345, i32::MAX, i32::MIN, 0x0102_0304, -0x0102_0304];
const I16S: [i16; 8] = [0, 1, -1, 4, i16::MAX, i16::MIN, 0x0102, -2];

fn gen_i32(r: &mut Rng) -> i32 {
    if r.chance(1, 2) {
        *r.pick(&I32S)
    } else {
        r.next() as i32
    }
}
fn gen_i16(r: &mut Rng) -> i16 {
    if r.chance(1, 2) {
        *r.pick(&I16S)
    } else {
        r.next() as i16
    }
}

fn gen_field(r: &mut Rng) -> FieldDescription {
    FieldDescription { name: gen_string(r), table_oid: gen_i32(r), column_attr_number: gen_i16(r), data_type_oid: gen_i32(r), data_type_size: gen_i16(r), type_modifier: gen_i32(r), format_code: gen_i16(r) }
}

fn gen_value(r: &mut Rng) -> Option<Vec<u8>> {
    match r.below(8) {
        0 | 1 => None,
        2 => Some(vec![]),
        3 => Some(vec![0]),
        4 => Some((0..(if r.chance(1, 12) { r.below(300) } else { r.below(24) })).map(|_| r.below(256) as u8).collect()),
        5 => Some(b"NULL".to_vec()),
        _ => Some(gen_string(r).into_bytes()),
    }
}

fn gen_err_fields(r: &mut Rng) -> HashMap<u8, String> {
    let mut m = HashMap::new();
    match r.below(6) {
        0 => {}
        1 | 2 | 3 => {
            // what connection.rs sends
            m.insert(b'S', "ERROR".to_string());
            m.insert(b'C', "XX000".to_string());
            m.insert(b'M', gen_string(r));
        }
        _ => {
            let n = r.below(9);
            for _ in 0..n {
                let k = if r.chance(1, 25) { 0u8 } else { *r.pick(&[b'S', b'V', b'C', b'M', b'D', b'H', b'P', b'p', b'q', b'W', b's', b't', b'c', b'd', b'n', b'F', b'L', b'R', 1, 255, 128]) };
                m.insert(k, gen_string(r));
            }
        }
    }
    m
}

fn simple_field(name: &str) -> FieldDescription {
    FieldDescription { name: name.to_string(), table_oid: 0, column_attr_number: 0, data_type_oid: 25, data_type_size: -1, type_modifier: -1, format_code: 0 }
}

fn gen_messages(seed: u64, thorough: bool) -> Vec<BackendMessage> {
    let mut ms = vec![];
    let scale = if thorough { 5 } else { 1 };
    // fixed corpus: every variant, boundaries
    ms.push(BackendMessage::AuthenticationOk);
    ms.push(BackendMessage::AuthenticationCleartextPassword);
    for s in [[0u8; 4], [255; 4], [1, 2, 3, 4], [0, 255, 0, 10]] {
        ms.push(BackendMessage::AuthenticationMD5Password { salt: s });
    }
    ms.push(BackendMessage::EmptyQueryResponse);
    for st in [TransactionStatus::Idle, TransactionStatus::InTransaction, TransactionStatus::FailedTransaction] {
        ms.push(BackendMessage::ReadyForQuery { status: st });
    }
    for (n, v) in [("server_version", "14.0 (VibeSQL)"), ("server_encoding", "UTF8"), ("client_encoding", "UTF8"), ("DateStyle", "ISO, MDY"), ("TimeZone", "UTC"), ("", ""), ("a\0b", "c"), ("a", "\0"), ("näme", "välue€😀")] {
        ms.push(BackendMessage::ParameterStatus { name: n.to_string(), value: v.to_string() });
    }
    for a in I32S {
        for b in [0, -1, 12345, i32::MIN, i32::MAX] {
            ms.push(BackendMessage::BackendKeyData { process_id: a, secret_key: b });
        }
    }
    for t in ["SELECT 1", "INSERT 0 1", "UPDATE 0", "DELETE 3", "CREATE TABLE", "DROP TABLE", "", "SELECT\0 1", "\0"] {
        ms.push(BackendMessage::CommandComplete { tag: t.to_string() });
    }
    // long strings (beyond u16 range)
    ms.push(BackendMessage::CommandComplete { tag: "x".repeat(70_000) });
    ms.push(BackendMessage::ParameterStatus { name: "k".repeat(300), value: "vé".repeat(33_000) });
    // field counts around the Int16 boundary
    for n in [0usize, 1, 2, 255, 256, 32_766, 32_767, 32_768, 40_000, 65_535, 65_536, 65_537] {
        ms.push(BackendMessage::DataRow { values: vec![None; n] });
    }
    ms.push(BackendMessage::DataRow { values: [vec![Some(b"1".to_vec()); 20_000], vec![None; 20_000]].concat() });
    ms.push(BackendMessage::DataRow { values: vec![Some(vec![b'z'; 70_000]), None, Some(vec![])] });
    for n in [0usize, 1, 2, 255, 256, 32_767, 32_768, 40_000, 65_537] {
        ms.push(BackendMessage::RowDescription { fields: (0..n).map(|_| simple_field("c")).collect() });
    }
    ms.push(BackendMessage::RowDescription { fields: vec![simple_field(""), simple_field("a\0b"), simple_field("col€")] });
    {
        let mut f = HashMap::new();
        f.insert(0u8, "zero key".to_string());
        ms.push(BackendMessage::ErrorResponse { fields: f.clone() });
        f.insert(b'M', "m".to_string());
        ms.push(BackendMessage::NoticeResponse { fields: f });
        let mut g = HashMap::new();
        g.insert(b'S', "ERROR".to_string());
        g.insert(b'C', "XX000".to_string());
        g.insert(b'M', "Table 'a\0b' not found".to_string());
        ms.push(BackendMessage::ErrorResponse { fields: g });
        ms.push(BackendMessage::ErrorResponse { fields: HashMap::new() });
        ms.push(BackendMessage::NoticeResponse { fields: HashMap::new() });
        let mut h = HashMap::new();
        for k in 1..=255u8 {
            h.insert(k, format!("v{}", k));
        }
        ms.push(BackendMessage::ErrorResponse { fields: h });
    }
    // random
    let mut r = Rng::new(seed, "c28/random");
    for _ in 0..(8_000 * scale) {
        let m = match r.below(14) {
            0 => BackendMessage::ParameterStatus { name: gen_string(&mut r), value: gen_string(&mut r) },
            1 => BackendMessage::BackendKeyData { process_id: gen_i32(&mut r), secret_key: gen_i32(&mut r) },
            2 | 3 | 4 => {
                let n = match r.below(24) {
                    0..=2 => 0,
                    3..=5 => 1,
                    6 => 20 + r.below(60),
                    _ => r.below(8),
                };
                BackendMessage::RowDescription { fields: (0..n).map(|_| gen_field(&mut r)).collect() }
            }
            5 | 6 | 7 => {
                let n = match r.below(24) {
                    0..=2 => 0,
                    3..=5 => 1,
                    6 => 20 + r.below(80),
                    _ => r.below(10),
                };
                BackendMessage::DataRow { values: (0..n).map(|_| gen_value(&mut r)).collect() }
            }
            8 => BackendMessage::CommandComplete { tag: if r.chance(1, 2) { format!("SELECT {}", r.below(100000)) } else { gen_string(&mut r) } },
            9 | 10 => BackendMessage::ErrorResponse { fields: gen_err_fields(&mut r) },
            11 => BackendMessage::NoticeResponse { fields: gen_err_fields(&mut r) },
            12 => BackendMessage::AuthenticationMD5Password { salt: [r.below(256) as u8, r.below(256) as u8, r.below(256) as u8, r.below(256) as u8] },
            _ => BackendMessage::ReadyForQuery { status: *r.pick(&[TransactionStatus::Idle, TransactionStatus::InTransaction, TransactionStatus::FailedTransaction]) },
        };
        ms.push(m);
    }
    ms
}

fn variant_name(p: &PMsg) -> &'static str {
    match p {
        PMsg::AuthOk => "AuthenticationOk",
        PMsg::AuthCleartext => "AuthenticationCleartextPassword",
        PMsg::AuthMD5(_) => "AuthenticationMD5Password",
        PMsg::ParameterStatus(..) => "ParameterStatus",
        PMsg::BackendKeyData(..) => "BackendKeyData",
        PMsg::ReadyForQuery(_) => "ReadyForQuery",
        PMsg::RowDescription(_) => "RowDescription",
        PMsg::DataRow(_) => "DataRow",
        PMsg::CommandComplete(_) => "CommandComplete",
        PMsg::ErrorResponse(_) => "ErrorResponse",
        PMsg::NoticeResponse(_) => "NoticeResponse",
        PMsg::EmptyQuery => "EmptyQueryResponse",
    }
}

fn overflow_checks_on() -> bool {
    let x: usize = std::hint::black_box(usize::MAX);
    std::panic::catch_unwind(|| std::hint::black_box(x + std::hint::black_box(1))).is_err()
}

fn main() {
    let args = parse_args();
    std::panic::set_hook(Box::new(|_| {}));
    let oc = overflow_checks_on();
    quiet_panics();
    let mut sum = Summary::default();
    sum.nontrivial_rule = "a case is one BackendMessage value encoded by the real BackendMessage::encode; distinct = distinct (variant, field contents, HashMap iteration order); non-trivial = the message has at least one variable-length or numeric field (the five constant frames AuthenticationOk/Cleartext, EmptyQueryResponse and the 3 ReadyForQuery are counted once each only)".into();
    sum.notes.push(format!("harness built with overflow checks = {} (the model is run with oc = {})", oc, oc));
    let mut log = CaseLog::new(&args);
    let msgs = gen_messages(args.seed, args.thorough);
    let nshards = if args.thorough { 32 } else { 16 };
    let mut shard_txt: Vec<String> = vec![String::new(); nshards + 4];
    let mut nbig = 0usize;
    let mut prev: Option<(PMsg, Vec<u8>, bool)> = None;
    let mut logged = 0usize;
    for (i, m) in msgs.iter().enumerate() {
        let id = i as u64;
        if let Some(only) = &args.only {
            if !only.contains(&id) {
                continue;
            }
        }
        sum.evaluations += 1;
        let exp = expected(m);
        // encode into an empty buffer and into a buffer that already holds bytes (append-only check)
        let mut buf = BytesMut::new();
        let r = std::panic::catch_unwind(std::panic::AssertUnwindSafe(|| m.encode(&mut buf)));
        let case = |bytes: &[u8]| json!({"message": json_msg(&exp), "encoded_hex": hex_short(bytes)});
        if r.is_err() {
            sum.finding("encode-panics", id, format!("encode panicked on {}", variant_name(&exp)), case(&[]));
            continue;
        }
        let bytes = buf.to_vec();
        let mut buf2 = BytesMut::from(&b"\x01\x02prefix"[..]);
        m.encode(&mut buf2);
        if &buf2[..8] != b"\x01\x02prefix" || buf2[8..] != bytes[..] {
            sum.finding("encode-not-append-only", id, "encoding into a non-empty buffer changed earlier bytes or produced different bytes".into(), case(&bytes));
        }
        sum.nontrivial(&coq_msg(&exp));
        sum.count(&format!("variant/{}", variant_name(&exp)));
        sum.count(&format!("frame_bytes/{}", match bytes.len() { 0..=15 => "0-15", 16..=63 => "16-63", 64..=255 => "64-255", 256..=4095 => "256-4095", 4096..=65535 => "4K-64K", _ => "64K+" }));
        // ---- the property's own oracle ------------------------------------------------------
        let mut ok = true;
        let mut why = String::new();
        if bytes.len() < 5 {
            ok = false;
            why = format!("only {} bytes", bytes.len());
        } else {
            let l = i32::from_be_bytes([bytes[1], bytes[2], bytes[3], bytes[4]]) as i64;
            if bytes[0] != tag_of(&exp) {
                ok = false;
                why = format!("type byte {:#x}, expected {:#x}", bytes[0], tag_of(&exp));
                sum.finding("wrong-type-byte", id, why.clone(), case(&bytes));
            }
            if l != bytes.len() as i64 - 1 {
                ok = false;
                why = format!("length field {} but {} bytes follow the type byte", l, bytes.len() - 1);
                sum.finding("length-field-mismatch", id, why.clone(), case(&bytes));
            }
        }
        let parsed = parse_frame(&bytes);
        let parsed_back = match &parsed {
            Some((p, used)) => *used == bytes.len() && same_fields(p, &exp),
            None => false,
        };
        if !parsed_back {
            let slug = classify(&exp);
            let what = match &parsed {
                None => format!("{}: the {} encoded bytes do not parse as one protocol frame ({})", variant_name(&exp), bytes.len(), hex_short(&bytes)),
                Some((p, used)) => format!("{}: an independent parser reads {} of {} bytes and recovers different fields: {}", variant_name(&exp), used, bytes.len(), json_msg(p)),
            };
            if ok || slug != "frame-mismatch" {
                sum.finding(slug, id, what, case(&bytes));
            } else {
                sum.finding(slug, id, format!("{} ({})", what, why), case(&bytes));
            }
            if logged < 300 {
                log.log(id, case(&bytes));
                logged += 1;
            }
        }
        // two consecutive frames in one buffer parse back as the two messages
        if let Some((pm, pbytes, pok)) = &prev {
            if *pok && parsed_back && i % 7 == 0 {
                let mut both = pbytes.clone();
                both.extend_from_slice(&bytes);
                sum.evaluations += 1;
                let a = parse_frame(&both);
                let good = match a {
                    Some((p1, u1)) => same_fields(&p1, pm) && u1 == pbytes.len() && matches!(parse_frame(&both[u1..]), Some((p2, u2)) if same_fields(&p2, &exp) && u2 == bytes.len()),
                    None => false,
                };
                if !good {
                    sum.finding("two-frames-not-separable", id, "two encoded messages in one buffer do not parse back as those two messages".into(), case(&both));
                }
            }
        }
        if sum.samples.len() < 5 && (i % 3001 == 100 || (!parsed_back && sum.samples.len() < 2)) {
            sum.sample(json!({"message": json_msg(&exp), "encoded_hex": hex_short(&bytes), "parsed_back": parsed_back}));
        }
        // ---- shard --------------------------------------------------------------------------
        if args.only.is_none() {
            let big = bytes.len() > 20_000;
            let k = if big {
                nbig += 1;
                nshards + nbig % 4
            } else {
                i % nshards
            };
            if big {
                let (mut a, mut c): (u128, u128) = (0, 0);
                for &b in &bytes {
                    a += b as u128 + 1;
                    c += a;
                }
                let h: u128 = c * (1u128 << 64) + a;
                shard_txt[k].push_str(&format!("C28H {} {} {} {} {};\n", id, coq_msg(&exp), bytes.len(), h, parsed_back));
            } else {
                shard_txt[k].push_str(&format!("C28 {} {} {} {};\n", id, coq_msg(&exp), bytes_lit(&bytes), parsed_back));
            }
            sum.model_cases += 1;
        }
        prev = if bytes.len() < 4096 { Some((exp, bytes, parsed_back)) } else { None };
    }
    if args.only.is_none() {
        for (k, txt) in shard_txt.iter().enumerate() {
            if txt.is_empty() {
                continue;
            }
            let body = txt.trim_end_matches(|c| c == '\n' || c == ';');
            let s = format!(
                "From Coq Require Import List ZArith Bool.\nImport ListNotations.\nOpen Scope Z_scope.\nFrom VibeSQL Require Import Codec.Wire Codec.WireSpec Run.C28Run.\nDefinition cases : list c28case := [\n{}\n].\nEval vm_compute in (c28_mismatches {} cases).\n",
                body,
                if oc { "true" } else { "false" }
            );
            write_shard(&args, k, &s);
        }
    }
    sum.write(&args);
}
