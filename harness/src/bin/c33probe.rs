//! temporary probe for C33 (deleted before delivery)
use vibesql_storage::database::IndexData;
use vibesql_storage::Database;

fn dump(db: &Database) -> String {
    let mut s = String::new();
    let mut lt = db.catalog.list_tables();
    lt.sort();
    s += &format!("  cat.tables={:?}\n", lt);
    for t in &lt {
        if let Some(sc) = db.catalog.get_table(t) {
            s += &format!(
                "    cat[{}]: name={} cols={:?} pk={:?} uq={:?} ck={:?} fk={:?}\n",
                t,
                sc.name,
                sc.columns.iter().map(|c| format!("{}{}{}", c.name, if c.nullable { "" } else { "!" }, if c.default_value.is_some() { "=d" } else { "" })).collect::<Vec<_>>(),
                sc.primary_key,
                sc.unique_constraints,
                sc.check_constraints.iter().map(|c| c.0.clone()).collect::<Vec<_>>(),
                sc.foreign_keys.iter().map(|f| f.name.clone()).collect::<Vec<_>>()
            );
        }
    }
    let mut keys: Vec<&String> = db.tables.keys().collect();
    keys.sort();
    for k in keys {
        let t = &db.tables[k];
        s += &format!(
            "    sto[{}]: name={} cols={:?} pk={:?} uq={:?} rows={:?}\n",
            k,
            t.schema.name,
            t.schema.columns.iter().map(|c| format!("{}{}{}", c.name, if c.nullable { "" } else { "!" }, if c.default_value.is_some() { "=d" } else { "" })).collect::<Vec<_>>(),
            t.schema.primary_key,
            t.schema.unique_constraints,
            t.scan().iter().map(|r| vh::sql::canon_row(&r.values)).collect::<Vec<_>>()
        );
    }
    let mut ci: Vec<String> = db.catalog.list_all_indexes().iter().map(|i| format!("{}.{}({:?})", i.table_name, i.name, i.columns.iter().map(|c| c.column_name.clone()).collect::<Vec<_>>())).collect();
    ci.sort();
    s += &format!("  cat.indexes={:?}\n", ci);
    let mut si = db.list_indexes();
    si.sort();
    for k in si {
        let m = db.get_index(&k).unwrap();
        let d = match db.get_index_data(&k) {
            Some(IndexData::InMemory { data }) => format!("{:?}", data.iter().map(|(k, v)| (vh::sql::canon_row(k), v.clone())).collect::<Vec<_>>()),
            Some(_) => "disk".into(),
            None => "nodata".into(),
        };
        s += &format!("    sidx[{}]: name={} table={} cols={:?} data={}\n", k, m.index_name, m.table_name, m.columns.iter().map(|c| c.column_name.clone()).collect::<Vec<_>>(), d);
    }
    s
}

fn main() {
    vh::out::quiet_panics();
    let path = std::env::args().nth(1).unwrap();
    let text = std::fs::read_to_string(path).unwrap();
    let mut db = Database::new();
    for line in text.lines() {
        let line = line.trim();
        if line.is_empty() || line.starts_with("--") {
            continue;
        }
        if line == "RESET" {
            db = Database::new();
            println!("==== RESET");
            continue;
        }
        if line == "CASEINS" {
            db.catalog.set_case_sensitive_identifiers(false);
            continue;
        }
        let o = vh::sql::exec(&mut db, line);
        let brief = match &o {
            vh::sql::Outcome::Rows(r) => format!("rows {:?}", vh::sql::canon_seq(r)),
            other => format!("{:?}", other),
        };
        println!("> {}\n  => {}", line, brief);
        if !line.to_uppercase().starts_with("SELECT") {
            print!("{}", dump(&db));
        }
    }
}
