fn main() { println!("ok"); }
