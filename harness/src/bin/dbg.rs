use vibesql_storage::{Database, Row}; use vibesql_types::SqlValue;
fn main(){ let mut db = Database::new();
 vh::sql::must(&mut db, "CREATE TABLE tab0 (c0 INTEGER)");
 vh::sql::must(&mut db, "CREATE TABLE tab1 (c0 INTEGER, c1 INTEGER, c2 INTEGER)");
 println!("{:?}", db.insert_row("tab0", Row::new(vec![SqlValue::Integer(1)])));
 println!("{:?}", db.insert_row("tab1", Row::new(vec![SqlValue::Integer(1),SqlValue::Integer(1),SqlValue::Integer(-1)])));
 println!("{:?}", db.insert_row("TAB1", Row::new(vec![SqlValue::Integer(1),SqlValue::Null,SqlValue::Integer(-1)])));
 println!("{:?}", db.list_tables());
}
