//! C26 — access control is complete and follows the GRANT/REVOKE history.
//!
//! Part A (ids 0..)          privilege histories: CREATE/DROP ROLE, GRANT, REVOKE, SET ROLE, security flag,
//!                           permission checks, run on the real executors; per-operation result and the final
//!                           grant table are compared with Store/Priv.v inside Coq (shards), and the property's
//!                           own oracle is evaluated on the implementation (revoked => denied, never granted =>
//!                           denied, GRANT by a role without authority; REVOKE over cyclic delegation graphs is tried in a
//!                           child process first).
//! Part B (ids 1_000_000..)  the access-path table: every statement shape x privilege sets lacking one required
//!                           privilege / holding them all / random; outcome and changed tables are compared with
//!                           Store/PrivPaths.v inside Coq, and "reads or modifies without the privilege" is
//!                           evaluated directly on the implementation with full snapshots.
//! Part C (ids 2_000_000..)  a generated query family (vh::qgen) thrown at a role with no privilege and at a role
//!                           lacking one table: any row returned from an unreadable table is a violation.
//! Part D (ids 3_000_000..)  grants recorded under an unqualified name after SET SCHEMA.
use serde_json::{json, Value};
use std::collections::{BTreeMap, BTreeSet};
use vh::out::*;
use vh::qgen::*;
use vh::rng::Rng;
use vh::sql::*;
use vibesql_ast::{CascadeOption, ObjectType, PrivilegeType, Statement};
use vibesql_executor::{ExecutorError, PrivilegeChecker};
use vibesql_storage::Database;

// ---------------------------------------------------------------------------------------------------
// shared
// ---------------------------------------------------------------------------------------------------

fn coq_str(s: &str) -> String {
    format!("\"{}\"", s.replace('"', "\"\""))
}
fn coq_strs(v: &[String]) -> String {
    format!("[{}]", v.iter().map(|s| coq_str(s)).collect::<Vec<_>>().join("; "))
}
fn coq_cols(c: &Option<Vec<String>>) -> String {
    match c {
        None => "None".into(),
        Some(v) => format!("(Some {})", coq_strs(v)),
    }
}
fn coq_priv(p: &PrivilegeType) -> String {
    match p {
        PrivilegeType::Select(c) => format!("(PSelect {})", coq_cols(c)),
        PrivilegeType::Insert(c) => format!("(PInsert {})", coq_cols(c)),
        PrivilegeType::Update(c) => format!("(PUpdate {})", coq_cols(c)),
        PrivilegeType::Delete => "PDelete".into(),
        PrivilegeType::References(c) => format!("(PReferences {})", coq_cols(c)),
        PrivilegeType::Usage => "PUsage".into(),
        PrivilegeType::Create => "PCreate".into(),
        PrivilegeType::Execute => "PExecute".into(),
        PrivilegeType::Trigger => "PTrigger".into(),
        PrivilegeType::Under => "PUnder".into(),
        PrivilegeType::AllPrivileges => "PAllPrivileges".into(),
    }
}
fn coq_privs(v: &[PrivilegeType]) -> String {
    format!("[{}]", v.iter().map(coq_priv).collect::<Vec<_>>().join("; "))
}
fn coq_objtype(o: &ObjectType) -> &'static str {
    match o {
        ObjectType::Table => "OTable",
        ObjectType::Schema => "OSchema",
        ObjectType::Domain => "ODomain",
        ObjectType::Collation => "OCollation",
        ObjectType::CharacterSet => "OCharacterSet",
        ObjectType::Translation => "OTranslation",
        ObjectType::Type => "OType",
        ObjectType::Sequence => "OSequence",
        ObjectType::Function => "OFunction",
        ObjectType::Procedure => "OProcedure",
        ObjectType::Routine => "ORoutine",
        ObjectType::Method => "OMethod",
        ObjectType::ConstructorMethod => "OConstructorMethod",
        ObjectType::StaticMethod => "OStaticMethod",
        ObjectType::InstanceMethod => "OInstanceMethod",
        ObjectType::SpecificFunction => "OSpecificFunction",
        ObjectType::SpecificProcedure => "OSpecificProcedure",
        ObjectType::SpecificRoutine => "OSpecificRoutine",
        ObjectType::SpecificMethod => "OSpecificMethod",
        ObjectType::SpecificConstructorMethod => "OSpecificConstructorMethod",
        ObjectType::SpecificStaticMethod => "OSpecificStaticMethod",
        ObjectType::SpecificInstanceMethod => "OSpecificInstanceMethod",
    }
}
fn coq_bool(b: bool) -> &'static str {
    if b {
        "true"
    } else {
        "false"
    }
}

/// result code shared with Run/C26Run.v: 0 ok, 1 table not found, 2 schema not found, 3 role not found,
/// 4 role exists, 5 dependent privileges, 6 permission denied, 7 anything else, 8 panic, 9 process died
fn exec_code(r: &Result<(), ExecutorError>) -> i64 {
    match r {
        Ok(()) => 0,
        Err(ExecutorError::TableNotFound(_)) => 1,
        Err(ExecutorError::SchemaNotFound(_)) => 2,
        Err(ExecutorError::RoleNotFound(_)) => 3,
        Err(ExecutorError::DependentPrivilegesExist(_)) => 5,
        Err(ExecutorError::PermissionDenied { .. }) => 6,
        Err(ExecutorError::StorageError(m)) if m.contains("RoleAlreadyExists") => 4,
        Err(ExecutorError::StorageError(m)) if m.contains("RoleNotFound") => 3,
        Err(_) => 7,
    }
}
fn outcome_code(o: &Outcome) -> i64 {
    match o {
        Outcome::Rows(_) | Outcome::Count(_) | Outcome::Done => 0,
        Outcome::Err(ErrClass::Permission, _) => 6,
        Outcome::Err(_, _) => 7,
        Outcome::Panic(_) => 8,
    }
}

// ---------------------------------------------------------------------------------------------------
// Part A: privilege histories
// ---------------------------------------------------------------------------------------------------

const ROLE_POOL: &[&str] = &["R1", "R2", "R3", "R4", "PUBLIC", "ADMIN", "DBA", "GHOST"];
const TABLE_POOL: &[&str] = &["T1", "T2", "T3"];

#[derive(Clone, Debug)]
enum HOp {
    Sql(String),           // CREATE ROLE / DROP ROLE / GRANT / REVOKE text
    SetRole(Option<String>),
    SetSecurity(bool),
    Check(u8, String),     // kind 0..6 = select insert update delete create drop alter
    AddTable(String),
    DelTable(String),
}

fn script_line(o: &HOp) -> String {
    match o {
        HOp::Sql(s) => format!("SQL {}", s),
        HOp::SetRole(Some(r)) => format!("ROLE {}", r),
        HOp::SetRole(None) => "NOROLE".into(),
        HOp::SetSecurity(b) => format!("SEC {}", *b as u8),
        HOp::Check(k, t) => format!("CHECK {} {}", k, t),
        HOp::AddTable(t) => format!("ADDTABLE {}", t),
        HOp::DelTable(t) => format!("DELTABLE {}", t),
    }
}
fn parse_script_line(l: &str) -> Option<HOp> {
    let (k, rest) = l.split_once(' ').unwrap_or((l, ""));
    Some(match k {
        "SQL" => HOp::Sql(rest.to_string()),
        "ROLE" => HOp::SetRole(Some(rest.to_string())),
        "NOROLE" => HOp::SetRole(None),
        "SEC" => HOp::SetSecurity(rest == "1"),
        "CHECK" => {
            let (a, b) = rest.split_once(' ')?;
            HOp::Check(a.parse().ok()?, b.to_string())
        }
        "ADDTABLE" => HOp::AddTable(rest.to_string()),
        "DELTABLE" => HOp::DelTable(rest.to_string()),
        _ => return None,
    })
}

fn priv_sql(p: &PrivilegeType) -> String {
    let cols = |c: &Option<Vec<String>>| match c {
        None => String::new(),
        Some(v) => format!(" ({})", v.join(", ")),
    };
    match p {
        PrivilegeType::Select(c) => format!("SELECT{}", cols(c)),
        PrivilegeType::Insert(c) => format!("INSERT{}", cols(c)),
        PrivilegeType::Update(c) => format!("UPDATE{}", cols(c)),
        PrivilegeType::Delete => "DELETE".into(),
        PrivilegeType::References(c) => format!("REFERENCES{}", cols(c)),
        PrivilegeType::Usage => "USAGE".into(),
        PrivilegeType::Create => "CREATE".into(),
        PrivilegeType::Execute => "EXECUTE".into(),
        PrivilegeType::Trigger => "TRIGGER".into(),
        PrivilegeType::Under => "UNDER".into(),
        PrivilegeType::AllPrivileges => "ALL PRIVILEGES".into(),
    }
}

fn gen_priv(r: &mut Rng) -> PrivilegeType {
    match r.below(24) {
        0..=5 => PrivilegeType::Select(None),
        6..=8 => PrivilegeType::Insert(None),
        9..=11 => PrivilegeType::Update(None),
        12..=14 => PrivilegeType::Delete,
        15 => PrivilegeType::References(None),
        16 => PrivilegeType::Select(Some(vec!["V".into()])),
        17 => PrivilegeType::Update(Some(vec!["ID".into(), "V".into()])),
        18 => PrivilegeType::Usage,
        19 => PrivilegeType::Create,
        20 => PrivilegeType::Execute,
        21 => PrivilegeType::Trigger,
        22 => PrivilegeType::Insert(Some(vec!["V".into()])),
        _ => PrivilegeType::Under,
    }
}

fn gen_priv_list(r: &mut Rng) -> Vec<PrivilegeType> {
    if r.chance(1, 5) {
        return vec![PrivilegeType::AllPrivileges];
    }
    let n = 1 + r.below(3) as usize;
    (0..n).map(|_| gen_priv(r)).collect()
}

fn gen_object(r: &mut Rng) -> (String, String) {
    // (object type keyword incl. trailing space or "", object name)
    match r.below(20) {
        0..=10 => ((if r.chance(1, 2) { "TABLE " } else { "" }).to_string(), r.pick(TABLE_POOL).to_string()),
        11 => ("TABLE ".into(), "NOPE".into()),
        12 => ("SCHEMA ".into(), "S2".into()),
        13 => ("SCHEMA ".into(), "NOSCHEMA".into()),
        14 => ("TABLE ".into(), "S2".into()),
        15 => ("DOMAIN ".into(), "DOM1".into()),
        16 => ("SEQUENCE ".into(), "SEQ1".into()),
        17 => ("FUNCTION ".into(), "FN1".into()),
        18 => ("SPECIFIC PROCEDURE ".into(), "PR1".into()),
        _ => ("TYPE ".into(), r.pick(TABLE_POOL).to_string()),
    }
}

fn gen_grantees(r: &mut Rng) -> Vec<String> {
    let n = if r.chance(1, 4) { 2 } else { 1 };
    (0..n)
        .map(|_| {
            let lim = if r.chance(1, 12) { 8 } else { 5 };
            r.pick(&ROLE_POOL[..lim]).to_string()
        })
        .collect()
}

fn gen_history(r: &mut Rng, len: usize) -> Vec<HOp> {
    let mut h = Vec::new();
    // mostly-valid prefix: a few roles exist, security usually on
    for role in ROLE_POOL.iter().take(4) {
        if r.chance(4, 5) {
            h.push(HOp::Sql(format!("CREATE ROLE {}", role)));
        }
    }
    if r.chance(1, 3) {
        h.push(HOp::Sql("CREATE ROLE PUBLIC".into()));
    }
    // administrator phase (security still off, nothing is checked): seed some privileges, many WITH GRANT OPTION,
    // so that the authority check of GRANT has something to accept later
    for _ in 0..r.below(5) {
        let privs = gen_priv_list(r);
        let t = r.pick(TABLE_POOL).to_string();
        let ge = gen_grantees(r);
        let wgo = if r.chance(2, 3) { " WITH GRANT OPTION" } else { "" };
        h.push(HOp::Sql(format!("GRANT {} ON {} TO {}{}", privs.iter().map(priv_sql).collect::<Vec<_>>().join(", "), t, ge.join(", "), wgo)));
    }
    if r.chance(3, 4) {
        h.push(HOp::SetSecurity(true));
    }
    while h.len() < len {
        match r.below(100) {
            0..=33 => {
                let privs = gen_priv_list(r);
                let (kw, obj) = gen_object(r);
                // the parser infers the object type from USAGE / EXECUTE when none is written; keep the keyword then
                let kw = if kw.is_empty() && privs.iter().any(|p| matches!(p, PrivilegeType::Usage | PrivilegeType::Execute)) { "TABLE ".to_string() } else { kw };
                let ge = gen_grantees(r);
                let wgo = if r.chance(1, 3) { " WITH GRANT OPTION" } else { "" };
                h.push(HOp::Sql(format!("GRANT {} ON {}{} TO {}{}", privs.iter().map(priv_sql).collect::<Vec<_>>().join(", "), kw, obj, ge.join(", "), wgo)));
            }
            34..=57 => {
                let privs = gen_priv_list(r);
                let (kw, obj) = gen_object(r);
                let kw = if kw.is_empty() && privs.iter().any(|p| matches!(p, PrivilegeType::Usage | PrivilegeType::Execute)) { "TABLE ".to_string() } else { kw };
                let ge = gen_grantees(r);
                let gof = if r.chance(1, 4) { "GRANT OPTION FOR " } else { "" };
                let casc = match r.below(6) {
                    0 | 1 => " CASCADE",
                    2 => " RESTRICT",
                    _ => "",
                };
                let by = if r.chance(1, 10) { " GRANTED BY R1" } else { "" };
                h.push(HOp::Sql(format!("REVOKE {}{} ON {}{} FROM {}{}{}", gof, privs.iter().map(priv_sql).collect::<Vec<_>>().join(", "), kw, obj, ge.join(", "), by, casc)));
            }
            58..=69 => {
                let role = if r.chance(1, 8) {
                    None
                } else if r.chance(1, 4) {
                    Some((if r.chance(1, 2) { "ADMIN" } else { "DBA" }).to_string())
                } else {
                    Some(r.pick(ROLE_POOL).to_string())
                };
                h.push(HOp::SetRole(role));
            }
            70..=72 => h.push(HOp::SetSecurity(r.chance(3, 4))),
            73..=90 => {
                let kind = if r.chance(4, 5) { r.below(4) as u8 } else { 4 + r.below(3) as u8 };
                let obj = match r.below(10) {
                    0 => "NOPE".to_string(),
                    1 => "S2".to_string(),
                    2 => "public".to_string(),
                    _ => r.pick(TABLE_POOL).to_string(),
                };
                h.push(HOp::Check(kind, obj));
            }
            91..=93 => h.push(HOp::Sql(format!("CREATE ROLE {}", r.pick(ROLE_POOL)))),
            94..=95 => h.push(HOp::Sql(format!("DROP ROLE {}", r.pick(ROLE_POOL)))),
            96..=97 => h.push(HOp::AddTable(r.pick(TABLE_POOL).to_string())),
            _ => h.push(HOp::DelTable(r.pick(TABLE_POOL).to_string())),
        }
    }
    h
}

/// delegation chains / cycles written on purpose (CASCADE, RESTRICT and GRANT OPTION FOR behaviour)
fn gen_chain_history(r: &mut Rng) -> Vec<HOp> {
    let mut h: Vec<HOp> = ["R1", "R2", "R3", "R4"].iter().map(|x| HOp::Sql(format!("CREATE ROLE {}", x))).collect();
    let t = r.pick(TABLE_POOL).to_string();
    let p = ["SELECT", "INSERT", "UPDATE", "DELETE", "ALL PRIVILEGES"][r.below(5) as usize];
    h.push(HOp::Sql(format!("GRANT {} ON {} TO R1 WITH GRANT OPTION", p, t)));
    let secure_chain = r.chance(1, 2);
    if secure_chain {
        // the chain is built under security: only delegations covered by a grant option succeed
        h.push(HOp::SetSecurity(true));
    }
    let n = 2 + r.below(5);
    for _ in 0..n {
        let from = format!("R{}", 1 + r.below(4));
        let to = format!("R{}", 1 + r.below(4));
        h.push(HOp::SetRole(Some(from)));
        let pp = if r.chance(1, 4) { "SELECT" } else { p };
        h.push(HOp::Sql(format!("GRANT {} ON {} TO {}{}", pp, t, to, if r.chance(3, 4) { " WITH GRANT OPTION" } else { "" })));
    }
    h.push(HOp::SetRole(if secure_chain { Some("ADMIN".to_string()) } else { None }));
    h.push(HOp::SetSecurity(true));
    let victim = format!("R{}", 1 + r.below(4));
    let stmt = match r.below(6) {
        0 => format!("REVOKE GRANT OPTION FOR {} ON {} FROM {} CASCADE", p, t, victim),
        1 => format!("REVOKE {} ON {} FROM {} RESTRICT", p, t, victim),
        2 => format!("REVOKE {} ON {} FROM {}", p, t, victim),
        3 => format!("REVOKE GRANT OPTION FOR {} ON {} FROM {}", p, t, victim),
        _ => format!("REVOKE {} ON {} FROM {} CASCADE", p, t, victim),
    };
    h.push(HOp::Sql(stmt));
    for role in ["R1", "R2", "R3", "R4"] {
        h.push(HOp::SetRole(Some(role.to_string())));
        for k in 0..4u8 {
            h.push(HOp::Check(k, t.clone()));
        }
    }
    h
}

struct HState {
    db: Database,
    next_id: i64,
}

fn new_hstate(tables: &[String], with_s2: bool) -> HState {
    let mut db = Database::new();
    if with_s2 {
        if let Ok(Statement::CreateSchema(s)) = vibesql_parser::Parser::parse_sql("CREATE SCHEMA S2") {
            vibesql_executor::SchemaExecutor::execute_create_schema(&s, &mut db).expect("harness: create schema");
        }
    }
    for t in tables {
        must(&mut db, &format!("CREATE TABLE {} (id INT PRIMARY KEY, v INT)", t));
        must(&mut db, &format!("INSERT INTO {} VALUES (1, 10), (2, 20)", t));
    }
    HState { db, next_id: 100 }
}

/// environment actions of the administrator: run with the security flag off, then restore it
fn as_admin<T>(db: &mut Database, f: impl FnOnce(&mut Database) -> T) -> T {
    let sec = db.is_security_enabled();
    db.disable_security();
    let out = f(db);
    if sec {
        db.enable_security();
    }
    out
}

/// would REVOKE GRANT OPTION FOR ... CASCADE from these (grantee, privilege) pairs recurse forever WITHOUT a visited set?
/// (the grants are not removed in that mode, so the recursion follows grantor -> grantee edges of an unchanged graph;
/// this is the situation that killed the process before the revoke-cascade-visited-set fix)
fn cascade_would_loop(db: &Database, obj: &str, grantees: &[String], privs: &[PrivilegeType]) -> bool {
    let grants = db.catalog.get_all_grants();
    fn dfs(grants: &[vibesql_catalog::PrivilegeGrant], obj: &str, p: &PrivilegeType, x: &str, stack: &mut Vec<String>, depth: usize) -> bool {
        if stack.iter().any(|s| s == x) {
            return true;
        }
        if depth > 64 {
            return true; // deep enough to be treated as unsafe to run in-process
        }
        stack.push(x.to_string());
        for g in grants.iter().filter(|g| g.object == obj && g.grantor == x && g.privilege == *p) {
            if dfs(grants, obj, p, &g.grantee, stack, depth + 1) {
                return true;
            }
        }
        stack.pop();
        false
    }
    for ge in grantees {
        for p in privs {
            let mut st = Vec::new();
            if dfs(grants, obj, p, ge, &mut st, 0) {
                return true;
            }
        }
    }
    false
}

fn expand_privs(privs: &[PrivilegeType], ot: &ObjectType) -> Vec<PrivilegeType> {
    if !privs.contains(&PrivilegeType::AllPrivileges) {
        return privs.to_vec();
    }
    match ot {
        ObjectType::Table => vec![PrivilegeType::Select(None), PrivilegeType::Insert(None), PrivilegeType::Update(None), PrivilegeType::Delete, PrivilegeType::References(None)],
        ObjectType::Schema => vec![PrivilegeType::Usage, PrivilegeType::Create],
        ObjectType::Domain | ObjectType::Collation | ObjectType::CharacterSet | ObjectType::Translation | ObjectType::Type | ObjectType::Sequence => vec![PrivilegeType::Usage],
        _ => vec![PrivilegeType::Execute],
    }
}

struct StepObs {
    coq_op: Option<String>, // None: the statement did not parse (not part of the model history)
    code: i64,
    note: String,
}

/// execute one history operation on the real code
fn run_hop(st: &mut HState, o: &HOp, allow_crash: bool) -> StepObs {
    let HState { db, next_id } = st;
    match o {
        HOp::SetRole(r) => {
            db.set_role(r.clone());
            StepObs { coq_op: Some(format!("OSetRole {}", match r { Some(x) => format!("(Some {})", coq_str(x)), None => "None".into() })), code: 0, note: String::new() }
        }
        HOp::SetSecurity(b) => {
            if *b {
                db.enable_security()
            } else {
                db.disable_security()
            }
            StepObs { coq_op: Some(format!("OSetSecurity {}", coq_bool(*b))), code: 0, note: String::new() }
        }
        HOp::AddTable(t) => {
            if !db.catalog.table_exists(t) {
                let t2 = t.clone();
                as_admin(db, |db| {
                    must(db, &format!("CREATE TABLE {} (id INT PRIMARY KEY, v INT)", t2));
                    must(db, &format!("INSERT INTO {} VALUES (1, 10), (2, 20)", t2));
                });
            }
            StepObs { coq_op: Some(format!("OAddTable {}", coq_str(t))), code: 0, note: String::new() }
        }
        HOp::DelTable(t) => {
            if db.catalog.table_exists(t) {
                let t2 = t.clone();
                as_admin(db, |db| must(db, &format!("DROP TABLE {}", t2)));
            }
            StepObs { coq_op: Some(format!("ODelTable {}", coq_str(t))), code: 0, note: String::new() }
        }
        HOp::Check(k, t) => {
            let r = match k {
                0 => PrivilegeChecker::check_select(db, t),
                1 => PrivilegeChecker::check_insert(db, t),
                2 => PrivilegeChecker::check_update(db, t),
                3 => PrivilegeChecker::check_delete(db, t),
                4 => PrivilegeChecker::check_create(db, t),
                5 => PrivilegeChecker::check_drop(db, t),
                _ => PrivilegeChecker::check_alter(db, t),
            };
            let code = exec_code(&r);
            let mut note = String::new();
            // the same decision through the direct statement path
            if *k < 4 && db.catalog.table_exists(t) {
                let sql = match k {
                    0 => format!("SELECT * FROM {}", t),
                    1 => {
                        *next_id += 1;
                        format!("INSERT INTO {} VALUES ({}, 0)", t, *next_id)
                    }
                    2 => format!("UPDATE {} SET v = v WHERE 1 = 0", t),
                    _ => format!("DELETE FROM {} WHERE 1 = 0", t),
                };
                let oc = outcome_code(&exec(db, &sql));
                if oc != code {
                    note = format!("direct statement `{}` answered {} but PrivilegeChecker answered {}", sql, oc, code);
                }
            }
            let kind = ["KSelect", "KInsert", "KUpdate", "KDelete", "KCreate", "KDrop", "KAlter"][*k as usize];
            StepObs { coq_op: Some(format!("OCheck {} {}", kind, coq_str(t))), code, note }
        }
        HOp::Sql(sql) => {
            let stmt = match parse(sql) {
                Ok(s) => s,
                Err(o) => return StepObs { coq_op: None, code: 7, note: format!("parse: {:?}", o) },
            };
            match &stmt {
                Statement::CreateRole(s) => {
                    let r = vibesql_executor::RoleExecutor::execute_create_role(s, db).map(|_| ());
                    StepObs { coq_op: Some(format!("OCreateRole {}", coq_str(&s.role_name))), code: exec_code(&r), note: String::new() }
                }
                Statement::DropRole(s) => {
                    let r = vibesql_executor::RoleExecutor::execute_drop_role(s, db).map(|_| ());
                    StepObs { coq_op: Some(format!("ODropRole {}", coq_str(&s.role_name))), code: exec_code(&r), note: String::new() }
                }
                Statement::Grant(s) => {
                    let op = format!("OGrant {} {} {} {} {}", coq_privs(&s.privileges), coq_objtype(&s.object_type), coq_str(&s.object_name), coq_strs(&s.grantees), coq_bool(s.with_grant_option));
                    let r = std::panic::catch_unwind(std::panic::AssertUnwindSafe(|| vibesql_executor::GrantExecutor::execute_grant(s, db).map(|_| ())));
                    let code = match r {
                        Ok(r) => exec_code(&r),
                        Err(_) => 8,
                    };
                    StepObs { coq_op: Some(op), code, note: String::new() }
                }
                Statement::Revoke(s) => {
                    let casc = match s.cascade_option {
                        CascadeOption::None => "CNone",
                        CascadeOption::Cascade => "CCascade",
                        CascadeOption::Restrict => "CRestrict",
                    };
                    let op = format!("ORevoke {} {} {} {} {} {}", coq_bool(s.grant_option_for), coq_privs(&s.privileges), coq_objtype(&s.object_type), coq_str(&s.object_name), coq_strs(&s.grantees), casc);
                    // would the statement reach revoke_cascade on a cyclic delegation graph?  (validation happens first)
                    let passes_validation = match s.object_type {
                        ObjectType::Table => db.catalog.table_exists(&s.object_name),
                        ObjectType::Schema => db.catalog.schema_exists(&s.object_name),
                        _ => true,
                    } && s.grantees.iter().all(|g| db.catalog.role_exists(g));
                    if s.grant_option_for
                        && matches!(s.cascade_option, CascadeOption::Cascade)
                        && passes_validation
                        && cascade_would_loop(db, &s.object_name, &s.grantees, &expand_privs(&s.privileges, &s.object_type))
                        && !allow_crash
                    {
                        return StepObs { coq_op: Some(op), code: 9, note: "cyclic delegation graph: tried in a child process first".into() };
                    }
                    let r = std::panic::catch_unwind(std::panic::AssertUnwindSafe(|| vibesql_executor::RevokeExecutor::execute_revoke(s, db).map(|_| ())));
                    let code = match r {
                        Ok(r) => exec_code(&r),
                        Err(_) => 8,
                    };
                    StepObs { coq_op: Some(op), code, note: String::new() }
                }
                _ => StepObs { coq_op: None, code: 7, note: "unexpected statement kind".into() },
            }
        }
    }
}

fn coq_grant(g: &vibesql_catalog::PrivilegeGrant) -> String {
    format!(
        "mkGrant {} {} {} {} {} {}",
        coq_str(&g.object),
        coq_objtype(&g.object_type),
        coq_priv(&g.privilege),
        coq_str(&g.grantee),
        coq_str(&g.grantor),
        coq_bool(g.with_grant_option)
    )
}

/// child process: replay a script; the parent looks at how we die
fn crash_probe(path: &str) -> ! {
    let text = std::fs::read_to_string(path).expect("script");
    let mut lines = text.lines();
    let tables: Vec<String> = lines.next().unwrap_or("").split_whitespace().map(|s| s.to_string()).collect();
    let with_s2 = lines.next().unwrap_or("0") == "1";
    let mut st = new_hstate(&tables, with_s2);
    for l in lines {
        if let Some(o) = parse_script_line(l) {
            let _ = run_hop(&mut st, &o, true);
        }
    }
    println!("SURVIVED");
    std::process::exit(0)
}

fn confirm_crash(args: &Args, tables: &[String], with_s2: bool, ops: &[HOp], id: u64) -> (bool, String) {
    let path = args.out.join(format!("crash_{}.script", id));
    let mut text = format!("{}\n{}\n", tables.join(" "), with_s2 as u8);
    for o in ops {
        text.push_str(&script_line(o));
        text.push('\n');
    }
    std::fs::write(&path, text).expect("write script");
    let exe = std::env::current_exe().expect("exe");
    let out = std::process::Command::new(exe).arg("--crash-probe").arg(&path).env("RUST_BACKTRACE", "0").output();
    let _ = std::fs::remove_file(&path);
    match out {
        Ok(o) => {
            let survived = String::from_utf8_lossy(&o.stdout).contains("SURVIVED");
            let err = String::from_utf8_lossy(&o.stderr).to_string();
            (!survived && !o.status.success(), format!("status {:?}; stderr: {}", o.status, err.lines().filter(|l| l.contains("overflow")).collect::<Vec<_>>().join(" | ")))
        }
        Err(e) => (false, format!("spawn failed: {}", e)),
    }
}

// ---------------------------------------------------------------------------------------------------
// Part B: access paths
// ---------------------------------------------------------------------------------------------------

const TBL_NAMES: &[&str] = &["T", "S", "M", "VS", "C", "U", "P", "D"]; // codes 0..7 as in Run/C26Run.v
const TBL_COQ: &[&str] = &["TT", "TS", "TM", "TV", "TC", "TU", "TP", "TD"];
const ACC_SQL: &[&str] = &["SELECT", "INSERT", "UPDATE", "DELETE"];
const ACC_COQ: &[&str] = &["ASel", "AIns", "AUpd", "ADel"];
const SEL: u8 = 0;
const INS: u8 = 1;
const UPD: u8 = 2;
const DEL: u8 = 3;
const T: u8 = 0;
const S: u8 = 1;
const M: u8 = 2;
const V: u8 = 3;
const U: u8 = 5;
const P: u8 = 6;
const D: u8 = 7;

struct PathDef {
    ctor: &'static str,
    sql: &'static str,
    required: &'static [(u8, u8)],
    checked_extra: &'static [(u8, u8)], // checked by the code but not required by the property
    class: &'static str,                // known defect class of this path ("" = none)
}

const PATHS: &[PathDef] = &[
    PathDef { ctor: "P_scan", sql: "SELECT * FROM s", required: &[(S, SEL)], checked_extra: &[], class: "" },
    PathDef { ctor: "P_scan_where", sql: "SELECT id FROM s WHERE v > 150", required: &[(S, SEL)], checked_extra: &[], class: "" },
    PathDef { ctor: "P_index_scan", sql: "SELECT * FROM s WHERE k = 20", required: &[(S, SEL)], checked_extra: &[], class: "" },
    PathDef { ctor: "P_pk_lookup", sql: "SELECT * FROM s WHERE id = 101", required: &[(S, SEL)], checked_extra: &[], class: "" },
    PathDef { ctor: "P_order_limit", sql: "SELECT v FROM s ORDER BY v DESC LIMIT 2", required: &[(S, SEL)], checked_extra: &[], class: "" },
    PathDef { ctor: "P_join_inner", sql: "SELECT m.id, s.v FROM m JOIN s ON m.k = s.k", required: &[(M, SEL), (S, SEL)], checked_extra: &[], class: "" },
    PathDef { ctor: "P_join_secret_left", sql: "SELECT s.id, m.v FROM s JOIN m ON s.k = m.k", required: &[(M, SEL), (S, SEL)], checked_extra: &[], class: "" },
    PathDef { ctor: "P_join_comma", sql: "SELECT m.id FROM m, s WHERE m.k = s.k", required: &[(M, SEL), (S, SEL)], checked_extra: &[], class: "" },
    PathDef { ctor: "P_left_join", sql: "SELECT m.id, s.v FROM m LEFT JOIN s ON m.k = s.k", required: &[(M, SEL), (S, SEL)], checked_extra: &[], class: "" },
    PathDef { ctor: "P_derived", sql: "SELECT d1.v FROM (SELECT v FROM s) AS d1", required: &[(S, SEL)], checked_extra: &[], class: "" },
    PathDef { ctor: "P_view", sql: "SELECT * FROM vs", required: &[(S, SEL)], checked_extra: &[(V, SEL)], class: "" },
    PathDef { ctor: "P_cte", sql: "WITH c1 AS (SELECT v FROM s) SELECT * FROM c1", required: &[(S, SEL)], checked_extra: &[], class: "" },
    PathDef { ctor: "P_scalar_subquery", sql: "SELECT id, (SELECT MAX(v) FROM s) FROM m", required: &[(M, SEL), (S, SEL)], checked_extra: &[], class: "" },
    PathDef { ctor: "P_in_subquery_where", sql: "SELECT id FROM m WHERE k IN (SELECT k FROM s)", required: &[(M, SEL), (S, SEL)], checked_extra: &[], class: "" },
    PathDef { ctor: "P_in_subquery_select_list", sql: "SELECT id, k IN (SELECT k FROM s) FROM m", required: &[(M, SEL), (S, SEL)], checked_extra: &[], class: "" },
    PathDef { ctor: "P_not_in_subquery", sql: "SELECT id FROM m WHERE k NOT IN (SELECT k FROM s)", required: &[(M, SEL), (S, SEL)], checked_extra: &[], class: "" },
    PathDef { ctor: "P_exists_correlated", sql: "SELECT id FROM m WHERE EXISTS (SELECT 1 FROM s WHERE s.k = m.k)", required: &[(M, SEL), (S, SEL)], checked_extra: &[], class: "" },
    PathDef { ctor: "P_quantified_any", sql: "SELECT id FROM m WHERE k = ANY (SELECT k FROM s)", required: &[(M, SEL), (S, SEL)], checked_extra: &[], class: "" },
    PathDef { ctor: "P_union", sql: "SELECT id FROM m UNION SELECT id FROM s", required: &[(M, SEL), (S, SEL)], checked_extra: &[], class: "" },
    PathDef { ctor: "P_count_star", sql: "SELECT COUNT(*) FROM s", required: &[(S, SEL)], checked_extra: &[], class: "" },
    PathDef { ctor: "P_sum", sql: "SELECT SUM(v) FROM s", required: &[(S, SEL)], checked_extra: &[], class: "" },
    PathDef { ctor: "P_group_by", sql: "SELECT k, COUNT(*) FROM s GROUP BY k", required: &[(S, SEL)], checked_extra: &[], class: "" },
    PathDef { ctor: "P_count_star_order_by", sql: "SELECT COUNT(*) FROM s ORDER BY 1", required: &[(S, SEL)], checked_extra: &[], class: "" },
    PathDef { ctor: "P_count_star_limit", sql: "SELECT COUNT(*) FROM s LIMIT 1", required: &[(S, SEL)], checked_extra: &[], class: "" },
    PathDef { ctor: "P_count_star_union_arm", sql: "SELECT 0 UNION ALL SELECT COUNT(*) FROM s", required: &[(S, SEL)], checked_extra: &[], class: "" },
    PathDef { ctor: "P_count_star_with_cte", sql: "WITH c1 AS (SELECT 1 AS x) SELECT COUNT(*) FROM s", required: &[(S, SEL)], checked_extra: &[], class: "" },
    PathDef { ctor: "P_count_star_scalar_limit", sql: "SELECT id, (SELECT COUNT(*) FROM s LIMIT 1) FROM m", required: &[(M, SEL), (S, SEL)], checked_extra: &[], class: "" },
    PathDef { ctor: "P_in_index_order_by", sql: "SELECT id FROM m ORDER BY k IN (SELECT k FROM s), id", required: &[(M, SEL), (S, SEL)], checked_extra: &[], class: "" },
    PathDef { ctor: "P_in_index_group_by", sql: "SELECT COUNT(*) FROM m GROUP BY k IN (SELECT k FROM s)", required: &[(M, SEL), (S, SEL)], checked_extra: &[], class: "" },
    PathDef { ctor: "P_in_index_partition_by", sql: "SELECT id, SUM(v) OVER (PARTITION BY k IN (SELECT k FROM s)) FROM m", required: &[(M, SEL), (S, SEL)], checked_extra: &[], class: "" },
    PathDef { ctor: "P_window_partition_subquery", sql: "SELECT id, SUM(v) OVER (PARTITION BY (SELECT COUNT(*) FROM s WHERE s.k = m.k)) FROM m", required: &[(M, SEL), (S, SEL)], checked_extra: &[], class: "" },
    PathDef { ctor: "P_insert_values", sql: "INSERT INTO t VALUES (50, 5, 5)", required: &[(T, INS)], checked_extra: &[], class: "" },
    PathDef { ctor: "P_insert_select", sql: "INSERT INTO t SELECT id + 1000, k, v FROM s", required: &[(T, INS), (S, SEL)], checked_extra: &[], class: "" },
    PathDef { ctor: "P_insert_select_columns", sql: "INSERT INTO t (id, k, v) SELECT id, k, v FROM s", required: &[(T, INS), (S, SEL)], checked_extra: &[], class: "" },
    PathDef { ctor: "P_insert_select_bulk", sql: "INSERT INTO t SELECT * FROM s", required: &[(T, INS), (S, SEL)], checked_extra: &[], class: "" },
    PathDef { ctor: "P_insert_select_subquery", sql: "INSERT INTO t SELECT id + 2000, k, v FROM m WHERE k IN (SELECT k FROM s)", required: &[(T, INS), (M, SEL), (S, SEL)], checked_extra: &[], class: "" },
    PathDef { ctor: "P_update_plain", sql: "UPDATE u SET v = v + 1", required: &[(U, UPD)], checked_extra: &[], class: "" },
    PathDef { ctor: "P_update_pk", sql: "UPDATE u SET v = 0 WHERE id = 1", required: &[(U, UPD)], checked_extra: &[], class: "" },
    PathDef { ctor: "P_update_where_subquery", sql: "UPDATE u SET v = 0 WHERE k IN (SELECT k FROM s)", required: &[(U, UPD), (S, SEL)], checked_extra: &[], class: "" },
    PathDef { ctor: "P_update_set_subquery", sql: "UPDATE u SET v = (SELECT MAX(v) FROM s)", required: &[(U, UPD), (S, SEL)], checked_extra: &[], class: "" },
    PathDef { ctor: "P_update_where_exists", sql: "UPDATE u SET v = 0 WHERE EXISTS (SELECT 1 FROM s WHERE s.k = u.k)", required: &[(U, UPD), (S, SEL)], checked_extra: &[], class: "" },
    PathDef { ctor: "P_delete_where", sql: "DELETE FROM u WHERE v > 1", required: &[(U, DEL)], checked_extra: &[], class: "" },
    PathDef { ctor: "P_delete_pk", sql: "DELETE FROM u WHERE id = 1", required: &[(U, DEL)], checked_extra: &[], class: "" },
    PathDef { ctor: "P_delete_all", sql: "DELETE FROM u", required: &[(U, DEL)], checked_extra: &[], class: "" },
    PathDef { ctor: "P_delete_where_subquery", sql: "DELETE FROM u WHERE k IN (SELECT k FROM s)", required: &[(U, DEL), (S, SEL)], checked_extra: &[], class: "" },
    PathDef { ctor: "P_delete_where_exists", sql: "DELETE FROM u WHERE EXISTS (SELECT 1 FROM s WHERE s.k = u.k)", required: &[(U, DEL), (S, SEL)], checked_extra: &[], class: "" },
    PathDef { ctor: "P_truncate", sql: "TRUNCATE TABLE u", required: &[(U, DEL)], checked_extra: &[], class: "" },
    PathDef { ctor: "P_truncate_multi", sql: "TRUNCATE TABLE u, m", required: &[(U, DEL), (M, DEL)], checked_extra: &[], class: "" },
    PathDef { ctor: "P_truncate_cascade", sql: "TRUNCATE TABLE p CASCADE", required: &[(P, DEL), (D, DEL)], checked_extra: &[], class: "" },
    PathDef { ctor: "P_truncate_multi_cascade", sql: "TRUNCATE TABLE u, p CASCADE", required: &[(U, DEL), (P, DEL), (D, DEL)], checked_extra: &[], class: "" },
    PathDef { ctor: "P_on_duplicate_key_update", sql: "INSERT INTO u VALUES (1, 9, 9), (60, 6, 6) ON DUPLICATE KEY UPDATE v = 99", required: &[(U, INS), (U, UPD)], checked_extra: &[], class: "" },
    PathDef { ctor: "P_replace_into", sql: "REPLACE INTO u VALUES (1, 9, 9)", required: &[(U, INS), (U, DEL)], checked_extra: &[], class: "" },
    PathDef { ctor: "P_insert_or_replace", sql: "INSERT OR REPLACE INTO u VALUES (1, 9, 9)", required: &[(U, INS), (U, DEL)], checked_extra: &[], class: "" },
    PathDef { ctor: "P_fk_cascade_delete", sql: "DELETE FROM t WHERE id = 1", required: &[(T, DEL)], checked_extra: &[], class: "" },
    PathDef { ctor: "P_fk_cascade_update", sql: "UPDATE t SET id = 70 WHERE id = 2", required: &[(T, UPD)], checked_extra: &[], class: "" },
];

fn fixture(big: bool) -> Database {
    let mut db = Database::new();
    for t in ["t", "s", "m", "u", "p"] {
        must(&mut db, &format!("CREATE TABLE {} (id INT PRIMARY KEY, k INT, v INT)", t));
    }
    must(&mut db, "CREATE TABLE c (id INT PRIMARY KEY, tid INT, FOREIGN KEY (tid) REFERENCES t(id) ON DELETE CASCADE ON UPDATE CASCADE)");
    must(&mut db, "CREATE TABLE d (id INT PRIMARY KEY, pid INT, FOREIGN KEY (pid) REFERENCES p(id))");
    must(&mut db, "CREATE VIEW vs AS SELECT id, k, v FROM s");
    must(&mut db, "INSERT INTO t VALUES (1, 10, 1), (2, 20, 2), (3, 99, 3)");
    must(&mut db, "INSERT INTO s VALUES (101, 10, 100), (102, 20, 200), (103, 30, 300)");
    must(&mut db, "INSERT INTO m VALUES (1, 10, 1), (2, 50, 2), (3, 20, 3)");
    must(&mut db, "INSERT INTO u VALUES (1, 10, 1), (2, 20, 2), (3, 77, 3)");
    must(&mut db, "INSERT INTO c VALUES (1, 1), (2, 2)");
    must(&mut db, "INSERT INTO p VALUES (1, 1, 1), (2, 2, 2)");
    must(&mut db, "INSERT INTO d VALUES (1, 1)");
    if big {
        // more than 100 rows: the executor switches to vectorised / hash paths around that size
        // (rows go in through the storage API: 260 parsed INSERT statements per case are too slow)
        use vibesql_storage::Row;
        use vibesql_types::SqlValue::Integer;
        for i in 0..130i64 {
            db.insert_row("S", Row::new(vec![Integer(200 + i), Integer(1000 + i), Integer(400 + i)])).expect("harness: insert_row S");
            db.insert_row("M", Row::new(vec![Integer(10 + i), Integer(2000 + i), Integer(4 + i)])).expect("harness: insert_row M");
        }
    }
    // after the rows: the index is built over the final contents
    must(&mut db, "CREATE INDEX s_k ON s (k)");
    db
}

type Snapshot = BTreeMap<String, Vec<String>>;

/// every base table through the storage API (no privilege check there), canonical and order-insensitive
fn snapshot(db: &Database, names: &[&str]) -> Snapshot {
    let mut m = BTreeMap::new();
    for n in names {
        let rows = db.get_table(n).map(|t| canon_bag(&t.scan().iter().map(|r| r.values.clone()).collect::<Vec<_>>()));
        m.insert(n.to_string(), rows.unwrap_or_else(|| vec!["<absent>".into()]));
    }
    m
}

fn changed_tables(a: &Snapshot, b: &Snapshot) -> Vec<String> {
    a.iter().filter(|(k, v)| b.get(*k) != Some(v)).map(|(k, _)| k.clone()).collect()
}

fn coq_pairs(v: &[(u8, u8)]) -> String {
    format!("[{}]", v.iter().map(|(t, a)| format!("({}, {})", TBL_COQ[*t as usize], ACC_COQ[*a as usize])).collect::<Vec<_>>().join("; "))
}

// ---------------------------------------------------------------------------------------------------
// Part C helpers: which base tables does a generated query read, and through which shape
// ---------------------------------------------------------------------------------------------------

/// `SELECT COUNT(*) FROM tabN` with nothing else: the shape of the executor's row_count() fast path
fn count_star_table(s: &Select) -> Option<usize> {
    if s.distinct || s.where_.is_some() || s.having.is_some() || s.from.len() != 1 {
        return None;
    }
    let t = match &s.from[0] {
        From::Table(t, _) => *t,
        _ => return None,
    };
    // the printed select list is exactly one COUNT(*) (aggregates that are not projected do not reach the SQL text)
    match (&s.grouping, s.proj.as_slice()) {
        (Some((keys, aggs)), [Expr::Col(0, i)]) if keys.is_empty() && aggs.get(*i).map(|a| a.0 == AggFn::CountStar).unwrap_or(false) => Some(t),
        _ => None,
    }
}

/// tables read "plainly" (through execute_table_scan) and tables read only through the COUNT(*) shape
fn tables_of_query(q: &Query, plain: &mut BTreeSet<usize>, count_star: &mut BTreeSet<usize>) {
    match q {
        Query::SetOp(_, _, l, r) => {
            tables_of_query(l, plain, count_star);
            tables_of_query(r, plain, count_star);
        }
        Query::Select(s) => {
            if let Some(t) = count_star_table(s) {
                count_star.insert(t);
                return;
            }
            for f in &s.from {
                tables_of_from(f, plain, count_star);
            }
            let mut exprs: Vec<&Expr> = Vec::new();
            exprs.extend(s.where_.iter());
            exprs.extend(s.having.iter());
            exprs.extend(s.proj.iter());
            if let Some((k, a)) = &s.grouping {
                exprs.extend(k.iter());
                exprs.extend(a.iter().map(|x| &x.2));
            }
            for e in exprs {
                tables_of_expr(e, plain, count_star);
            }
        }
    }
}
fn tables_of_from(f: &From, plain: &mut BTreeSet<usize>, cs: &mut BTreeSet<usize>) {
    match f {
        From::Table(t, _) => {
            plain.insert(*t);
        }
        From::Sub(q, _) => tables_of_query(q, plain, cs),
        From::View(_, _) => {} // not produced by Gen::query (views / CTE references belong to other harnesses)
        From::Join(_, l, r, on) => {
            tables_of_from(l, plain, cs);
            tables_of_from(r, plain, cs);
            tables_of_expr(on, plain, cs);
        }
    }
}
fn tables_of_expr(e: &Expr, plain: &mut BTreeSet<usize>, cs: &mut BTreeSet<usize>) {
    match e {
        Expr::Col(_, _) | Expr::Const(_) => {}
        Expr::Bin(_, a, b) => {
            tables_of_expr(a, plain, cs);
            tables_of_expr(b, plain, cs);
        }
        Expr::Not(a) | Expr::IsNull(a, _) => tables_of_expr(a, plain, cs),
        Expr::Between(a, b, c, _) => {
            tables_of_expr(a, plain, cs);
            tables_of_expr(b, plain, cs);
            tables_of_expr(c, plain, cs);
        }
        Expr::InList(a, l, _) => {
            tables_of_expr(a, plain, cs);
            for x in l {
                tables_of_expr(x, plain, cs);
            }
        }
        Expr::Case(w, el) => {
            for (a, b) in w {
                tables_of_expr(a, plain, cs);
                tables_of_expr(b, plain, cs);
            }
            if let Some(x) = el {
                tables_of_expr(x, plain, cs);
            }
        }
        Expr::Coalesce(l) => {
            for x in l {
                tables_of_expr(x, plain, cs);
            }
        }
        Expr::Scalar(q) | Expr::Exists(q, _) => tables_of_query(q, plain, cs),
        Expr::InSub(a, q, _) => {
            tables_of_expr(a, plain, cs);
            tables_of_query(q, plain, cs);
        }
    }
}

/// tables whose rows must be read to answer the query whatever the data is: the FROM items of the top-level
/// arms, recursively through derived tables (subqueries in expressions may be skipped by short-circuit
/// evaluation or empty outer tables).  A select of the bare COUNT(*) shape goes to `cstar` instead.
fn from_tables_top(q: &Query, plain: &mut BTreeSet<usize>, cstar: &mut BTreeSet<usize>) {
    match q {
        Query::SetOp(_, _, l, r) => {
            from_tables_top(l, plain, cstar);
            from_tables_top(r, plain, cstar);
        }
        Query::Select(s) => {
            if let Some(t) = count_star_table(s) {
                cstar.insert(t);
                return;
            }
            for f in &s.from {
                from_tables_rec(f, plain, cstar);
            }
        }
    }
}
fn from_tables_rec(f: &From, plain: &mut BTreeSet<usize>, cstar: &mut BTreeSet<usize>) {
    match f {
        From::Table(t, _) => {
            plain.insert(*t);
        }
        From::Sub(q, _) => from_tables_top(q, plain, cstar),
        From::View(_, _) => {}
        From::Join(_, l, r, _) => {
            from_tables_rec(l, plain, cstar);
            from_tables_rec(r, plain, cstar);
        }
    }
}

// ---------------------------------------------------------------------------------------------------
// main
// ---------------------------------------------------------------------------------------------------

const SHARD_HEADER: &str = "From Coq Require Import List String ZArith.\nFrom VibeSQL Require Import Store.Priv Store.PrivPaths Run.C26Run.\nImport ListNotations.\nOpen Scope string_scope.\nOpen Scope Z_scope.\n\n";

fn main() {
    let argv: Vec<String> = std::env::args().collect();
    if argv.len() >= 3 && argv[1] == "--crash-probe" {
        quiet_panics();
        crash_probe(&argv[2]);
    }
    let args = parse_args();
    quiet_panics();
    let mut sum = Summary::default();
    sum.nontrivial_rule = "a case is (privilege history) or (statement shape, held privileges, fixture size) or (generated database, query, role); distinct = distinct printed case; non-trivial = a history containing at least one successful GRANT and one REVOKE or permission check, a path case (always), a generated query over at least one non-empty table".into();
    let mut log = CaseLog::new(&args);
    let want = |id: u64| args.only.as_ref().map(|o| o.contains(&id)).unwrap_or(true);
    let nshards = 16usize;
    let mut hcases: Vec<Vec<String>> = vec![Vec::new(); nshards];
    let mut pcases: Vec<Vec<String>> = vec![Vec::new(); nshards];

    let t_start = std::time::Instant::now();
    // ---------------------------------------------------------------- Part A
    let nhist: u64 = if args.thorough { 6000 } else { 1400 };
    let mut crash_confirmed = 0u64;
    for k in 0..nhist {
        let id = k;
        if !want(id) {
            continue;
        }
        let mut r = Rng::new(args.seed, &format!("c26/hist/{}", k));
        let tables: Vec<String> = TABLE_POOL.iter().filter(|_| r.chance(3, 4)).map(|s| s.to_string()).collect();
        let tables = if tables.is_empty() { vec!["T1".to_string()] } else { tables };
        let with_s2 = r.chance(1, 2);
        let ops = if k % 4 == 3 { gen_chain_history(&mut r) } else { let n = 8 + r.below(28) as usize; gen_history(&mut r, n) };
        let mut st = new_hstate(&tables, with_s2);
        let mut coq_ops = Vec::new();
        let mut codes = Vec::new();
        let mut executed: Vec<HOp> = Vec::new();
        let mut grants_ok = 0;
        let mut has_check_or_revoke = false;
        // oracle bookkeeping on the implementation
        let mut ever_granted: BTreeSet<String> = BTreeSet::new(); // roles named as grantee of any GRANT statement
        let mut case_findings: Vec<(String, String)> = Vec::new();
        for o in &ops {
            // oracle (before): a GRANT issued by a session without authority
            let mut unauth_grant: Option<(String, Vec<(String, String, u8)>)> = None;
            if let HOp::Sql(sql) = o {
                if let Ok(Statement::Grant(g)) = parse(sql) {
                    for ge in &g.grantees {
                        ever_granted.insert(ge.clone());
                    }
                    let role = st.db.get_current_role();
                    if st.db.is_security_enabled() && role != "ADMIN" && role != "DBA" && g.object_type == ObjectType::Table && st.db.catalog.table_exists(&g.object_name) {
                        let expanded = expand_privs(&g.privileges, &ObjectType::Table);
                        let holds_option = |p: &PrivilegeType| st.db.catalog.get_all_grants().iter().any(|x| x.grantee == role && x.object == g.object_name && x.privilege == *p && x.with_grant_option);
                        if expanded.iter().any(|p| !holds_option(p)) {
                            // which (grantee, kind) checks fail now?
                            let mut denied_before = Vec::new();
                            for ge in &g.grantees {
                                for (kk, p) in [(0u8, PrivilegeType::Select(None)), (1, PrivilegeType::Insert(None)), (2, PrivilegeType::Update(None)), (3, PrivilegeType::Delete)] {
                                    if expanded.contains(&p) && !holds_option(&p) && !st.db.catalog.has_privilege(ge, &g.object_name, &p) {
                                        denied_before.push((ge.clone(), g.object_name.clone(), kk));
                                    }
                                }
                            }
                            unauth_grant = Some((role, denied_before));
                        }
                    }
                }
            }
            let revoke_info = if let HOp::Sql(sql) = o {
                if let Ok(Statement::Revoke(rv)) = parse(sql) {
                    Some(rv)
                } else {
                    None
                }
            } else {
                None
            };
            let obs = run_hop(&mut st, o, false);
            sum.evaluations += 1;
            let Some(cop) = obs.coq_op.clone() else {
                sum.count("hist:unparsed-statement");
                continue;
            };
            executed.push(o.clone());
            coq_ops.push(cop);
            codes.push(obs.code);
            sum.count(&format!("hist:op:{}:{}", match o { HOp::Sql(s) => s.split_whitespace().next().unwrap_or("?").to_string(), HOp::SetRole(_) => "SETROLE".into(), HOp::SetSecurity(_) => "SECURITY".into(), HOp::Check(_, _) => "CHECK".into(), HOp::AddTable(_) => "ADDTABLE".into(), HOp::DelTable(_) => "DELTABLE".into() }, obs.code));
            if !obs.note.is_empty() && obs.code != 9 {
                case_findings.push(("checker-statement-disagree".into(), obs.note.clone()));
            }
            if matches!(o, HOp::Check(_, _)) {
                has_check_or_revoke = true;
            }
            if let HOp::Sql(s) = o {
                if s.starts_with("GRANT") && obs.code == 0 {
                    grants_ok += 1;
                }
                if s.starts_with("REVOKE") {
                    has_check_or_revoke = true;
                }
            }
            // oracle (after)
            if let (Some((role, denied_before)), 0) = (&unauth_grant, obs.code) {
                // the statement succeeded although the session role is not an administrator and does not hold the
                // privileges WITH GRANT OPTION: do the grantees now pass checks they failed a moment ago?
                let mut gained = Vec::new();
                for (ge, obj, kk) in denied_before {
                    let p = [PrivilegeType::Select(None), PrivilegeType::Insert(None), PrivilegeType::Update(None), PrivilegeType::Delete][*kk as usize].clone();
                    if st.db.catalog.has_privilege(ge, obj, &p) {
                        gained.push(format!("{} gains {} on {}", ge, ACC_SQL[*kk as usize], obj));
                    }
                }
                if !gained.is_empty() {
                    // (repaired upstream by "grant-requires-authority": not a listed class any more)
                    case_findings.push(("grant-without-authority".into(), format!("session role {} (not ADMIN/DBA, security enabled, no grant option) executed `{}` successfully: {}", role, match o { HOp::Sql(s) => s.as_str(), _ => "" }, gained.join("; "))));
                }
            }
            if let (Some(rv), 0) = (&revoke_info, obs.code) {
                if !rv.grant_option_for {
                    // revoke_then_denied on the implementation: every named grantee fails the check right away
                    let keep_role = st.db.get_current_role();
                    let keep_sec = st.db.is_security_enabled();
                    st.db.enable_security();
                    for ge in &rv.grantees {
                        if ge == "ADMIN" || ge == "DBA" {
                            continue;
                        }
                        st.db.set_role(Some(ge.clone()));
                        for p in expand_privs(&rv.privileges, &rv.object_type) {
                            let res = match p {
                                PrivilegeType::Select(None) => PrivilegeChecker::check_select(&st.db, &rv.object_name),
                                PrivilegeType::Insert(None) => PrivilegeChecker::check_insert(&st.db, &rv.object_name),
                                PrivilegeType::Update(None) => PrivilegeChecker::check_update(&st.db, &rv.object_name),
                                PrivilegeType::Delete => PrivilegeChecker::check_delete(&st.db, &rv.object_name),
                                _ => continue,
                            };
                            if res.is_ok() {
                                case_findings.push(("revoked-but-allowed".into(), format!("after `{}` role {} still passes the {:?} check on {}", match o { HOp::Sql(s) => s.as_str(), _ => "" }, ge, p, rv.object_name)));
                            }
                        }
                    }
                    st.db.set_role(Some(keep_role));
                    if !keep_sec {
                        st.db.disable_security();
                    }
                }
            }
            if obs.code == 9 {
                // REVOKE GRANT OPTION FOR ... CASCADE over a cyclic delegation graph: before the visited-set fix
                // revoke_cascade recursed until the stack overflowed and the process died, which catch_unwind cannot
                // stop.  Safety net: replay the history in a child process first; only a statement the child
                // survives is executed here.
                let (died, how) = confirm_crash(&args, &tables, with_s2, &executed, id);
                sum.count(if died { "hist:cyclic-cascade-child-died" } else { "hist:cyclic-cascade-child-survived" });
                if died {
                    crash_confirmed += 1;
                    case_findings.push(("revoke-cascade-unbounded-recursion".into(), format!("`{}` on a cyclic delegation graph kills the process ({})", match o { HOp::Sql(s) => s.as_str(), _ => "" }, how)));
                    break; // code 9 stays in the shard: the model says the statement returns
                }
                let again = run_hop(&mut st, o, true);
                let l = codes.len();
                codes[l - 1] = again.code;
                sum.count(&format!("hist:cyclic-cascade-in-process:{}", again.code));
            }
        }
        // oracle: a role never named in any GRANT is denied everything on every table
        {
            let keep_role = st.db.get_current_role();
            let keep_sec = st.db.is_security_enabled();
            st.db.enable_security();
            for role in ["R1", "R2", "R3", "R4", "GHOST", "PUBLIC"] {
                if ever_granted.contains(role) {
                    continue;
                }
                st.db.set_role(Some(role.to_string()));
                for t in TABLE_POOL {
                    if PrivilegeChecker::check_select(&st.db, t).is_ok() || PrivilegeChecker::check_delete(&st.db, t).is_ok() {
                        case_findings.push(("never-granted-but-allowed".into(), format!("role {} was never a grantee but passes a check on {}", role, t)));
                    }
                }
            }
            st.db.set_role(Some(keep_role));
            if !keep_sec {
                st.db.disable_security();
            }
        }
        let final_grants: Vec<String> = st.db.catalog.get_all_grants().iter().map(coq_grant).collect();
        let case = json!({"kind": "history", "tables": tables, "schema_s2": with_s2, "ops": executed.iter().map(script_line).collect::<Vec<_>>(), "codes": codes, "grants_after": st.db.catalog.get_all_grants().iter().map(|g| format!("{:?}", g)).collect::<Vec<_>>()});
        log.log(id, case.clone());
        if grants_ok > 0 && has_check_or_revoke {
            sum.nontrivial(&case.to_string());
        }
        if sum.samples.len() < 2 && grants_ok > 1 {
            sum.sample(case.clone());
        }
        for (class, what) in case_findings {
            sum.finding(&class, id, what, case.clone());
        }
        let mut schemas = vec!["public".to_string()];
        if with_s2 {
            schemas.push("S2".into());
        }
        hcases[(k as usize) % nshards].push(format!(
            "mkH {} {} {} [{}] [{}] [{}]",
            id,
            coq_strs(&tables),
            coq_strs(&schemas),
            coq_ops.join("; "),
            codes.iter().map(|c| c.to_string()).collect::<Vec<_>>().join("; "),
            final_grants.join("; ")
        ));
        sum.model_cases += 1;
    }
    sum.count_n("hist:cyclic-cascade-child-deaths", crash_confirmed);

    let t_a = t_start.elapsed().as_secs_f64();
    // ---------------------------------------------------------------- Part B
    let table_names: Vec<&str> = vec!["T", "S", "M", "C", "U", "P", "D"];
    let mut pid: u64 = 1_000_000;
    let variants_random: u64 = if args.thorough { 24 } else { 6 };
    for (pi, pd) in PATHS.iter().enumerate() {
        let mut relevant: Vec<(u8, u8)> = pd.required.to_vec();
        relevant.extend_from_slice(pd.checked_extra);
        // held-set variants: everything relevant, each one missing, none, random subsets of all 32 bits
        let mut variants: Vec<(Vec<(u8, u8)>, &str)> = Vec::new();
        variants.push((relevant.clone(), "all"));
        for i in 0..relevant.len() {
            let mut v = relevant.clone();
            v.remove(i);
            variants.push((v, "minus-one"));
        }
        variants.push((Vec::new(), "none"));
        // everything except one required privilege, plus unrelated privileges on every table
        for i in 0..pd.required.len() {
            let miss = pd.required[i];
            let mut v = Vec::new();
            for t in 0..8u8 {
                for a in 0..4u8 {
                    if (t, a) != miss && t != V {
                        v.push((t, a));
                    }
                }
            }
            variants.push((v, "all-tables-minus-one"));
        }
        let mut r = Rng::new(args.seed, &format!("c26/path/{}", pi));
        for _ in 0..variants_random {
            let mut v = Vec::new();
            for (t, a) in &relevant {
                if r.chance(2, 3) {
                    v.push((*t, *a));
                }
            }
            for t in 0..8u8 {
                for a in 0..4u8 {
                    if t != V && r.chance(1, 6) && !v.contains(&(t, a)) {
                        v.push((t, a));
                    }
                }
            }
            variants.push((v, "random"));
        }
        for (vi, (held, vkind)) in variants.iter().enumerate() {
            for big in [false, true] {
                if big && !(vi < 1 + relevant.len() || (args.thorough && vi % 3 == 0)) {
                    continue;
                }
                let id = pid;
                pid += 1;
                if !want(id) {
                    continue;
                }
                let mut db = fixture(big);
                must(&mut db, "CREATE ROLE RX");
                let mut grant_failed = Vec::new();
                for (t, a) in held {
                    let o = exec(&mut db, &format!("GRANT {} ON {} TO RX", ACC_SQL[*a as usize], TBL_NAMES[*t as usize]));
                    if !o.is_ok() {
                        grant_failed.push((*t, *a));
                    }
                }
                // what the role really holds (GRANT on a view name is refused: views cannot be granted at all)
                let held_real: Vec<(u8, u8)> = held.iter().filter(|x| !grant_failed.contains(x)).cloned().collect();
                db.enable_security();
                db.set_role(Some("RX".into()));
                let before = snapshot(&db, &table_names);
                let out = exec(&mut db, pd.sql);
                let after = snapshot(&db, &table_names);
                let changed = changed_tables(&before, &after);
                let code = outcome_code(&out);
                sum.evaluations += 1;
                sum.count(&format!("path:{}:{}", vkind, match code { 0 => "ok", 6 => "denied", _ => "other" }));
                let lacking: Vec<(u8, u8)> = pd.required.iter().filter(|x| !held_real.contains(x)).cloned().collect();
                let case = json!({"kind": "path", "path": pd.ctor, "sql": pd.sql, "fixture": if big { "big" } else { "small" },
                    "held": held_real.iter().map(|(t, a)| format!("{} ON {}", ACC_SQL[*a as usize], TBL_NAMES[*t as usize])).collect::<Vec<_>>(),
                    "lacking_required": lacking.iter().map(|(t, a)| format!("{} ON {}", ACC_SQL[*a as usize], TBL_NAMES[*t as usize])).collect::<Vec<_>>(),
                    "outcome": out.tag(), "changed_tables": changed});
                log.log(id, case.clone());
                sum.nontrivial(&format!("{}|{:?}|{}", pd.ctor, held_real, big));
                if sum.samples.len() < 5 && vi == 1 && !big && pi % 11 == 3 {
                    sum.sample(case.clone());
                }
                // ---- the property's oracle, on the implementation
                if !lacking.is_empty() {
                    let lacks_select = lacking.iter().any(|(_, a)| *a == SEL);
                    let unauthorised_change: Vec<&String> = changed
                        .iter()
                        .filter(|name| {
                            // a table changed although the role lacks a required write privilege on it
                            let ti = TBL_NAMES.iter().position(|n| n == name).unwrap() as u8;
                            lacking.iter().any(|(t, a)| *t == ti && *a != SEL) || lacks_select
                        })
                        .collect();
                    if code == 0 {
                        // executed although a required privilege is missing
                        let leaked = lacks_select && (matches!(&out, Outcome::Rows(r) if !r.is_empty()) || !changed.is_empty());
                        // every path-level defect class has been repaired upstream (pd.class is empty for all paths);
                        // a listed class would be matched here by a narrow predicate on (path, missing privilege, behaviour)
                        let class = if !pd.class.is_empty() && lacking.len() == 1 { pd.class } else { "unprivileged-access" };
                        sum.finding(class, id, format!("role lacking {:?} ran `{}`: {} (changed tables {:?}, rows of an unreadable table {} the result)", case["lacking_required"], pd.sql, out.tag(), changed, if leaked { "reached" } else { "did not reach" }), case.clone());
                    } else if !unauthorised_change.is_empty() || (code != 0 && !changed.is_empty()) {
                        let class = "refused-but-changed";
                        sum.finding(class, id, format!("`{}` was refused ({}) but changed {:?}", pd.sql, out.tag(), changed), case.clone());
                    } else if code != 6 {
                        sum.finding("refused-with-other-error", id, format!("`{}` failed with {:?} instead of PermissionDenied", pd.sql, out), case.clone());
                    }
                } else if code == 0 {
                    // holding everything: the statement must have had its effect where it is a write
                    let expects_change = !matches!(out, Outcome::Rows(_));
                    if expects_change && changed.is_empty() {
                        sum.finding("harness-template-without-effect", id, format!("`{}` changed nothing although it was allowed", pd.sql), case.clone());
                    }
                }
                let changed_codes: Vec<String> = { let mut v: Vec<usize> = changed.iter().map(|n| TBL_NAMES.iter().position(|x| x == n).unwrap()).collect(); v.sort(); v.iter().map(|c| c.to_string()).collect() };
                pcases[(id as usize) % nshards].push(format!(
                    "mkP {} {} {} {} [{}] {}",
                    id,
                    pd.ctor,
                    coq_pairs(&held_real),
                    if code == 0 || code == 6 { code } else { 7 },
                    changed_codes.join("; "),
                    coq_pairs(pd.required)
                ));
                sum.model_cases += 1;
            }
        }
    }

    let t_b = t_start.elapsed().as_secs_f64();
    // ---------------------------------------------------------------- Part C
    let ndb: u64 = if args.thorough { 900 } else { 150 };
    let per_db = 14;
    let mut qid: u64 = 2_000_000;
    for k in 0..ndb {
        let mut r = Rng::new(args.seed, &format!("c26/blanket/{}", k));
        let big = k % 8 == 7;
        let huge = k % 16 == 11;
        let dbdef = if huge { gen_db_sized(&mut r, 2, 100, 120) } else { gen_db(&mut r, 3, if big { 14 } else { 6 }) };
        let mut db = vh::semrun::load_db(&dbdef);
        let nt = dbdef.tables.len();
        let with_index = r.chance(1, 2);
        if with_index {
            for i in 0..nt {
                must(&mut db, &format!("CREATE INDEX ix{} ON tab{} (c0)", i, i));
            }
        }
        must(&mut db, "CREATE ROLE NOBODY");
        must(&mut db, "CREATE ROLE PART");
        let missing = r.below(nt as u64) as usize;
        for i in 0..nt {
            if i != missing {
                must(&mut db, &format!("GRANT SELECT ON tab{} TO PART", i));
            }
        }
        db.enable_security();
        for _ in 0..per_db {
            // sizes as in c01: nested joins / correlated subqueries over >100-row tables take minutes
            let depth = if huge || big { 1 + r.below(2) as usize } else { 1 + r.below(3) as usize };
            let cfg = if huge {
                GenCfg { max_from: 1, joins: false, subqueries: false, ..GenCfg::default() }
            } else if big {
                GenCfg { max_from: 2, ..GenCfg::default() }
            } else {
                GenCfg::default()
            };
            let (q, _) = {
                let mut g = Gen { r: &mut r, db: &dbdef, cfg };
                g.query(depth)
            };
            let sql_text = to_sql(&q);
            let mut all_plain = BTreeSet::new();
            let mut all_cstar = BTreeSet::new();
            tables_of_query(&q, &mut all_plain, &mut all_cstar);
            let mut top_plain = BTreeSet::new();
            let mut top_cstar = BTreeSet::new();
            from_tables_top(&q, &mut top_plain, &mut top_cstar);
            for role in ["NOBODY", "PART"] {
                let id = qid;
                qid += 1;
                if !want(id) {
                    continue;
                }
                db.set_role(Some(role.to_string()));
                let out = exec(&mut db, &sql_text);
                sum.evaluations += 1;
                let unreadable = |t: &usize| role == "NOBODY" || *t == missing;
                let must_be_denied = top_plain.iter().any(unreadable) || top_cstar.iter().any(unreadable);
                sum.count(&format!("blanket:{}:{}:{}", role, if must_be_denied { "touches-unreadable" } else { "readable-only" }, match outcome_code(&out) { 0 => "rows", 6 => "denied", 8 => "panic", _ => "other-error" }));
                if dbdef.tables.iter().any(|t| !t.rows.is_empty()) {
                    sum.nontrivial(&format!("{}|{}|{}|{}", coq_db(&dbdef), sql_text, role, with_index));
                }
                if must_be_denied {
                    if let Outcome::Rows(rows) = &out {
                        // every FROM item (through derived tables and set-operation arms) that names an unreadable table is a
                        // bare `SELECT COUNT(*) FROM tab` select: the shape that used to leak through the row_count() fast
                        // path (repaired, so it is no listed class any more; recorded in the case for triage)
                        let via_count_star_only = !top_plain.iter().any(unreadable) && top_cstar.iter().any(unreadable);
                        let case = json!({"kind": "blanket", "role": role, "sql": sql_text, "create": create_sql(&dbdef), "indexed": with_index,
                            "tables_anywhere": all_plain.iter().chain(all_cstar.iter()).map(|t| format!("tab{}", t)).collect::<Vec<_>>(),
                            "unreadable_tables": (0..nt).filter(|t| unreadable(t)).map(|t| format!("tab{}", t)).collect::<Vec<_>>(), "rows": rows.len(),
                            "only_through_bare_count_star": via_count_star_only});
                        log.log(id, case.clone());
                        let class = "unprivileged-read";
                        sum.finding(class, id, format!("role {} without SELECT on {:?} got {} row(s) from `{}`", role, case["unreadable_tables"], rows.len(), sql_text), case);
                    }
                }
                if let Outcome::Panic(m) = &out {
                    // not this property's concern (C01 reports executor panics); counted only
                    let _ = m;
                }
            }
        }
    }

    let t_c = t_start.elapsed().as_secs_f64();
    // ---------------------------------------------------------------- Part D
    let mut did: u64 = 3_000_000;
    for (ai, acc) in ACC_SQL.iter().enumerate() {
        for variant in 0..2 {
            let id = did;
            did += 1;
            if !want(id) {
                continue;
            }
            let mut db = Database::new();
            let mk = |db: &mut Database, sql: &str| match vibesql_parser::Parser::parse_sql(sql) {
                Ok(Statement::CreateSchema(s)) => vibesql_executor::SchemaExecutor::execute_create_schema(&s, db).map(|_| ()),
                Ok(Statement::SetSchema(s)) => vibesql_executor::SchemaExecutor::execute_set_schema(&s, db).map(|_| ()),
                other => panic!("harness: unexpected parse of {}: {:?}", sql, other),
            };
            mk(&mut db, "CREATE SCHEMA S2").expect("harness: create schema");
            must(&mut db, "CREATE TABLE t (id INT PRIMARY KEY, v INT)");
            must(&mut db, "INSERT INTO t VALUES (1, 10)");
            mk(&mut db, "SET SCHEMA S2").expect("harness: set schema");
            must(&mut db, "CREATE TABLE t (id INT PRIMARY KEY, v INT)");
            must(&mut db, "INSERT INTO t VALUES (2, 999)");
            mk(&mut db, "SET SCHEMA \"public\"").expect("harness: set schema public");
            must(&mut db, "CREATE ROLE R1");
            must(&mut db, &format!("GRANT {} ON t TO R1", acc));
            if variant == 1 {
                must(&mut db, "GRANT SELECT ON t TO R1");
            }
            db.enable_security();
            db.set_role(Some("R1".into()));
            // the role switches the current schema itself, then names the table as before
            let sw = mk(&mut db, "SET SCHEMA S2");
            let before = snapshot(&db, &["S2.T"]);
            let sql = match ai {
                0 => "SELECT * FROM t".to_string(),
                1 => "INSERT INTO t VALUES (3, 5)".to_string(),
                2 => "UPDATE t SET v = 0".to_string(),
                _ => "DELETE FROM t".to_string(),
            };
            let out = exec(&mut db, &sql);
            let after = snapshot(&db, &["S2.T"]);
            sum.evaluations += 1;
            let case = json!({"kind": "schema-switch", "grant": format!("GRANT {} ON t TO R1 (issued while the current schema was public)", acc), "set_schema": format!("{:?}", sw), "sql": sql, "outcome": out.tag(),
                "s2_t_before": before.get("S2.T"), "s2_t_after": after.get("S2.T")});
            log.log(id, case.clone());
            sum.count(&format!("schema-switch:{}:{}", acc, out.tag().split(':').next().unwrap_or("")));
            sum.nontrivial(&case.to_string());
            let touched = match &out {
                Outcome::Rows(rows) => rows.iter().any(|r| canon_row(r).contains("999")),
                _ => before != after,
            };
            if out.is_ok() && touched {
                sum.finding("unqualified-grant-follows-current-schema", id, format!("R1 holds {} on public.T only, yet after SET SCHEMA S2 `{}` {} S2.T ({})", acc, sql, if ai == 0 { "returned rows of" } else { "modified" }, out.tag()), case);
            } else if out.is_ok() {
                sum.finding("unprivileged-access", id, format!("`{}` succeeded on S2.T without a privilege", sql), case);
            }
        }
    }

    // ---------------------------------------------------------------- shards
    if args.only.is_none() {
        for k in 0..nshards {
            let mut text = String::from(SHARD_HEADER);
            text.push_str(&format!("Definition hcases : list hcase := [\n  {}\n].\n\n", hcases[k].join(";\n  ")));
            text.push_str(&format!("Definition pcases : list pcase := [\n  {}\n].\n\n", pcases[k].join(";\n  ")));
            text.push_str("Eval vm_compute in (c26_history_mismatches hcases ++ c26_path_mismatches pcases)%list.\n");
            write_shard(&args, k, &text);
        }
    }
    sum.notes.push(format!("seconds: histories {:.1}, paths {:.1}, blanket {:.1}", t_a, t_b - t_a, t_c - t_b));
    sum.notes.push(format!("{} privilege histories, {} path cases, {} blanket executions, {} schema-switch scenarios", nhist, pid - 1_000_000, qid - 2_000_000, did - 3_000_000));
    let _: Value = json!(null);
    sum.write(&args);
}
