//! C27 correspondence + property oracle: FrontendMessage::decode / decode_startup of the real
//! crates/vibesql-server/src/protocol/messages.rs (included by path: the server is a bin crate).
//!
//! Every case is executed on the real code under catch_unwind.  Observation = {message, need-more,
//! error, panic} + bytes left in the buffer.  The property's own oracle is an independent,
//! framing-first reference decoder written here from the protocol description (cut the frame by its
//! declared length, parse inside it) plus the direct checks (no panic, rest is a suffix, need-more
//! leaves the buffer untouched, whole-stream == byte-by-byte == random chunking).
use bytes::BytesMut;
use serde_json::{json, Value};
use std::collections::BTreeMap;
use std::panic::{catch_unwind, AssertUnwindSafe};
use vh::out::*;
use vh::rng::Rng;
use vh::val::bytes_lit;

#[path = "/repo/crates/vibesql-server/src/protocol/messages.rs"]
#[allow(dead_code)]
mod messages;
use messages::FrontendMessage;

#[derive(Clone, PartialEq, Debug)]
enum Msg {
    Startup(i32, Vec<(Vec<u8>, Vec<u8>)>), // params sorted by key
    Password(Vec<u8>),
    Query(Vec<u8>),
    Terminate,
    SSLRequest,
}

#[derive(Clone, PartialEq, Debug)]
enum Kind {
    Msg(Msg),
    Need,
    Err,
    Panic,
}

#[derive(Clone, Debug)]
struct Obs {
    kind: Kind,
    left: usize,
    suffix: bool, // the buffer after the call is a suffix of the buffer before
}

fn conv(m: FrontendMessage) -> Msg {
    match m {
        FrontendMessage::Startup { protocol_version, params } => {
            let bt: BTreeMap<Vec<u8>, Vec<u8>> = params.into_iter().map(|(k, v)| (k.into_bytes(), v.into_bytes())).collect();
            Msg::Startup(protocol_version, bt.into_iter().collect())
        }
        FrontendMessage::Password { password } => Msg::Password(password.into_bytes()),
        FrontendMessage::Query { query } => Msg::Query(query.into_bytes()),
        FrontendMessage::Terminate => Msg::Terminate,
        FrontendMessage::SSLRequest => Msg::SSLRequest,
    }
}

/// one call of the real decoder on `buf`
fn call(buf: &mut BytesMut, startup: bool) -> Obs {
    let before: Vec<u8> = buf.to_vec();
    let r = catch_unwind(AssertUnwindSafe(|| if startup { FrontendMessage::decode_startup(buf) } else { FrontendMessage::decode(buf) }));
    let kind = match r {
        Ok(Ok(Some(m))) => Kind::Msg(conv(m)),
        Ok(Ok(None)) => Kind::Need,
        Ok(Err(_)) => Kind::Err,
        Err(_) => Kind::Panic,
    };
    let left = buf.len();
    let suffix = before.ends_with(&buf[..]);
    Obs { kind, left, suffix }
}

// ---------------------------------------------------------------------------------------------
// the reference: a framing-first decoder written from the protocol description
// ---------------------------------------------------------------------------------------------
#[derive(Clone, PartialEq, Debug)]
enum Ref {
    Msg(Msg, usize), // message, bytes left
    Need,
    Err,
}

fn be_i32(b: &[u8]) -> i64 {
    i32::from_be_bytes([b[0], b[1], b[2], b[3]]) as i64
}

fn ref_cstring_exact(body: &[u8]) -> Option<Vec<u8>> {
    // body must be: bytes without NUL, then exactly one NUL at the end; valid UTF-8
    if body.is_empty() || *body.last().unwrap() != 0 {
        return None;
    }
    let s = &body[..body.len() - 1];
    if s.contains(&0) || std::str::from_utf8(s).is_err() {
        return None;
    }
    Some(s.to_vec())
}

fn ref_decode(b: &[u8]) -> Ref {
    if b.len() < 5 {
        return Ref::Need;
    }
    let l = be_i32(&b[1..5]);
    if l < 4 {
        return Ref::Err;
    }
    let total = 1 + l as usize;
    if b.len() < total {
        return Ref::Need;
    }
    let body = &b[5..total];
    let left = b.len() - total;
    match b[0] {
        b'Q' => ref_cstring_exact(body).map(|s| Ref::Msg(Msg::Query(s), left)).unwrap_or(Ref::Err),
        b'p' => ref_cstring_exact(body).map(|s| Ref::Msg(Msg::Password(s), left)).unwrap_or(Ref::Err),
        b'X' => Ref::Msg(Msg::Terminate, left),
        _ => Ref::Err,
    }
}

fn ref_decode_startup(b: &[u8]) -> Ref {
    if b.len() < 4 {
        return Ref::Need;
    }
    let l = be_i32(&b[0..4]);
    if l < 8 {
        return Ref::Err;
    }
    let total = l as usize;
    if b.len() < total {
        return Ref::Need;
    }
    let left = b.len() - total;
    let version = be_i32(&b[4..8]) as i32;
    if version == 80877103 {
        return Ref::Msg(Msg::SSLRequest, left);
    }
    let mut body = &b[8..total];
    let mut params: BTreeMap<Vec<u8>, Vec<u8>> = BTreeMap::new();
    loop {
        let p = match body.iter().position(|&x| x == 0) {
            Some(p) => p,
            None => return Ref::Err,
        };
        let key = &body[..p];
        body = &body[p + 1..];
        if key.is_empty() {
            // terminator: must be the last byte of the packet
            return if body.is_empty() { Ref::Msg(Msg::Startup(version, params.into_iter().collect()), left) } else { Ref::Err };
        }
        let q = match body.iter().position(|&x| x == 0) {
            Some(q) => q,
            None => return Ref::Err,
        };
        let val = &body[..q];
        body = &body[q + 1..];
        if std::str::from_utf8(key).is_err() || std::str::from_utf8(val).is_err() {
            return Ref::Err;
        }
        params.insert(key.to_vec(), val.to_vec());
    }
}

fn agrees(o: &Obs, input_len: usize, r: &Ref) -> bool {
    match (r, &o.kind) {
        (Ref::Msg(m, left), Kind::Msg(m2)) => m == m2 && *left == o.left && o.suffix,
        (Ref::Need, Kind::Need) => o.left == input_len && o.suffix,
        (Ref::Err, Kind::Err) => true,
        _ => false,
    }
}

// ---------------------------------------------------------------------------------------------
// classification of a disagreement (narrow predicates on the failing call; mirrors WireSpec.v k_*)
// ---------------------------------------------------------------------------------------------
const GENERIC: &str = "decode-mismatch";

fn classify_decode(b: &[u8], o: &Obs) -> &'static str {
    if b.len() < 5 {
        return GENERIC;
    }
    let l = be_i32(&b[1..5]);
    let t = b[0];
    let r = &b[5..];
    let is_msg = matches!(o.kind, Kind::Msg(_));
    let string_tag = t == b'Q' || t == b'p';
    if l < 0 {
        return match o.kind {
            Kind::Panic if l == -1 => "negative-length-overflow-panic",
            Kind::Need if l <= -2 => "negative-length-eternal-wait",
            _ => GENERIC,
        };
    }
    if l < 4 {
        return if is_msg && (t == b'X' || string_tag) { "small-length-accepted" } else { GENERIC };
    }
    if (r.len() as i64) < l - 4 || !is_msg {
        return GENERIC;
    }
    if t == b'X' {
        return if l > 4 { "frame-tail-left-in-buffer" } else { GENERIC };
    }
    if string_tag {
        if let Some(p) = r.iter().position(|&x| x == 0) {
            let p = p as i64;
            if p > l - 5 {
                return "cstring-crosses-frame-end";
            }
            if p < l - 5 {
                return "frame-tail-left-in-buffer";
            }
        }
    }
    GENERIC
}

fn classify_startup(b: &[u8], o: &Obs) -> &'static str {
    if b.len() < 4 {
        return GENERIC;
    }
    let l = be_i32(&b[0..4]);
    let n = b.len() as i64;
    let is_msg = matches!(o.kind, Kind::Msg(_));
    if l < 0 {
        return if o.kind == Kind::Need { "negative-length-eternal-wait" } else { GENERIC };
    }
    if l < 8 {
        if l > n {
            return if o.kind == Kind::Need { "startup-short-length-accepted" } else { GENERIC };
        }
        return match o.kind {
            Kind::Panic if n < 8 => "startup-short-length-panic",
            Kind::Msg(_) if n >= 8 => "startup-short-length-accepted",
            _ => GENERIC,
        };
    }
    if l > n || !is_msg {
        return GENERIC;
    }
    let consumed = n - o.left as i64;
    if be_i32(&b[4..8]) == 80877103 {
        return if l > 8 && consumed == 8 { "frame-tail-left-in-buffer" } else { GENERIC };
    }
    if consumed > l {
        "cstring-crosses-frame-end"
    } else if consumed < l {
        "frame-tail-left-in-buffer"
    } else {
        GENERIC
    }
}

const KNOWN: [&str; 7] = [
    "negative-length-overflow-panic",
    "negative-length-eternal-wait",
    "small-length-accepted",
    "cstring-crosses-frame-end",
    "frame-tail-left-in-buffer",
    "startup-short-length-panic",
    "startup-short-length-accepted",
];

// ---------------------------------------------------------------------------------------------
// Coq printers
// ---------------------------------------------------------------------------------------------
fn coq_msg(m: &Msg) -> String {
    match m {
        Msg::Startup(v, ps) => format!(
            "(FStartup ({}) [{}])",
            v,
            ps.iter().map(|(k, v)| format!("({},{})", bytes_lit(k), bytes_lit(v))).collect::<Vec<_>>().join(";")
        ),
        Msg::Password(p) => format!("(FPassword {})", bytes_lit(p)),
        Msg::Query(q) => format!("(FQuery {})", bytes_lit(q)),
        Msg::Terminate => "FTerminate".into(),
        Msg::SSLRequest => "FSSLRequest".into(),
    }
}
fn kind_code(k: &Kind) -> u8 {
    match k {
        Kind::Msg(_) => 0,
        Kind::Need => 1,
        Kind::Err => 2,
        Kind::Panic => 3,
    }
}
fn coq_optmsg(k: &Kind) -> String {
    match k {
        Kind::Msg(m) => format!("(Some {})", coq_msg(m)),
        _ => "None".into(),
    }
}
fn coq_ref(r: &Ref, same: bool) -> String {
    if same {
        return "RSame".into();
    }
    match r {
        Ref::Msg(m, left) => format!("(RMsg {} {})", coq_msg(m), left),
        Ref::Need => "RNeed".into(),
        Ref::Err => "RErr".into(),
    }
}
fn json_msg(m: &Msg) -> Value {
    match m {
        Msg::Startup(v, ps) => json!({"Startup": {"version": v, "params": ps.iter().map(|(k, v)| json!([String::from_utf8_lossy(k), String::from_utf8_lossy(v)])).collect::<Vec<_>>() }}),
        Msg::Password(p) => json!({"Password": String::from_utf8_lossy(p)}),
        Msg::Query(q) => json!({"Query": String::from_utf8_lossy(q)}),
        Msg::Terminate => json!("Terminate"),
        Msg::SSLRequest => json!("SSLRequest"),
    }
}
fn json_kind(k: &Kind) -> Value {
    match k {
        Kind::Msg(m) => json!({"message": json_msg(m)}),
        Kind::Need => json!("need-more"),
        Kind::Err => json!("error"),
        Kind::Panic => json!("panic"),
    }
}
fn hex(b: &[u8]) -> String {
    b.iter().map(|x| format!("{:02x}", x)).collect::<Vec<_>>().join(" ")
}

// ---------------------------------------------------------------------------------------------
// generators
// ---------------------------------------------------------------------------------------------
fn rand_utf8(r: &mut Rng, max: u64) -> Vec<u8> {
    let n = r.below(max + 1);
    let mut s = String::new();
    for _ in 0..n {
        let c = match r.below(10) {
            0 => char::from_u32(0x80 + r.below(0x700) as u32).unwrap_or('é'),
            1 => char::from_u32(0x800 + r.below(0x5000) as u32).unwrap_or('€'),
            2 => char::from_u32(0x10000 + r.below(0x10000) as u32).unwrap_or('😀'),
            3 => *r.pick(&['\u{7f}', '\u{80}', '\u{7ff}', '\u{800}', '\u{ffff}', '\u{10000}', '\u{10ffff}', '\u{d7ff}', '\u{e000}']),
            _ => (0x20 + r.below(0x5f) as u8) as char,
        };
        s.push(c);
    }
    s.into_bytes()
}

/// a string that is mostly fine but may contain NUL / invalid UTF-8
fn rand_payload_string(r: &mut Rng) -> Vec<u8> {
    let mut s = rand_utf8(r, 12);
    match r.below(12) {
        0 => {
            // embedded NUL
            let p = r.below(s.len() as u64 + 1) as usize;
            s.insert(p, 0);
        }
        1 => {
            // invalid UTF-8: stray continuation / overlong / surrogate / > U+10FFFF / truncated sequence
            let bad: &[&[u8]] = &[&[0x80], &[0xC0, 0x80], &[0xC1, 0xBF], &[0xE0, 0x80, 0x80], &[0xE0, 0x9F, 0xBF], &[0xED, 0xA0, 0x80], &[0xED, 0xBF, 0xBF],
                &[0xF0, 0x80, 0x80, 0x80], &[0xF0, 0x8F, 0xBF, 0xBF], &[0xF4, 0x90, 0x80, 0x80], &[0xF5, 0x80, 0x80, 0x80], &[0xFF], &[0xC2], &[0xE1, 0x80], &[0xF1, 0x80, 0x80],
                &[0xE0, 0xA0], &[0xC2, 0x41], &[0xE1, 0x41, 0x80], &[0xF1, 0x80, 0x41, 0x80], &[0xF4, 0x8F, 0xBF, 0xC0]];
            let p = r.below(s.len() as u64 + 1) as usize;
            // keep char boundaries of the valid part: insert at a boundary
            let mut p2 = p;
            while p2 < s.len() && (s[p2] & 0xC0) == 0x80 {
                p2 += 1;
            }
            let ins = r.pick(bad);
            let tail = s.split_off(p2);
            s.extend_from_slice(ins);
            s.extend_from_slice(&tail);
        }
        _ => {}
    }
    s
}

fn frame(tag: u8, len_field: i32, payload: &[u8]) -> Vec<u8> {
    let mut v = vec![tag];
    v.extend_from_slice(&len_field.to_be_bytes());
    v.extend_from_slice(payload);
    v
}

fn good_frame(r: &mut Rng) -> Vec<u8> {
    match r.below(8) {
        0 => frame(b'X', 4, &[]),
        1 | 2 => {
            let mut p = rand_payload_string(r);
            p.push(0);
            frame(b'p', 4 + p.len() as i32, &p)
        }
        _ => {
            let mut p = rand_payload_string(r);
            p.push(0);
            frame(b'Q', 4 + p.len() as i32, &p)
        }
    }
}

fn rand_bytes(r: &mut Rng, max: u64) -> Vec<u8> {
    let n = r.below(max + 1);
    (0..n)
        .map(|_| match r.below(6) {
            0 => 0u8,
            1 => *r.pick(&[b'Q', b'p', b'X', b'R', 0xff, 0x80, 4, 5, 8]),
            _ => r.below(256) as u8,
        })
        .collect()
}

fn trailing(r: &mut Rng) -> Vec<u8> {
    match r.below(5) {
        0 => vec![],
        1 => good_frame(r),
        2 => {
            let mut g = good_frame(r);
            g.truncate(r.below(g.len() as u64 + 1) as usize);
            g
        }
        _ => rand_bytes(r, 10),
    }
}

/// interesting values for a length field whose "true" value is `t` in a buffer with `avail` bytes after the type byte
fn splice_values(t: i32, avail: i32) -> Vec<i32> {
    let mut v = vec![i32::MIN, i32::MIN + 1, -65536, -256, -5, -2, -1, 0, 1, 2, 3, 4, 5, 6, 7, 8, 9, t - 2, t - 1, t, t + 1, t + 2, avail - 1, avail, avail + 1, 255, 256, 65535, 65536, 0x0100_0000, i32::MAX - 1, i32::MAX];
    v.sort();
    v.dedup();
    v
}

fn startup_packet(len_field: i32, version: i32, body: &[u8]) -> Vec<u8> {
    let mut v = len_field.to_be_bytes().to_vec();
    v.extend_from_slice(&version.to_be_bytes());
    v.extend_from_slice(body);
    v
}

fn startup_body(r: &mut Rng) -> Vec<u8> {
    let mut b = vec![];
    let n = r.below(4);
    let keys: [&[u8]; 6] = [b"user", b"database", b"application_name", b"client_encoding", b"u", b"opt\xc3\xa9"];
    for _ in 0..n {
        let k = if r.chance(1, 6) { rand_payload_string(r) } else { r.pick(&keys).to_vec() };
        let v = if r.chance(1, 4) { vec![] } else { rand_payload_string(r) };
        if r.chance(1, 15) {
            // empty key in the middle: terminates early
            b.push(0);
        }
        b.extend_from_slice(&k);
        b.push(0);
        b.extend_from_slice(&v);
        b.push(0);
    }
    if !r.chance(1, 10) {
        b.push(0); // terminator (sometimes missing)
    }
    b
}

enum Case {
    Decode(Vec<u8>),
    Startup(Vec<u8>),
    Stream(Vec<u8>, Vec<usize>), // input, chunk sizes ([] = whole)
}

fn gen_cases(seed: u64, thorough: bool) -> Vec<Case> {
    let mut cs: Vec<Case> = vec![];
    let scale: u64 = if thorough { 4 } else { 1 };
    // ---- fixed boundary corpus -------------------------------------------------------------
    let fixed_decode: Vec<Vec<u8>> = vec![
        vec![],
        vec![b'Q'],
        vec![b'Q', 0, 0, 0],
        frame(b'Q', 4, &[]),
        frame(b'Q', 5, &[0]),
        frame(b'Q', 13, b"SELECT 1\0"),
        frame(b'Q', 13, b"SELECT 1\0X\0\0\0\x04"),
        frame(b'Q', 6, b"aX\0\0\0\x04\0"),   // no NUL inside the frame: swallows the next frame
        frame(b'Q', 6, b"a\0"),
        frame(b'Q', 6, b"ab"),              // no NUL at all
        frame(b'Q', 8, b"a\0b\0"),          // early NUL
        frame(b'Q', -1, &[]),               // 1 + len overflows
        frame(b'Q', -1, b"abc\0"),
        frame(b'Q', -2, b"abc\0"),
        frame(b'Q', i32::MIN, b"abc\0"),
        frame(b'Q', 0, b"abc\0"),
        frame(b'Q', 3, b"abc\0"),
        frame(b'Q', 3, b"abc"),
        frame(b'p', 9, b"pass\0"),
        frame(b'p', 9, b"pa\xffs\0"),
        frame(b'X', 4, &[]),
        frame(b'X', 4, b"Q"),
        frame(b'X', 8, b"abcd"),
        frame(b'X', 0, &[]),
        frame(b'X', -1, &[]),
        frame(b'R', 8, &[0, 0, 0, 0]),
        frame(b'R', 9, &[0, 0, 0, 0]),
        frame(0, 4, &[]),
        frame(255, -1, &[]),
        frame(b'Q', i32::MAX, b"a\0"),
    ];
    for b in fixed_decode {
        cs.push(Case::Decode(b));
    }
    let fixed_startup: Vec<Vec<u8>> = vec![
        vec![],
        vec![0, 0, 0],
        vec![0, 0, 0, 4],
        vec![0, 0, 0, 0],
        vec![0, 0, 0, 5, 0],
        vec![0, 0, 0, 7, 0, 3, 0],
        vec![0, 0, 0, 8, 0, 3, 0],
        vec![0, 0, 0, 4, 0, 3, 0, 0, 0],
        vec![0, 0, 0, 4, 4, 0xd2, 0x16, 0x2f],
        vec![0xff, 0xff, 0xff, 0xff],
        vec![0xff, 0xff, 0xff, 0xff, 0, 3, 0, 0, 0],
        vec![0x80, 0, 0, 0, 0, 3, 0, 0, 0],
        startup_packet(8, 80877103, &[]),
        startup_packet(8, 80877103, b"extra"),
        startup_packet(12, 80877103, b"tail"),
        startup_packet(9, 196608, &[0]),
        startup_packet(8, 196608, &[]),
        startup_packet(8, 196608, &[0]),
        startup_packet(20, 196608, b"user\0alice\0\0"),
        startup_packet(20, 196608, b"user\0alice\0\0Q\0\0\0\x05\0"),
        startup_packet(19, 196608, b"user\0alice\0"),
        startup_packet(19, 196608, b"user\0alice\0more\0x\0\0"),
        startup_packet(26, 196608, b"user\0alice\0\0user\0b\0\0"),
        startup_packet(27, 196608, b"user\0alice\0user\0bob\0\0"),
        startup_packet(14, 196608, b"user\0\0\0"),
        startup_packet(13, 196608, b"\xff\0a\0\0"),
        startup_packet(13, 0, b"u\0\xc3\0\0"),
        startup_packet(i32::MAX, 196608, b"user\0a\0\0"),
    ];
    for b in fixed_startup {
        cs.push(Case::Startup(b));
    }
    // ---- UTF-8 boundary matrix: every lead byte x second-byte class x continuation pattern, complete and
    //      truncated, as the payload of a well-framed Query (validates utf8_valid against String::from_utf8) ----
    for lead in 0x80u16..=0xFF {
        let lead = lead as u8;
        let natural = if lead < 0xC0 { 1 } else if lead < 0xE0 { 2 } else if lead < 0xF0 { 3 } else { 4 };
        let seconds: &[u8] = if natural == 1 { &[0x80] } else { &[0x7F, 0x80, 0x8F, 0x90, 0x9F, 0xA0, 0xBF, 0xC0] };
        let tails: &[(u8, u8)] = if natural <= 2 { &[(0x80, 0x80)] } else { &[(0x80, 0x80), (0xBF, 0xBF), (0x41, 0x80), (0x80, 0x41)] };
        for &b1 in seconds {
            for &(b2, b3) in tails {
                let seq = [lead, b1, b2, b3];
                for n in [natural, natural - 1] {
                    if n == 0 {
                        continue;
                    }
                    let mut p = vec![b'a'];
                    p.extend_from_slice(&seq[..n]);
                    p.push(b'z');
                    p.push(0);
                    cs.push(Case::Decode(frame(b'Q', 4 + p.len() as i32, &p)));
                }
            }
        }
    }
    // ---- long frames (the NUL search and the length arithmetic far from the header) -----------------------
    let mut r = Rng::new(seed, "c27/long");
    for k in 0..8u64 {
        let n = 200 + r.below(1800);
        let mut p: Vec<u8> = Vec::new();
        while (p.len() as u64) < n {
            p.extend_from_slice(&rand_utf8(&mut r, 40));
        }
        match k % 4 {
            0 => p.push(0),
            1 => {
                // NUL in the middle as well
                let at = p.len() / 2;
                p[at] = 0;
                p.push(0);
            }
            2 => {} // no NUL inside the frame
            _ => {
                p.push(0);
                p.extend_from_slice(b"X\0\0\0\x04");
            }
        }
        let declared = if k % 4 == 3 { p.len() as i32 - 5 + 4 } else { p.len() as i32 + 4 };
        let mut f = frame(b'Q', declared, &p);
        if k % 4 == 2 {
            f.extend_from_slice(&good_frame(&mut r));
        }
        cs.push(Case::Decode(f.clone()));
        cs.push(Case::Stream(f, vec![]));
    }
    // ---- every prefix and every length splice of well-formed frames ---------------------------
    let mut r = Rng::new(seed, "c27/splice");
    for _ in 0..(220 * scale) {
        let g = good_frame(&mut r);
        let mut whole = g.clone();
        whole.extend_from_slice(&trailing(&mut r));
        for k in 0..=g.len().min(24) {
            cs.push(Case::Decode(whole[..k].to_vec()));
        }
        cs.push(Case::Decode(whole.clone()));
        let t = i32::from_be_bytes([g[1], g[2], g[3], g[4]]);
        for v in splice_values(t, whole.len() as i32 - 1) {
            let mut w = whole.clone();
            w[1..5].copy_from_slice(&v.to_be_bytes());
            cs.push(Case::Decode(w));
        }
        // type byte splice
        let mut w = whole.clone();
        w[0] = *r.pick(&[b'Q', b'p', b'X', b'q', b'P', b'x', 0, b'R', 255]);
        cs.push(Case::Decode(w));
    }
    let mut r = Rng::new(seed, "c27/startup-splice");
    for _ in 0..(160 * scale) {
        let body = startup_body(&mut r);
        let version = if r.chance(1, 8) { 80877103 } else if r.chance(1, 6) { r.next() as i32 } else { 196608 };
        let t = 8 + body.len() as i32;
        let g = startup_packet(t, version, &body);
        let mut whole = g.clone();
        whole.extend_from_slice(&trailing(&mut r));
        for k in 0..=g.len().min(20) {
            cs.push(Case::Startup(whole[..k].to_vec()));
        }
        cs.push(Case::Startup(whole.clone()));
        for v in splice_values(t, whole.len() as i32) {
            let mut w = whole.clone();
            w[0..4].copy_from_slice(&v.to_be_bytes());
            cs.push(Case::Startup(w));
        }
    }
    // ---- arbitrary byte strings (biased towards plausible headers) -----------------------------
    let mut r = Rng::new(seed, "c27/random");
    for _ in 0..(30_000 * scale) {
        let mut b = rand_bytes(&mut r, 24);
        if b.len() >= 5 && r.chance(3, 4) {
            b[0] = *r.pick(&[b'Q', b'Q', b'p', b'X', b'Z', 0]);
            let l: i32 = match r.below(8) {
                0 => r.range(-3, 8) as i32,
                1 => b.len() as i32 - 1 + r.range(-2, 2) as i32,
                2 => r.next() as i32,
                _ => r.range(0, b.len() as i64 + 2) as i32,
            };
            b[1..5].copy_from_slice(&l.to_be_bytes());
        }
        cs.push(Case::Decode(b));
    }
    let mut r = Rng::new(seed, "c27/random-startup");
    for _ in 0..(10_000 * scale) {
        let mut b = rand_bytes(&mut r, 28);
        if b.len() >= 4 && r.chance(3, 4) {
            let l: i32 = match r.below(8) {
                0 => r.range(-3, 12) as i32,
                1 => b.len() as i32 + r.range(-2, 2) as i32,
                2 => r.next() as i32,
                _ => r.range(0, b.len() as i64 + 2) as i32,
            };
            b[0..4].copy_from_slice(&l.to_be_bytes());
            if b.len() >= 8 && r.chance(1, 2) {
                let v: i32 = if r.chance(1, 5) { 80877103 } else { 196608 };
                b[4..8].copy_from_slice(&v.to_be_bytes());
            }
        }
        cs.push(Case::Startup(b));
    }
    // ---- well-formed frames + trailing bytes ---------------------------------------------------
    let mut r = Rng::new(seed, "c27/good");
    for _ in 0..(9_000 * scale) {
        let mut b = good_frame(&mut r);
        b.extend_from_slice(&trailing(&mut r));
        cs.push(Case::Decode(b));
    }
    let mut r = Rng::new(seed, "c27/good-startup");
    for _ in 0..(6_000 * scale) {
        let body = startup_body(&mut r);
        let version = if r.chance(1, 10) { 80877103 } else { 196608 };
        let mut b = startup_packet(8 + body.len() as i32, version, &body);
        b.extend_from_slice(&trailing(&mut r));
        cs.push(Case::Startup(b));
    }
    // ---- streams: several frames, fed whole / byte-by-byte / in random chunks -------------------
    let mut r = Rng::new(seed, "c27/stream");
    for _ in 0..(1_800 * scale) {
        let mut s = vec![];
        let nf = 1 + r.below(4);
        for _ in 0..nf {
            let mut g = good_frame(&mut r);
            if r.chance(1, 12) {
                // damage the length field a little
                let t = i32::from_be_bytes([g[1], g[2], g[3], g[4]]);
                let v = t + r.range(-2, 2) as i32;
                g[1..5].copy_from_slice(&v.to_be_bytes());
            }
            s.extend_from_slice(&g);
        }
        if r.chance(1, 3) {
            let mut g = good_frame(&mut r);
            g.truncate(r.below(g.len() as u64) as usize);
            s.extend_from_slice(&g);
        }
        cs.push(Case::Stream(s.clone(), vec![]));
        cs.push(Case::Stream(s.clone(), vec![1; s.len()]));
        let mut sizes = vec![];
        let mut rem = s.len();
        while rem > 0 {
            let c = (1 + r.below(9) as usize).min(rem);
            sizes.push(c);
            rem -= c;
        }
        cs.push(Case::Stream(s, sizes));
    }
    cs
}

fn overflow_checks_on() -> bool {
    let x: usize = std::hint::black_box(usize::MAX);
    catch_unwind(|| std::hint::black_box(x + std::hint::black_box(1))).is_err()
}

fn run_stream(input: &[u8], sizes: &[usize]) -> (Vec<Msg>, Kind, usize, Vec<(Vec<u8>, Obs)>) {
    let mut chunks: Vec<&[u8]> = vec![];
    if sizes.is_empty() {
        if !input.is_empty() {
            chunks.push(input);
        }
    } else {
        let mut p = 0;
        for &n in sizes {
            chunks.push(&input[p..p + n]);
            p += n;
        }
        if p < input.len() {
            chunks.push(&input[p..]);
        }
    }
    let mut buf = BytesMut::new();
    let mut msgs = vec![];
    let mut calls = vec![];
    for c in chunks {
        buf.extend_from_slice(c);
        loop {
            let before = buf.to_vec();
            let o = call(&mut buf, false);
            calls.push((before, o.clone()));
            match o.kind {
                Kind::Msg(m) => msgs.push(m),
                Kind::Need => break,
                k => return (msgs, k, buf.len(), calls),
            }
        }
    }
    (msgs, Kind::Need, buf.len(), calls)
}

/// messages the reference decoder extracts from the complete stream
fn ref_stream(input: &[u8]) -> (Vec<Msg>, Ref) {
    let mut p = 0;
    let mut msgs = vec![];
    loop {
        match ref_decode(&input[p..]) {
            Ref::Msg(m, left) => {
                msgs.push(m);
                p = input.len() - left;
            }
            other => return (msgs, other),
        }
    }
}

fn main() {
    let args = parse_args();
    std::panic::set_hook(Box::new(|_| {}));
    let oc = overflow_checks_on();
    quiet_panics();
    let mut sum = Summary::default();
    sum.nontrivial_rule = "a case is one call of the real FrontendMessage::decode / decode_startup on a byte buffer (or one chunked stream fed through repeated decode calls); distinct = distinct (kind of call, input bytes, chunking); non-trivial = the buffer holds a complete header (>= 5 bytes for decode, >= 4 for decode_startup; streams: >= 1 complete frame header)".into();
    sum.notes.push(format!("harness built with overflow checks = {} (the model is run with oc = {})", oc, oc));
    let mut log = CaseLog::new(&args);
    let cases = gen_cases(args.seed, args.thorough);
    let nshards = if args.thorough { 48 } else { 16 };
    let mut shard_txt: Vec<String> = vec![String::new(); nshards];
    let known_set: std::collections::HashSet<&str> = KNOWN.iter().cloned().collect();
    let mut logged = 0usize;
    for (i, c) in cases.iter().enumerate() {
        let id = i as u64;
        if let Some(only) = &args.only {
            if !only.contains(&id) {
                continue;
            }
        }
        sum.evaluations += 1;
        match c {
            Case::Decode(b) | Case::Startup(b) => {
                let startup = matches!(c, Case::Startup(_));
                let mut buf = BytesMut::from(&b[..]);
                let o = call(&mut buf, startup);
                let rf = if startup { ref_decode_startup(b) } else { ref_decode(b) };
                let same = agrees(&o, b.len(), &rf);
                let hdr = if startup { 4 } else { 5 };
                if b.len() >= hdr {
                    sum.nontrivial(&format!("{}|{}", startup, hex(b)));
                }
                sum.count(&format!("{}/{}", if startup { "decode_startup" } else { "decode" }, match o.kind { Kind::Msg(_) => "message", Kind::Need => "need-more", Kind::Err => "error", Kind::Panic => "panic" }));
                sum.count(&format!("input_len/{}", match b.len() { 0..=3 => "0-3", 4..=7 => "4-7", 8..=15 => "8-15", 16..=31 => "16-31", _ => "32+" }));
                let case = || json!({"call": if startup { "decode_startup" } else { "decode" }, "input_hex": hex(b), "observed": json_kind(&o.kind), "bytes_left": o.left,
                    "reference": match &rf { Ref::Msg(m, l) => json!({"message": json_msg(m), "bytes_left": l}), Ref::Need => json!("need-more"), Ref::Err => json!("error") }});
                let mut known = false;
                // ---- the property's own oracle --------------------------------------------------
                if !o.suffix {
                    sum.finding("rest-not-a-suffix", id, "the buffer after the call is not a suffix of the buffer before".into(), case());
                }
                if o.kind == Kind::Need && o.left != b.len() {
                    sum.finding("need-more-consumed-bytes", id, format!("returned need-more but consumed {} bytes", b.len() - o.left), case());
                }
                if !same {
                    let slug = if startup { classify_startup(b, &o) } else { classify_decode(b, &o) };
                    known = known_set.contains(slug);
                    let what = match (&o.kind, &rf) {
                        (Kind::Panic, _) => format!("{} panics on [{}]", if startup { "decode_startup" } else { "decode" }, hex(b)),
                        (Kind::Need, Ref::Err) => format!("asks for more bytes for ever on [{}] (declared length is invalid; a framing-respecting decoder reports an error)", hex(b)),
                        (Kind::Msg(m), Ref::Msg(m2, l2)) => format!("returns {:?} leaving {} bytes where the frame boundary leaves {} ({:?}) on [{}]", m, o.left, l2, m2, hex(b)),
                        (Kind::Msg(m), _) => format!("returns {:?} (consumed {} bytes) on [{}] although the declared frame is malformed/incomplete", m, b.len() - o.left, hex(b)),
                        _ => format!("observed {:?}, reference {:?} on [{}]", o.kind, rf, hex(b)),
                    };
                    sum.finding(slug, id, what, case());
                    if logged < 400 || !known {
                        log.log(id, case());
                        logged += 1;
                    }
                }
                if sum.samples.len() < 4 && (i % 977 == 5 || (!same && sum.samples.len() < 2)) {
                    sum.sample(case());
                }
                if args.only.is_none() {
                    let k = i % nshards;
                    shard_txt[k].push_str(&format!(
                        "{} {} {} {} {} {} {} {};\n",
                        if startup { "CStartup" } else { "CDecode" },
                        id,
                        bytes_lit(b),
                        kind_code(&o.kind),
                        coq_optmsg(&o.kind),
                        o.left,
                        coq_ref(&rf, same),
                        if known { "true" } else { "false" }
                    ));
                    sum.model_cases += 1;
                }
            }
            Case::Stream(s, sizes) => {
                let (msgs, end, left, calls) = run_stream(s, sizes);
                if s.len() >= 5 {
                    sum.nontrivial(&format!("stream|{}|{:?}", hex(s), sizes));
                }
                sum.count(&format!("stream/{}", if sizes.is_empty() { "whole" } else if sizes.iter().all(|&x| x == 1) { "byte-by-byte" } else { "random-chunks" }));
                sum.count_n("stream/decode_calls", calls.len() as u64);
                let case = |b: &[u8], o: &Obs| json!({"call": "decode (inside a stream)", "input_hex": hex(b), "observed": json_kind(&o.kind), "bytes_left": o.left, "stream_hex": hex(s), "chunks": sizes});
                // per-call oracle
                let mut any_known_call = false;
                for (b, o) in &calls {
                    let rf = ref_decode(b);
                    if !o.suffix {
                        sum.finding("rest-not-a-suffix", id, "the buffer after the call is not a suffix of the buffer before".into(), case(b, o));
                    }
                    if !agrees(o, b.len(), &rf) {
                        let slug = classify_decode(b, o);
                        any_known_call |= known_set.contains(slug);
                        sum.finding(slug, id, format!("inside a stream: observed {:?} (left {}), reference {:?} on buffer [{}]", o.kind, o.left, rf, hex(b)), case(b, o));
                    }
                }
                // chunking independence: the message sequence must be that of the reference on the whole stream
                let (rmsgs, rend) = ref_stream(s);
                let end_ok = matches!((&end, &rend), (Kind::Need, Ref::Need) | (Kind::Err, Ref::Err));
                if (msgs != rmsgs || !end_ok) && !any_known_call {
                    // every such difference must have shown up as a per-call disagreement
                    sum.finding("chunking-dependent", id, format!("stream [{}] chunks {:?}: messages {:?} end {:?}, reference {:?} end {:?}", hex(s), sizes, msgs, end, rmsgs, rend),
                        json!({"stream_hex": hex(s), "chunks": sizes}));
                }
                if i % 1499 == 7 {
                    sum.sample(json!({"stream_hex": hex(s), "chunks": sizes, "messages": msgs.iter().map(json_msg).collect::<Vec<_>>(), "end": json_kind(&end), "bytes_left": left}));
                }
                if args.only.is_none() {
                    let k = i % nshards;
                    shard_txt[k].push_str(&format!(
                        "CStream {} {} [{}] [{}] {} {};\n",
                        id,
                        bytes_lit(s),
                        sizes.iter().map(|x| x.to_string()).collect::<Vec<_>>().join(";"),
                        msgs.iter().map(coq_msg).collect::<Vec<_>>().join(";"),
                        kind_code(&end),
                        left
                    ));
                    sum.model_cases += 1;
                } else {
                    log.log(id, json!({"stream_hex": hex(s), "chunks": sizes}));
                }
            }
        }
    }
    if args.only.is_none() {
        for (k, txt) in shard_txt.iter().enumerate() {
            if txt.is_empty() {
                continue;
            }
            let body = txt.trim_end_matches(|c| c == '\n' || c == ';');
            let s = format!(
                "From Coq Require Import List ZArith Bool.\nImport ListNotations.\nOpen Scope Z_scope.\nFrom VibeSQL Require Import Codec.Wire Codec.WireSpec Run.C27Run.\nDefinition cases : list c27case := [\n{}\n].\nEval vm_compute in (c27_mismatches {} cases).\n",
                body,
                if oc { "true" } else { "false" }
            );
            write_shard(&args, k, &s);
        }
    }
    sum.write(&args);
}
