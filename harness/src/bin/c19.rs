//! C19 — SQL dump save/load round-trips table contents.
//!
//! Case kinds (ids are dense, kinds distinguished by range):
//!   database cases  : a database built through `vh::sql` (CREATE TABLE text) or the catalog API and
//!                     `Database::insert_row` (arbitrary values incl. negatives / special floats),
//!                     `Database::save_sql_dump` -> file -> `vibesql_storage::parse_sql_statements` and
//!                     `vibesql_executor::load_sql_dump`.  ORACLE (the property itself): the reloaded
//!                     database has every table with the same columns and the same bag of rows.
//!   text cases      : hand-mutated dump files (lower-case keywords, multi-row VALUES, wrong arity,
//!                     type mismatches, CRLF, multi-line statements, long failing statements ...) and
//!                     random texts over the characters the splitter cares about.
//!   lexer cases     : `Lexer::tokenize` on statement-like and random texts.
//! Every observation is written into Coq shards evaluated against Lex/Splitter.v, Lex/DumpLex.v,
//! Codec/SqlLiteral.v and Codec/SqlLoad.v by Run/C19Run.v.
use serde_json::json;
use std::collections::{BTreeMap, BTreeSet};
use std::panic::{catch_unwind, AssertUnwindSafe};
use vh::out::{parse_args, quiet_panics, write_shard, CaseLog, Summary};
use vh::rng::Rng;
use vibesql_catalog::{ColumnSchema, TableSchema};
use vibesql_parser::{Lexer, Token};
use vibesql_storage::{Database, Row};
use vibesql_types::{DataType, Date, SqlValue, Time, Timestamp};

// ---------------------------------------------------------------------------------------------
// Coq printing
// ---------------------------------------------------------------------------------------------
fn z(i: i128) -> String {
    if i < 0 {
        format!("({})", i)
    } else {
        format!("{}", i)
    }
}
fn cps(s: &str) -> String {
    let v: Vec<String> = s.chars().map(|c| (c as u32).to_string()).collect();
    format!("[{}]", v.join(";"))
}
fn coq_list(items: &[String]) -> String {
    format!("[{}]", items.join("; "))
}
fn coq_value(v: &SqlValue) -> String {
    match v {
        SqlValue::Integer(i) => format!("VInteger {}", z(*i as i128)),
        SqlValue::Smallint(i) => format!("VSmallint {}", z(*i as i128)),
        SqlValue::Bigint(i) => format!("VBigint {}", z(*i as i128)),
        SqlValue::Unsigned(u) => format!("VUnsigned {}", z(*u as i128)),
        SqlValue::Numeric(f) => format!("VNumeric {}", f.to_bits()),
        SqlValue::Float(f) => format!("VFloat {}", f.to_bits()),
        SqlValue::Real(f) => format!("VReal {}", f.to_bits()),
        SqlValue::Double(f) => format!("VDouble {}", f.to_bits()),
        SqlValue::Character(s) => format!("VCharacter {}", cps(s)),
        SqlValue::Varchar(s) => format!("VVarchar {}", cps(s)),
        SqlValue::Boolean(b) => format!("VBoolean {}", b),
        SqlValue::Date(d) => format!("VDate {} {} {}", z(d.year as i128), d.month, d.day),
        SqlValue::Time(t) => format!("VTime {} {} {} {}", t.hour, t.minute, t.second, t.nanosecond),
        SqlValue::Timestamp(ts) => format!(
            "VTimestamp {} {} {} {} {} {} {}",
            z(ts.date.year as i128),
            ts.date.month,
            ts.date.day,
            ts.time.hour,
            ts.time.minute,
            ts.time.second,
            ts.time.nanosecond
        ),
        SqlValue::Interval(iv) => {
            let (m, d, u) = vh::val::interval_triple(iv);
            format!("VInterval {} {} {}", z(m as i128), z(d as i128), z(u as i128))
        }
        SqlValue::Null => "VNull".to_string(),
    }
}
fn coq_dtype(t: &DataType) -> Option<String> {
    Some(match t {
        DataType::Integer => "TInteger".into(),
        DataType::Smallint => "TSmallint".into(),
        DataType::Bigint => "TBigint".into(),
        DataType::Unsigned => "TUnsigned".into(),
        DataType::Float { precision } => format!("(TFloat {})", precision),
        DataType::Real => "TReal".into(),
        DataType::DoublePrecision => "TDouble".into(),
        DataType::Varchar { max_length: Some(n) } => format!("(TVarchar (Some {}))", n),
        DataType::Varchar { max_length: None } => "(TVarchar None)".into(),
        DataType::Character { length } => format!("(TChar {})", length),
        DataType::Boolean => "TBoolean".into(),
        DataType::Date => "TDate".into(),
        DataType::Time { with_timezone } => format!("(TTime {})", with_timezone),
        DataType::Timestamp { with_timezone } => format!("(TTimestamp {})", with_timezone),
        DataType::Numeric { precision, scale } => format!("(TNumeric {} {})", precision, scale),
        DataType::Decimal { precision, scale } => format!("(TDecimal {} {})", precision, scale),
        _ => return None,
    })
}

#[derive(Clone, Debug)]
struct TableObs {
    name: String,
    cols: Vec<(String, DataType, bool)>,
    rows: Vec<Vec<SqlValue>>,
}
fn coq_table(t: &TableObs) -> Option<String> {
    let mut cols = Vec::new();
    for (n, ty, nl) in &t.cols {
        cols.push(format!("mk_column {} {} {}", cps(n), coq_dtype(ty)?, nl));
    }
    let rows: Vec<String> = t.rows.iter().map(|r| coq_list(&r.iter().map(coq_value).collect::<Vec<_>>())).collect();
    Some(format!("mk_table {} {} {}", cps(&t.name), coq_list(&cols), coq_list(&rows)))
}
fn observe_db(db: &Database, names: &[String]) -> Vec<TableObs> {
    let mut out = Vec::new();
    for n in names {
        if let Some(t) = db.get_table(n) {
            out.push(TableObs {
                name: n.clone(),
                cols: t.schema.columns.iter().map(|c| (c.name.clone(), c.data_type.clone(), c.nullable)).collect(),
                rows: t.scan().iter().map(|r| r.values.clone()).collect(),
            });
        }
    }
    out
}

// ---------------------------------------------------------------------------------------------
// float tables: every value the model may ask the library functions about
// ---------------------------------------------------------------------------------------------
#[derive(Default)]
struct FTab {
    show64: BTreeMap<u64, String>,
    show32: BTreeMap<u32, String>,
    parse64: BTreeMap<String, Option<u64>>,
    i64_f64: BTreeMap<i64, u64>,
    i64_f32: BTreeMap<i64, u32>,
    f64_f32: BTreeMap<u64, u32>,
}
impl FTab {
    fn add_number_text(&mut self, t: &str) {
        let p = t.parse::<f64>().ok();
        self.parse64.insert(t.to_string(), p.map(|f| f.to_bits()));
        if let Some(f) = p {
            self.f64_f32.insert(f.to_bits(), (f as f32).to_bits());
        }
        if let Ok(i) = t.parse::<i64>() {
            self.i64_f64.insert(i, (i as f64).to_bits());
            self.i64_f32.insert(i, (i as f32).to_bits());
        }
    }
    fn add_value(&mut self, v: &SqlValue) {
        match v {
            SqlValue::Numeric(f) | SqlValue::Double(f) => {
                self.show64.insert(f.to_bits(), f.to_string());
            }
            SqlValue::Float(f) | SqlValue::Real(f) => {
                self.show32.insert(f.to_bits(), f.to_string());
            }
            _ => {}
        }
    }
    /// number tokens of every statement the real splitter produced, read by the real lexer
    fn add_statements(&mut self, stmts: &[String]) {
        for s in stmts {
            let t = s.trim();
            if let Ok(Ok(toks)) = catch_unwind(AssertUnwindSafe(|| Lexer::new(t).tokenize())) {
                for tk in toks {
                    if let Token::Number(n) = tk {
                        self.add_number_text(&n);
                    }
                }
            }
        }
    }
    fn coq(&self) -> String {
        let s64: Vec<String> = self.show64.iter().map(|(k, v)| format!("({}, {})", k, cps(v))).collect();
        let s32: Vec<String> = self.show32.iter().map(|(k, v)| format!("({}, {})", k, cps(v))).collect();
        let p64: Vec<String> = self
            .parse64
            .iter()
            .map(|(k, v)| format!("({}, {})", cps(k), match v { Some(b) => format!("Some {}", b), None => "None".into() }))
            .collect();
        let a: Vec<String> = self.i64_f64.iter().map(|(k, v)| format!("({}, {})", z(*k as i128), v)).collect();
        let b: Vec<String> = self.i64_f32.iter().map(|(k, v)| format!("({}, {})", z(*k as i128), v)).collect();
        let c: Vec<String> = self.f64_f32.iter().map(|(k, v)| format!("({}, {})", k, v)).collect();
        format!(
            "(mk_ftab {} {} {} {} {} {})",
            coq_list(&s64),
            coq_list(&s32),
            if p64.is_empty() { "(@nil (str * option Z))".to_string() } else { coq_list(&p64) },
            coq_list(&a),
            coq_list(&b),
            coq_list(&c)
        )
    }
}

// ---------------------------------------------------------------------------------------------
// running the real code
// ---------------------------------------------------------------------------------------------
enum LoadObs {
    Ok(Vec<TableObs>),
    Err(String),
    Panic,
}
fn coq_obs(o: &LoadObs, saved: Option<&[TableObs]>) -> Option<String> {
    Some(match o {
        LoadObs::Ok(ts) if saved.map(|sv| identical(sv, ts)).unwrap_or(false) => "ObsSaved".to_string(),
        LoadObs::Ok(ts) => {
            let mut v = Vec::new();
            for t in ts {
                v.push(coq_table(t)?);
            }
            format!("(ObsOk {})", if v.is_empty() { "(@nil table)".to_string() } else { coq_list(&v) })
        }
        LoadObs::Err(_) => "ObsErr".into(),
        LoadObs::Panic => "ObsPanic".into(),
    })
}
/// same tables (by name), same columns, same row SEQUENCES, floats by bits
fn identical(a: &[TableObs], b: &[TableObs]) -> bool {
    a.len() == b.len()
        && a.iter().all(|t| {
            b.iter().any(|u| {
                u.name == t.name
                    && u.cols.len() == t.cols.len()
                    && u.cols.iter().zip(t.cols.iter()).all(|(x, y)| x.0 == y.0 && x.1 == y.1 && x.2 == y.2)
                    && u.rows.len() == t.rows.len()
                    && u.rows.iter().zip(t.rows.iter()).all(|(x, y)| x.len() == y.len() && x.iter().zip(y.iter()).all(|(a, b)| strict_key(a) == strict_key(b)))
            })
        })
}
fn real_split(text: &str) -> Vec<String> {
    vibesql_storage::parse_sql_statements(text).expect("parse_sql_statements never fails")
}
fn real_load(path: &std::path::Path) -> LoadObs {
    match catch_unwind(AssertUnwindSafe(|| vibesql_executor::load_sql_dump(path))) {
        Ok(Ok(db)) => {
            let mut names = db.list_tables();
            names.sort();
            LoadObs::Ok(observe_db(&db, &names))
        }
        Ok(Err(e)) => LoadObs::Err(format!("{}", e)),
        Err(_) => LoadObs::Panic,
    }
}
const HMASK: u128 = (1u128 << 60) - 1;
fn hstep(h: u128, c: u128) -> u128 {
    (65599 * h + c + 1) & HMASK
}
fn hash_str(h: u128, s: &str) -> u128 {
    s.chars().fold(h, |h, c| hstep(h, c as u128))
}
fn hash_strs(v: &[String]) -> u128 {
    v.iter().fold(7u128, |h, s| hstep(hash_str(h, s), 1114112))
}
#[allow(dead_code)]
fn strs_coq(v: &[String]) -> String {
    if v.is_empty() {
        "(@nil str)".to_string()
    } else {
        coq_list(&v.iter().map(|s| cps(s)).collect::<Vec<_>>())
    }
}

// ---------------------------------------------------------------------------------------------
// generators
// ---------------------------------------------------------------------------------------------
const I64_EDGE: &[i64] = &[0, 1, 9, 10, 99, 127, 128, 255, 32767, 32768, 65535, 2147483647, 2147483648, 4294967295, 9007199254740992, 9007199254740993, 999999999999999999, 1000000000000000000, 9223372036854775806, i64::MAX];
const F64_EDGE: &[u64] = &[
    0x0000000000000000, 0x0000000000000001, 0x000FFFFFFFFFFFFF, 0x0010000000000000, 0x3FB999999999999A, 0x3FF0000000000000, 0x3FF8000000000000,
    0x4008000000000000, 0x4340000000000000, 0x4340000000000001, 0x43DFFFFFFFFFFFFF, 0x43E0000000000000, 0x43E0000000000001, 0x7FEFFFFFFFFFFFFF,
    0x3FD5555555555555, 0x400921FB54442D18, 0x4059000000000000, 0x40C3880000000000, 0x3E7AD7F29ABCAF48, 0x7E37E43C8800759C,
];
const F32_EDGE: &[u32] = &[
    0x00000000, 0x00000001, 0x007FFFFF, 0x00800000, 0x3DCCCCCD, 0x3F800000, 0x3FC00000, 0x40400000, 0x4B800000, 0x4B800001, 0x5EFFFFFF, 0x5F000000,
    0x5F000001, 0x7F7FFFFF, 0x3EAAAAAB, 0x40490FDB, 0x42C80000, 0x461C4000, 0x33D6BF95, 0x7149F2CA, 0x5E800000, 0x5E000000,
];

fn pk<'a>(r: &mut Rng, xs: &[&'a str]) -> &'a str {
    xs[r.below(xs.len() as u64) as usize]
}

/// string generator concentrating on the characters the splitter and the lexer treat specially
fn gen_string(r: &mut Rng, flavour: u64, max_chars: usize) -> String {
    // flavour: 0 plain, 1 quotes/semicolons/dashes (harmless), 2 backslashes, 3 newlines, 4 newline + dashes
    let plain = ["a", "b", "Z", "x1", "0", "7", " ", "é", "€", "😀", "_"];
    let harmless = ["'", "''", "\"", ";", "--", "-", " --", "');", "','", "(", ")", ",", "\t", "\r", "\u{a0}", "NULL", "INSERT INTO T0 VALUES (1);"];
    let mut s = String::new();
    let n = 1 + r.below(5) as usize;
    for _ in 0..n {
        let pick_special = r.chance(1, 2);
        if pick_special {
            match flavour {
                0 => s.push_str(pk(r, &plain)),
                1 => s.push_str(pk(r, &harmless)),
                2 => s.push_str(pk(r, &["\\", "\\\\", "\\'", "\\\\'", "\\'\\", "\\\"", "\\;", "a\\", "'\\"])),
                3 => s.push_str(pk(r, &["\n", "\r\n", "\n\n", "\n ", " \n", "\n;", "a\nb", "\n'"])),
                _ => s.push_str(pk(r, &["\n--", "\n --x", "\n\u{a0}--", "\n--\n", "a\n--b'", "\n-- ';"])),
            }
        } else if flavour >= 1 && r.chance(1, 3) {
            s.push_str(pk(r, &harmless));
        } else {
            s.push_str(pk(r, &plain));
        }
    }
    // placement at the very start / end of the value
    if flavour == 2 && r.chance(1, 3) {
        s.push('\\');
    }
    if flavour == 2 && r.chance(1, 4) {
        s.insert(0, '\\');
    }
    if flavour == 4 && !s.contains("\n") {
        s.push_str("\n--z");
    }
    if flavour == 3 && !s.contains('\n') {
        s.push('\n');
    }
    if flavour == 2 && !s.contains('\\') {
        s.push('\\');
    }
    while s.chars().count() > max_chars {
        s.pop();
    }
    s
}

#[derive(Clone, Copy, PartialEq, Eq, Debug)]
enum Bad {
    None,
    Negative,
    SpecialFloat,
    Smallint,
    NumericWhole,
    CharNonAscii,
    Backslash,
    Newline,
    DashLine,
    Mixed,
}

fn gen_type(r: &mut Rng, bad: Bad) -> DataType {
    let pool: Vec<DataType> = vec![
        DataType::Integer,
        DataType::Integer,
        DataType::Bigint,
        DataType::DoublePrecision,
        DataType::DoublePrecision,
        DataType::Real,
        DataType::Float { precision: *r.pick(&[0u8, 24, 53, 255]) },
        DataType::Numeric { precision: *r.pick(&[10u8, 38, 0, 255]), scale: *r.pick(&[0u8, 2, 30]) },
        DataType::Varchar { max_length: Some(*r.pick(&[40usize, 64, 255, 100000])) },
        DataType::Varchar { max_length: Some(64) },
        DataType::Varchar { max_length: None },
        DataType::Character { length: *r.pick(&[1usize, 3, 8, 20]) },
        DataType::Boolean,
        DataType::Date,
        DataType::Time { with_timezone: false },
        DataType::Timestamp { with_timezone: r.chance(1, 2) },
        DataType::Smallint,
    ];
    match bad {
        Bad::Smallint => DataType::Smallint,
        Bad::NumericWhole => DataType::Numeric { precision: 12, scale: 2 },
        Bad::CharNonAscii => DataType::Character { length: *r.pick(&[3usize, 4, 8]) },
        Bad::SpecialFloat => r.pick(&[DataType::DoublePrecision, DataType::Real, DataType::Float { precision: 24 }]).clone(),
        Bad::Negative => r.pick(&[DataType::Integer, DataType::Bigint, DataType::DoublePrecision, DataType::Real, DataType::Numeric { precision: 10, scale: 2 }, DataType::Float { precision: 53 }]).clone(),
        Bad::Backslash | Bad::Newline | Bad::DashLine => r.pick(&[DataType::Varchar { max_length: Some(200) }, DataType::Varchar { max_length: None }, DataType::Character { length: 24 }]).clone(),
        _ => r.pick(&pool).clone(),
    }
}

fn gen_f64_ok(r: &mut Rng) -> f64 {
    match r.below(5) {
        0 => if r.chance(1, 2) { f64::from_bits(*r.pick(F64_EDGE)) } else { f64::from_bits(*r.pick(&F64_EDGE[4..13])) },
        1 => (r.below(100000) as f64) / 100.0,
        2 => r.below(1 << 53) as f64,
        3 => {
            if r.chance(1, 6) {
                f64::from_bits(r.next() % 0x7FF0000000000000)
            } else {
                // moderate exponents: short decimal expansions
                f64::from_bits(((1023 - 20 + r.below(70)) << 52) | (r.next() & 0x000FFFFFFFFFFFFF))
            }
        }
        _ => (r.below(1000) as f64) * 0.125,
    }
}
fn gen_f32_ok(r: &mut Rng) -> f32 {
    match r.below(5) {
        0 => f32::from_bits(*r.pick(F32_EDGE)),
        1 => (r.below(100000) as f32) / 100.0,
        2 => r.below(1 << 24) as f32,
        3 => f32::from_bits((r.next() % 0x7F800000) as u32),
        _ => (r.below(1000) as f32) * 0.125,
    }
}

/// a value of the column's own variant; `bad` selects the one defect class this value may carry
fn gen_value(r: &mut Rng, t: &DataType, bad: Bad) -> SqlValue {
    let str_flavour = match bad {
        Bad::Backslash => 2,
        Bad::Newline => 3,
        Bad::DashLine => 4,
        Bad::Mixed => r.below(5),
        _ => r.below(2),
    };
    let neg = matches!(bad, Bad::Negative) || (bad == Bad::Mixed && r.chance(1, 4));
    let special = matches!(bad, Bad::SpecialFloat) || (bad == Bad::Mixed && r.chance(1, 6));
    match t {
        DataType::Integer | DataType::Bigint => {
            let mut v = if r.chance(1, 2) { *r.pick(I64_EDGE) } else { r.below(1_000_000) as i64 };
            if neg {
                v = match r.below(4) {
                    0 => i64::MIN,
                    1 => -1,
                    _ => -(v.max(1)),
                };
            }
            if matches!(t, DataType::Integer) {
                SqlValue::Integer(v)
            } else {
                SqlValue::Bigint(v)
            }
        }
        DataType::Smallint => {
            if matches!(bad, Bad::Smallint | Bad::Mixed) {
                SqlValue::Smallint(*r.pick(&[0i16, 1, 5, 32767, 300]))
            } else {
                SqlValue::Null
            }
        }
        DataType::DoublePrecision => {
            if special {
                SqlValue::Double(*r.pick(&[f64::NAN, f64::INFINITY, f64::NEG_INFINITY, f64::from_bits(0x7FF8000000000001), f64::from_bits(0xFFF8000000000000)]))
            } else if neg {
                SqlValue::Double(if r.chance(1, 4) { -0.0 } else { -gen_f64_ok(r).max(f64::MIN_POSITIVE) })
            } else {
                SqlValue::Double(gen_f64_ok(r))
            }
        }
        DataType::Real | DataType::Float { .. } => {
            let f = if special {
                *r.pick(&[f32::NAN, f32::INFINITY, f32::NEG_INFINITY])
            } else if neg {
                if r.chance(1, 4) {
                    -0.0
                } else {
                    -gen_f32_ok(r).max(f32::MIN_POSITIVE)
                }
            } else {
                gen_f32_ok(r)
            };
            if matches!(t, DataType::Real) {
                SqlValue::Real(f)
            } else {
                SqlValue::Float(f)
            }
        }
        DataType::Numeric { .. } | DataType::Decimal { .. } => {
            if matches!(bad, Bad::NumericWhole) || (bad == Bad::Mixed && r.chance(1, 3)) {
                SqlValue::Numeric(*r.pick(&[0.0, 3.0, 100.0, 9007199254740992.0, 1e18]))
            } else if neg {
                SqlValue::Numeric(-(r.below(100000) as f64 + 0.5))
            } else {
                // not a whole number below 2^63 (those print as integer literals)
                match r.below(4) {
                    0 => SqlValue::Numeric((r.below(100000) as f64) + 0.25),
                    1 => SqlValue::Numeric(1e19 + (r.below(1000) as f64) * 1e6),
                    2 => SqlValue::Numeric(f64::from_bits(0x3FB999999999999A)),
                    _ => SqlValue::Numeric((r.below(1000) as f64) / 7.0 + 0.001),
                }
            }
        }
        DataType::Varchar { max_length } => {
            let cap = max_length.unwrap_or(1000).min(60);
            let mut s = gen_string(r, str_flavour, cap / 4);
            if r.chance(1, 12) {
                s.clear();
            }
            SqlValue::Varchar(s)
        }
        DataType::Character { length } => {
            if matches!(bad, Bad::CharNonAscii) || (bad == Bad::Mixed && r.chance(1, 3)) {
                SqlValue::Character(r.pick(&["é", "a€", "😀", "éééé", "日本語", "xé", "ab€"]).to_string())
            } else {
                // ASCII only, at most `length` characters (the storage layer pads)
                let mut s: String = gen_string(r, str_flavour, *length).chars().filter(|c| c.is_ascii()).collect();
                while s.len() > *length {
                    s.pop();
                }
                SqlValue::Character(s)
            }
        }
        DataType::Boolean => SqlValue::Boolean(r.chance(1, 2)),
        DataType::Date => {
            let y = *r.pick(&[2024i32, 1970, 1, 0, 9999, 12345, -1, -44, 2147483647, -2147483648, 1999]);
            SqlValue::Date(Date::new(y, 1 + r.below(12) as u8, 1 + r.below(31) as u8).unwrap())
        }
        DataType::Time { .. } => SqlValue::Time(gen_time(r)),
        DataType::Timestamp { .. } => {
            let y = *r.pick(&[2024i32, 1970, 1, 9999, 12345, -1]);
            SqlValue::Timestamp(Timestamp::new(Date::new(y, 1 + r.below(12) as u8, 1 + r.below(31) as u8).unwrap(), gen_time(r)))
        }
        _ => SqlValue::Null,
    }
}
fn gen_time(r: &mut Rng) -> Time {
    let ns = *r.pick(&[0u32, 0, 500_000_000, 120_000_000, 1, 999_999_999, 123_456_789, 1000]);
    Time::new(r.below(24) as u8, r.below(60) as u8, r.below(60) as u8, ns).unwrap()
}

struct GenDb {
    db: Database,
    names: Vec<String>,
    history: Vec<String>,
    bad: Bad,
}

fn gen_db(r: &mut Rng) -> GenDb {
    let bad = match r.below(20) {
        0..=8 => Bad::None,
        9 => Bad::Negative,
        10 => Bad::SpecialFloat,
        11 => Bad::Smallint,
        12 => Bad::NumericWhole,
        13 => Bad::CharNonAscii,
        14 | 15 => Bad::Backslash,
        16 => Bad::Newline,
        17 => Bad::DashLine,
        _ => Bad::Mixed,
    };
    let mut db = Database::new();
    let mut history = Vec::new();
    let ntab = 1 + r.below(3) as usize;
    let tnames = ["T0", "T1", "ORDERS_2", "_X", "ACCT", "T9A"];
    let cnames = ["A", "B", "C0", "AMOUNT", "N_1", "_K", "ZZ", "D2"];
    let mut names = Vec::new();
    // which (table, row, column) carries the defect
    let bad_table = r.below(ntab as u64) as usize;
    for ti in 0..ntab {
        let name = tnames[(ti + r.below(2) as usize * 3) % tnames.len()].to_string();
        if names.contains(&name) {
            continue;
        }
        let ncol = 1 + r.below(4) as usize;
        let mut cols: Vec<(String, DataType, bool)> = Vec::new();
        let bad_col = r.below(ncol as u64) as usize;
        for ci in 0..ncol {
            let cname = cnames[(ci * 2 + r.below(2) as usize) % cnames.len()].to_string();
            let this_bad = if ti == bad_table && ci == bad_col { bad } else if bad == Bad::Mixed { Bad::Mixed } else { Bad::None };
            let mut ty = gen_type(r, this_bad);
            if this_bad == Bad::None && bad != Bad::Mixed {
                // keep the other columns inside the supported vocabulary
                while matches!(ty, DataType::Smallint) && r.chance(3, 4) {
                    ty = gen_type(r, Bad::None);
                }
            }
            let mut nullable = r.chance(2, 3);
            if matches!(ty, DataType::Smallint) && this_bad != Bad::Smallint && bad != Bad::Mixed {
                nullable = true; // only NULLs can be stored in it inside the vocabulary
            }
            cols.push((cname, ty, nullable));
        }
        // create: SQL text for half of the tables, the catalog API for the others
        let via_sql = r.chance(1, 2);
        if via_sql {
            let defs: Vec<String> = cols.iter().map(|(n, t, nl)| format!("{} {}{}", n, sql_type(t), if *nl { "" } else { " NOT NULL" })).collect();
            let ddl = format!("CREATE TABLE {} ({})", name, defs.join(", "));
            vh::sql::must(&mut db, &ddl);
            history.push(ddl);
        } else {
            let schema = TableSchema::new(name.clone(), cols.iter().map(|(n, t, nl)| ColumnSchema::new(n.clone(), t.clone(), *nl)).collect());
            db.create_table(schema).expect("harness create_table");
            history.push(format!("create_table({}, {:?})", name, cols));
        }
        names.push(name.clone());
        let types: Vec<DataType> = db.get_table(&name).expect("harness table").schema.columns.iter().map(|c| c.data_type.clone()).collect();
        let nrows = r.below(6) as usize;
        let bad_row = r.below(nrows.max(1) as u64) as usize;
        for ri in 0..nrows {
            let vals: Vec<SqlValue> = types
                .iter()
                .enumerate()
                .map(|(ci, t)| {
                    let nullable = cols[ci].2;
                    let this_bad = if bad == Bad::Mixed {
                        if r.chance(1, 3) { Bad::Mixed } else { Bad::None }
                    } else if ti == bad_table && ci == bad_col && (ri == bad_row || r.chance(1, 4)) {
                        bad
                    } else {
                        Bad::None
                    };
                    if nullable && this_bad == Bad::None && r.chance(1, 6) {
                        SqlValue::Null
                    } else {
                        let v = gen_value(r, t, this_bad);
                        if matches!(v, SqlValue::Null) && !nullable {
                            // a NOT NULL smallint column cannot be filled inside the vocabulary
                            SqlValue::Smallint(7)
                        } else {
                            v
                        }
                    }
                })
                .collect();
            let res = catch_unwind(AssertUnwindSafe(|| db.insert_row(&name, Row::new(vals.clone())).is_ok())).unwrap_or(false);
            history.push(format!("{}insert_row({}, {:?})", if res { "" } else { "[rejected] " }, name, vals));
        }
    }
    GenDb { db, names, history, bad }
}
fn sql_type(t: &DataType) -> String {
    match t {
        DataType::Integer => "INTEGER".into(),
        DataType::Smallint => "SMALLINT".into(),
        DataType::Bigint => "BIGINT".into(),
        DataType::Float { precision } => format!("FLOAT({})", precision),
        DataType::Real => "REAL".into(),
        DataType::DoublePrecision => "DOUBLE PRECISION".into(),
        DataType::Varchar { max_length: Some(n) } => format!("VARCHAR({})", n),
        DataType::Varchar { max_length: None } => "VARCHAR".into(),
        DataType::Character { length } => format!("CHAR({})", length),
        DataType::Boolean => "BOOLEAN".into(),
        DataType::Date => "DATE".into(),
        DataType::Time { .. } => "TIME".into(),
        DataType::Timestamp { with_timezone: true } => "TIMESTAMP WITH TIME ZONE".into(),
        DataType::Timestamp { with_timezone: false } => "TIMESTAMP".into(),
        DataType::Numeric { precision, scale } => format!("NUMERIC({}, {})", precision, scale),
        other => panic!("harness: no SQL type text for {:?}", other),
    }
}

// ---------------------------------------------------------------------------------------------
// the property's own oracle and the narrow defect classifiers
// ---------------------------------------------------------------------------------------------
/// value identity for the property's oracle: floats by bits, except that all NaNs of a variant are one
/// value (SqlValue's own equality says NaN == NaN; a NaN payload is not table content)
fn val_key(v: &SqlValue) -> String {
    match v {
        SqlValue::Numeric(f) | SqlValue::Double(f) if f.is_nan() => format!("{:?}#NaN", std::mem::discriminant(v)),
        SqlValue::Float(f) | SqlValue::Real(f) if f.is_nan() => format!("{:?}#NaN", std::mem::discriminant(v)),
        _ => strict_key(v),
    }
}
/// strict identity (floats by bits), used to decide that a reloaded database IS the saved one
fn strict_key(v: &SqlValue) -> String {
    match v {
        SqlValue::Numeric(f) | SqlValue::Double(f) => format!("{:?}#{:016x}", std::mem::discriminant(v), f.to_bits()),
        SqlValue::Float(f) | SqlValue::Real(f) => format!("{:?}#{:08x}", std::mem::discriminant(v), f.to_bits()),
        other => format!("{:?}", other),
    }
}
fn row_key(r: &[SqlValue]) -> String {
    r.iter().map(val_key).collect::<Vec<_>>().join("\u{1}")
}
fn same_table(a: &TableObs, b: &TableObs) -> bool {
    if a.cols.len() != b.cols.len() {
        return false;
    }
    for (x, y) in a.cols.iter().zip(b.cols.iter()) {
        if x.0 != y.0 || x.1 != y.1 || x.2 != y.2 {
            return false;
        }
    }
    let mut ra: Vec<String> = a.rows.iter().map(|r| row_key(r)).collect();
    let mut rb: Vec<String> = b.rows.iter().map(|r| row_key(r)).collect();
    ra.sort();
    rb.sort();
    ra == rb
}
/// the splitter-safety predicate of the model (Codec/SqlDumpSpec.v `esc_safe`), re-implemented here
/// only to CLASSIFY failures; the model's own definition is what the shards evaluate
fn esc_safe(s: &str) -> bool {
    let mut e = false;
    for c in s.chars() {
        if e {
            if c == '\'' {
                return false;
            }
            e = false;
        } else if c == '\\' {
            e = true;
        }
    }
    !e
}
fn has_dash_line(s: &str) -> bool {
    s.split('\n').skip(1).any(|l| l.trim().starts_with("--"))
}
fn is_negative(v: &SqlValue) -> bool {
    match v {
        SqlValue::Integer(i) | SqlValue::Bigint(i) => *i < 0,
        SqlValue::Smallint(i) => *i < 0,
        SqlValue::Numeric(f) | SqlValue::Double(f) => !f.is_nan() && f.is_sign_negative() && f.is_finite(),
        SqlValue::Float(f) | SqlValue::Real(f) => !f.is_nan() && f.is_sign_negative() && f.is_finite(),
        _ => false,
    }
}
#[allow(dead_code)]
fn is_special_float(v: &SqlValue) -> bool {
    match v {
        SqlValue::Double(f) | SqlValue::Numeric(f) => !f.is_finite(),
        SqlValue::Float(f) | SqlValue::Real(f) => !f.is_finite(),
        _ => false,
    }
}
/// a CHAR(n) value with a non-blank character beyond its first n bytes: coerce_value measures the
/// literal in bytes and cuts it (on a character boundary), the storage layer pads the rest back
#[allow(dead_code)]
fn char_cut_loses(v: &SqlValue, t: &DataType) -> bool {
    match (v, t) {
        (SqlValue::Character(s), DataType::Character { length }) if s.len() > *length => {
            let mut end = *length;
            while !s.is_char_boundary(end) {
                end -= 1;
            }
            s[end..].chars().any(|c| c != ' ')
        }
        _ => false,
    }
}
/// the class of a failing database: the first listed defect feature the database carries
fn classify(tabs: &[TableObs]) -> &'static str {
    let vals: Vec<&SqlValue> = tabs.iter().flat_map(|t| t.rows.iter().flat_map(|r| r.iter())).collect();
    let strs: Vec<&String> = vals.iter().filter_map(|v| match v { SqlValue::Varchar(s) | SqlValue::Character(s) => Some(s), _ => None }).collect();
    if strs.iter().any(|s| s.contains('\n') && has_dash_line(s)) {
        "string-line-starting-with-dashes"
    } else if strs.iter().any(|s| s.contains('\n')) {
        "string-with-newline"
    } else if strs.iter().any(|s| !esc_safe(s)) {
        "string-with-backslash"
    } else if vals.iter().any(|v| is_negative(v)) {
        "negative-number-literal"
    } else {
        "roundtrip-mismatch"
    }
}

// ---------------------------------------------------------------------------------------------
// text cases
// ---------------------------------------------------------------------------------------------
struct TextCase {
    label: String,
    text: String,
    must_decide: bool,
}
fn base_dump(tables: &str) -> String {
    format!("-- VibeSQL Database Dump\n-- Generated: x\n--\n\n-- Schemas\n\n-- Roles\n\n-- Tables and Data\n{}\n-- Indexes\n\n-- End of dump\n", tables)
}
fn fixed_text_cases() -> Vec<TextCase> {
    let mut v = Vec::new();
    let mut add = |label: &str, body: &str, must: bool| v.push(TextCase { label: label.to_string(), text: base_dump(body), must_decide: must });
    let ct = "CREATE TABLE T0 (A INTEGER NOT NULL, B VARCHAR(10), C DOUBLE PRECISION);\n";
    add("plain", &format!("{}\nINSERT INTO T0 VALUES (1, 'x', 1.5);\nINSERT INTO T0 VALUES (2, NULL, NULL);\n", ct), true);
    add("lowercase", "create table t0 (a integer not null, b varchar(10));\ninsert into t0 values (1, 'x');\n", true);
    add("multirow", &format!("{}INSERT INTO T0 VALUES (1, 'x', 1.5), (2, 'y', 2);\n", ct), true);
    add("multirow-second-bad", &format!("{}INSERT INTO T0 VALUES (1, 'x', 1.5), (NULL, 'y', 2);\n", ct), true);
    add("arity-short", &format!("{}INSERT INTO T0 VALUES (1, 'x');\n", ct), true);
    add("arity-long", &format!("{}INSERT INTO T0 VALUES (1, 'x', 1.5, 4);\n", ct), true);
    add("null-into-notnull", &format!("{}INSERT INTO T0 VALUES (NULL, 'x', 1.5);\n", ct), true);
    add("string-into-int", &format!("{}INSERT INTO T0 VALUES ('1', 'x', 1.5);\n", ct), true);
    add("int-into-varchar", &format!("{}INSERT INTO T0 VALUES (1, 2, 1.5);\n", ct), true);
    add("bool-into-int", &format!("{}INSERT INTO T0 VALUES (TRUE, 'x', 1.5);\n", ct), true);
    add("string-into-double", &format!("{}INSERT INTO T0 VALUES (1, 'x', 'NaN');\n", ct), true);
    add("frac-into-int", &format!("{}INSERT INTO T0 VALUES (1.5, 'x', 1.5);\n", ct), false);
    add("unknown-table", &format!("{}INSERT INTO T1 VALUES (1, 'x', 1.5);\n", ct), true);
    add("duplicate-create", &format!("{}{}", ct, ct), true);
    add("column-list", &format!("{}INSERT INTO T0 (A, B) VALUES (1, 'x');\n", ct), false);
    add("unary-minus", &format!("{}INSERT INTO T0 VALUES (-1, 'x', 1.5);\n", ct), true);
    add("unary-minus-later", &format!("{}INSERT INTO T0 VALUES (1, 'x', -1.5);\n", ct), true);
    add("unary-plus", &format!("{}INSERT INTO T0 VALUES (+1, 'x', 1.5);\n", ct), false);
    add("paren-value", &format!("{}INSERT INTO T0 VALUES ((1), 'x', 1.5);\n", ct), false);
    add("sum-value", &format!("{}INSERT INTO T0 VALUES (1+1, 'x', 1.5);\n", ct), false);
    add("default-value", &format!("{}INSERT INTO T0 VALUES (1, DEFAULT, 1.5);\n", ct), false);
    add("exponent", &format!("{}INSERT INTO T0 VALUES (1, 'x', 1e3);\nINSERT INTO T0 VALUES (2, 'x', .5);\nINSERT INTO T0 VALUES (3, 'x', 5.);\nINSERT INTO T0 VALUES (4, 'x', 2.5E-3);\n", ct), true);
    add("bad-exponent", &format!("{}INSERT INTO T0 VALUES (1, 'x', 1e);\n", ct), true);
    add("select", &format!("{}SELECT 1;\n", ct), true);
    add("drop", &format!("{}DROP TABLE T0;\n", ct), true);
    add("garbage-first-token", &format!("{}'x' INSERT;\n", ct), true);
    add("create-index", &format!("{}CREATE INDEX I0 ON T0 (A Asc);\n", ct), false);
    add("create-schema", "CREATE SCHEMA S1;\n", false);
    add("replace", &format!("{}REPLACE INTO T0 VALUES (1, 'x', 1.5);\n", ct), false);
    add("crlf", &format!("{}INSERT INTO T0 VALUES (1, 'x', 1.5);\n", ct).replace('\n', "\r\n"), true);
    add("double-semicolon", &format!("{}INSERT INTO T0 VALUES (1, 'x', 1.5);;\n;\n", ct), true);
    add("no-final-newline-no-semicolon", &format!("{}INSERT INTO T0 VALUES (1, 'x', 1.5)", ct), true);
    add("multi-line-statement", "CREATE TABLE T0 (\n  A INTEGER NOT NULL,\n  -- a comment line inside the statement\n  B VARCHAR(10)\n);\nINSERT INTO T0\n  VALUES (1,\n 'x');\n", true);
    add("two-statements-one-line", "CREATE TABLE T0 (A INTEGER); INSERT INTO T0 VALUES (1); INSERT INTO T0 VALUES (2);\n", true);
    add("trailing-comment", "CREATE TABLE T0 (A INTEGER); -- first\nINSERT INTO T0 VALUES (1); -- 'quoted;\nINSERT INTO T0 VALUES (2);\n", false);
    add("indented-comment-lines", "CREATE TABLE T0 (A INTEGER);\n   -- x\n\t--y\n\u{a0}-- nbsp\nINSERT INTO T0 VALUES (1);\n", true);
    add("dquote-identifier", "CREATE TABLE \"t;0\" (A INTEGER);\n", false);
    add("dquote-swallows", "CREATE TABLE T0 (A VARCHAR(9));\nINSERT INTO T0 VALUES ('a\"b');\nINSERT INTO T0 VALUES ('c\"d');\n", true);
    add("date-literals", "CREATE TABLE T0 (A DATE, B TIME, C TIMESTAMP);\nINSERT INTO T0 VALUES (DATE '2024-02-29', TIME '01:02:03.5', TIMESTAMP '2024-01-05 01:02:03');\nINSERT INTO T0 VALUES ('2024-02-29', '01:02:03', '2024-01-05 01:02:03.25');\n", true);
    add("date-bad", "CREATE TABLE T0 (A DATE);\nINSERT INTO T0 VALUES (DATE '2024-13-01');\n", true);
    add("date-no-string", "CREATE TABLE T0 (A DATE);\nINSERT INTO T0 VALUES (DATE 5);\n", true);
    add("date-from-bad-string", "CREATE TABLE T0 (A DATE);\nINSERT INTO T0 VALUES ('yesterday');\n", true);
    add("interval-no-field", "CREATE TABLE T0 (A VARCHAR(9));\nINSERT INTO T0 VALUES (INTERVAL '5 YEAR');\n", true);
    add("interval-field", "CREATE TABLE T0 (A VARCHAR(9));\nINSERT INTO T0 VALUES (INTERVAL '5' YEAR);\n", false);
    add("type-aliases", "CREATE TABLE T0 (A INT, B BOOL, C TEXT, D DEC(5), E NUMERIC, F FLOAT, G DOUBLE, H CHARACTER(3), I CHAR, J LONG, K DATETIME, L DECIMAL(7,3));\nINSERT INTO T0 VALUES (1, TRUE, 'abc', 1.5, 2.5, 3, 4, 'ab', 'z', 6, '2024-01-05 01:02:03', 0.125);\n", true);
    add("tz-types", "CREATE TABLE T0 (A TIME WITH TIME ZONE, B TIME WITHOUT TIME ZONE, C TIMESTAMP WITH TIME ZONE, D TIMESTAMP WITHOUT TIME ZONE NOT NULL);\n", true);
    add("tz-broken", "CREATE TABLE T0 (A TIME WITH ZONE);\n", true);
    add("null-constraints", "CREATE TABLE T0 (A INTEGER NULL, B INTEGER NOT NULL NULL, C INTEGER NULL NOT NULL);\nINSERT INTO T0 VALUES (NULL, 1, 2);\n", true);
    add("not-without-null", "CREATE TABLE T0 (A INTEGER NOT);\n", true);
    add("varchar-characters", "CREATE TABLE T0 (A VARCHAR(5 CHARACTERS));\n", false);
    add("unsigned", "CREATE TABLE T0 (A BIGINT UNSIGNED);\n", false);
    add("primary-key", "CREATE TABLE T0 (A INTEGER PRIMARY KEY);\n", false);
    add("no-columns", "CREATE TABLE T0 ();\n", true);
    add("float-args", "CREATE TABLE T0 (A FLOAT(24), B FLOAT(255), C VARCHAR(0), D CHAR(0));\n", true);
    add("float-arg-too-big", "CREATE TABLE T0 (A FLOAT(256));\n", true);
    add("char-pad-truncate", "CREATE TABLE T0 (A CHAR(3), B VARCHAR(3));\nINSERT INTO T0 VALUES ('a', 'abcdef');\nINSERT INTO T0 VALUES ('abcdef', 'ab');\nINSERT INTO T0 VALUES ('', '');\n", true);
    add("char-non-ascii-pad", "CREATE TABLE T0 (A CHAR(4));\nINSERT INTO T0 VALUES ('é');\n", true);
    add("char-cut-inside-character", "CREATE TABLE T0 (A CHAR(3));\nINSERT INTO T0 VALUES ('aéé');\n", true);
    add("varchar-cut-inside-character", "CREATE TABLE T0 (A VARCHAR(3));\nINSERT INTO T0 VALUES ('aéé');\n", true);
    add("char-into-varchar-none", "CREATE TABLE T0 (A VARCHAR);\nINSERT INTO T0 VALUES ('  x  ');\n", true);
    add("int-widening", "CREATE TABLE T0 (A BIGINT, B REAL, C FLOAT(10), D DOUBLE PRECISION);\nINSERT INTO T0 VALUES (5, 16777217, 3, 9007199254740993);\n", true);
    add("int-into-smallint", "CREATE TABLE T0 (A SMALLINT);\nINSERT INTO T0 VALUES (5);\n", true);
    add("int-into-numeric", "CREATE TABLE T0 (A NUMERIC(5, 2));\nINSERT INTO T0 VALUES (5);\n", true);
    add("huge-int-into-bigint", "CREATE TABLE T0 (A BIGINT);\nINSERT INTO T0 VALUES (9223372036854775808);\n", false);
    add("keyword-column", "CREATE TABLE T0 (VALUE INTEGER);\n", false);
    add("keyword-table", "CREATE TABLE VALUES (A INTEGER);\n", false);
    add("qualified-table", "CREATE TABLE PUBLIC.T0 (A INTEGER);\n", false);
    add("unterminated-string", "CREATE TABLE T0 (A VARCHAR(9));\nINSERT INTO T0 VALUES ('abc);\n", true);
    add("lexer-unexpected-char", "CREATE TABLE T0 (A INTEGER);\nINSERT INTO T0 VALUES (#);\n", true);
    add("non-ascii-outside-string", "CREATE TABLE T0 (A INTEGER);\nINSERT INTO T0 VALUES (é);\n", true);
    add("ident-with-non-ascii", "CREATE TABLE T0 (Aé INTEGER);\n", false);
    // truncate_for_error slices the failing statement at byte 100
    let pad = "x".repeat(66);
    add("long-failing-ascii", &format!("CREATE TABLE T0 (A VARCHAR(200), B INTEGER);\nINSERT INTO T0 VALUES ('{}ééé', -1);\n", pad), true);
    add("long-failing-cut-inside-character", &format!("CREATE TABLE T0 (A VARCHAR(200), B INTEGER);\nINSERT INTO T0 VALUES ('{}xééé', -1);\n", pad), true);
    add("long-ok", &format!("CREATE TABLE T0 (A VARCHAR(200), B INTEGER);\nINSERT INTO T0 VALUES ('{}xééé', 1);\n", pad), true);
    v
}
fn random_text(r: &mut Rng) -> String {
    let atoms = ["'", "'", "\"", "\\", ";", ";", "-", "--", "\n", "\n", "\r\n", "\r", " ", "\t", "\u{a0}", "a", "b", "INSERT INTO T0 VALUES (", ")", "1", ",", "\n--", "\n -- ", "''", "\\'", "CREATE TABLE T0 (A INTEGER)", "\u{2028}", "\u{85}"];
    let n = r.below(14) as usize;
    let mut s = String::new();
    for _ in 0..n {
        s.push_str(pk(r, &atoms));
    }
    s
}
fn lex_text(r: &mut Rng) -> String {
    let atoms = ["'", "''", "\"", "`", "\\", ";", ",", "(", ")", "-", "--", "+", "*", "/", ".", "..", "1", "23", "4.5", ".5", "5.", "1e5", "2E+3", "3e-", "e", "E", "abc", "Abc_1", "_x", "x9", "NULL", "null", "Date", "values", "INTO", "é", "aé", "\u{a0}", " ", "  ", "\n", "\t", "=", "<", "<=", "@v", "#", "|", "!", "9223372036854775808", "0", "007", "\u{3000}", "😀"];
    let n = 1 + r.below(8) as usize;
    let mut s = String::new();
    for _ in 0..n {
        s.push_str(pk(r, &atoms));
        if r.chance(1, 3) {
            s.push(' ');
        }
    }
    s
}

fn coq_tok(t: &Token) -> Option<String> {
    Some(match t {
        Token::Keyword(k) => format!("TKw {}", cps(&format!("{:?}", k))),
        Token::Identifier(s) => format!("TIdent {}", cps(s)),
        Token::DelimitedIdentifier(s) => format!("TDelim {}", cps(s)),
        Token::Number(s) => format!("TNum {}", cps(s)),
        Token::String(s) => format!("TStr {}", cps(s)),
        Token::Symbol(c) => format!("TSym {}", *c as u32),
        Token::Semicolon => "TSemi".into(),
        Token::Comma => "TComma".into(),
        Token::LParen => "TLParen".into(),
        Token::RParen => "TRParen".into(),
        _ => return None,
    })
}

// ---------------------------------------------------------------------------------------------
fn main() {
    let args = parse_args();
    quiet_panics();
    std::env::set_var("RUST_BACKTRACE", "0");
    let mut sum = Summary::default();
    sum.nontrivial_rule = "database cases with at least one stored non-NULL value (canonical text = the dump body); text and lexer cases with non-empty text".to_string();
    let mut log = CaseLog::new(&args);
    let n_db: u64 = if args.thorough { 8000 } else { 1000 };
    let n_rand_text: u64 = if args.thorough { 4000 } else { 400 };
    let n_lex: u64 = if args.thorough { 6000 } else { 600 };
    let tmp = args.out.join("dumps");
    std::fs::create_dir_all(&tmp).expect("harness tmp dir");
    let want = |id: u64| args.only.as_ref().map(|o| o.contains(&id)).unwrap_or(true);

    let mut dcases: Vec<String> = Vec::new();
    let mut tcases: Vec<String> = Vec::new();
    let mut lcases: Vec<String> = Vec::new();
    let mut model_known: BTreeSet<u64> = BTreeSet::new();

    // ---------------- database cases: ids 1 ..= n_db
    for i in 1..=n_db {
        if !want(i) {
            continue;
        }
        let mut r = Rng::new(args.seed, &format!("db{}", i));
        let g = gen_db(&mut r);
        let names = {
            // the order the implementation lists (and dumps) them in
            let l = g.db.list_tables();
            let mut l2: Vec<String> = l.into_iter().filter(|n| g.names.contains(n)).collect();
            if l2.len() != g.names.len() {
                l2 = g.names.clone();
            }
            l2
        };
        let orig = observe_db(&g.db, &names);
        let path = tmp.join(format!("d{}.sql", i));
        g.db.save_sql_dump(&path).expect("harness save_sql_dump");
        let text = std::fs::read_to_string(&path).expect("harness read dump");
        let generated = text.lines().find_map(|l| l.strip_prefix("-- Generated: ")).unwrap_or("").to_string();
        let split = real_split(&text);
        let obs = real_load(&path);
        std::fs::remove_file(&path).ok();
        sum.evaluations += 1;
        sum.count(&format!("db.bad.{:?}", g.bad));
        sum.count(&format!("db.tables.{}", orig.len()));
        let nvals: usize = orig.iter().map(|t| t.rows.iter().map(|r| r.iter().filter(|v| !matches!(v, SqlValue::Null)).count()).sum::<usize>()).sum();
        sum.count(&format!("db.rows.{}", orig.iter().map(|t| t.rows.len()).sum::<usize>().min(12)));
        sum.count(match &obs { LoadObs::Ok(_) => "db.load.ok", LoadObs::Err(_) => "db.load.err", LoadObs::Panic => "db.load.panic" });
        let body: String = text.lines().filter(|l| !l.starts_with("-- Generated")).collect::<Vec<_>>().join("\n");
        if nvals > 0 {
            sum.nontrivial(&body);
        }
        let case_json = json!({"kind": "database", "built_by": g.history, "dump": body,
            "load": match &obs { LoadObs::Ok(_) => "ok".to_string(), LoadObs::Err(e) => format!("err: {}", e.replace('\n', " | ")), LoadObs::Panic => "panic".into() }});
        log.log(i, case_json.clone());
        if i <= 3 {
            sum.sample(case_json.clone());
        }
        // ORACLE: every table comes back with the same columns and the same bag of rows
        let holds = match &obs {
            LoadObs::Ok(got) => orig.iter().all(|t| got.iter().any(|u| u.name == t.name && same_table(t, u))) && got.len() == orig.len(),
            _ => false,
        };
        if !holds {
            let class = classify(&orig);
            sum.count(&format!("db.finding.{}", class));
            let what = match &obs {
                LoadObs::Ok(got) => format!("reloaded database differs: saved {:?} reloaded {:?}", orig.iter().map(|t| (&t.name, t.rows.len())).collect::<Vec<_>>(), got.iter().map(|t| (&t.name, t.rows.len())).collect::<Vec<_>>()),
                LoadObs::Err(e) => format!("load_sql_dump failed on the file save_sql_dump wrote: {}", e.replace('\n', " | ")),
                LoadObs::Panic => "load_sql_dump panicked on the file save_sql_dump wrote".to_string(),
            };
            sum.finding(class, i, what, case_json);
        }
        // model shard entry
        let mut ft = FTab::default();
        for t in &orig {
            for row in &t.rows {
                for v in row {
                    ft.add_value(v);
                }
            }
        }
        ft.add_statements(&split);
        let tabs: Option<Vec<String>> = orig.iter().map(coq_table).collect();
        match (tabs, coq_obs(&obs, Some(&orig))) {
            (Some(tabs), Some(o)) => {
                dcases.push(format!(
                    "mk_dcase {} {} {} {} {} {} {}",
                    i,
                    ft.coq(),
                    cps(&generated),
                    if tabs.is_empty() { "(@nil table)".to_string() } else { coq_list(&tabs) },
                    hash_str(7, &text),
                    hash_strs(&split),
                    o
                ));
                sum.model_cases += 1;
            }
            _ => {
                model_known.insert(i);
            }
        }
    }

    // ---------------- text cases: ids n_db+1 ..
    let fixed = fixed_text_cases();
    let mut tid = n_db;
    let mut texts: Vec<TextCase> = fixed;
    for k in 0..n_rand_text {
        let mut r = Rng::new(args.seed, &format!("text{}", k));
        let text = if r.chance(1, 3) {
            // a statement-shaped prefix followed by noise
            format!("CREATE TABLE T0 (A VARCHAR(99));\nINSERT INTO T0 VALUES ('{}');\nINSERT INTO T0 VALUES ('k');\n", random_text(&mut r).replace('\'', "''"))
        } else {
            random_text(&mut r)
        };
        texts.push(TextCase { label: "random".into(), text, must_decide: false });
    }
    for tc in &texts {
        tid += 1;
        if !want(tid) {
            continue;
        }
        let path = tmp.join(format!("t{}.sql", tid));
        std::fs::write(&path, &tc.text).expect("harness write text case");
        let split = real_split(&tc.text);
        let obs = real_load(&path);
        std::fs::remove_file(&path).ok();
        sum.evaluations += 1;
        sum.count(&format!("text.{}", if tc.label == "random" { "random" } else { "fixed" }));
        sum.count(match &obs { LoadObs::Ok(_) => "text.load.ok", LoadObs::Err(_) => "text.load.err", LoadObs::Panic => "text.load.panic" });
        if !tc.text.is_empty() {
            sum.nontrivial(&tc.text);
        }
        log.log(tid, json!({"kind": "text", "label": tc.label, "text": tc.text,
            "load": match &obs { LoadObs::Ok(_) => "ok".to_string(), LoadObs::Err(e) => format!("err: {}", e.replace('\n', " | ")), LoadObs::Panic => "panic".into() }}));
        let mut ft = FTab::default();
        ft.add_statements(&split);
        match coq_obs(&obs, None) {
            Some(o) => {
                tcases.push(format!("mk_tcase {} {} {} {} {} {}", tid, ft.coq(), cps(&tc.text), hash_strs(&split), o, tc.must_decide));
                sum.model_cases += 1;
            }
            None => {
                model_known.insert(tid);
            }
        }
    }

    // ---------------- lexer cases
    let mut lid = tid;
    for k in 0..n_lex {
        lid += 1;
        if !want(lid) {
            continue;
        }
        let mut r = Rng::new(args.seed, &format!("lex{}", k));
        let (text, must) = if k % 4 == 0 {
            // statement-shaped: must be decided by the model
            let fl = r.below(5);
            let s = gen_string(&mut r, fl, 12).replace('\'', "''");
            (format!("INSERT INTO T{} VALUES ({}, '{}', DATE '2024-01-0{}', {}.{}, NULL, TRUE) -- c", r.below(3), r.below(100000), s, 1 + r.below(9), r.below(50), r.below(1000)), true)
        } else {
            (lex_text(&mut r), false)
        };
        let res = catch_unwind(AssertUnwindSafe(|| Lexer::new(&text).tokenize()));
        sum.evaluations += 1;
        sum.nontrivial(&text);
        let impl_term = match res {
            Ok(Ok(toks)) => {
                let n = toks.len();
                let body: Option<Vec<String>> = toks.iter().take(n.saturating_sub(1)).map(coq_tok).collect();
                let eof_last = matches!(toks.last(), Some(Token::Eof));
                match body {
                    Some(b) if eof_last => {
                        sum.count("lex.ok");
                        format!("(ILOk {})", if b.is_empty() { "(@nil tok)".to_string() } else { coq_list(&b) })
                    }
                    _ => {
                        sum.count("lex.other-tokens");
                        "ILOther".to_string()
                    }
                }
            }
            Ok(Err(_)) => {
                sum.count("lex.err");
                "ILErr".to_string()
            }
            Err(_) => {
                sum.count("lex.panic");
                "ILOther".to_string()
            }
        };
        log.log(lid, json!({"kind": "lexer", "text": text}));
        lcases.push(format!("mk_lcase {} {} {} {}", lid, cps(&text), impl_term, must));
        sum.model_cases += 1;
    }

    // ---------------- shards
    let header = "From Coq Require Import List ZArith Bool.\nFrom VibeSQL Require Import Value.SqlValue Value.Dec Lex.DumpLex Codec.SqlLiteral Codec.SqlLoad Run.C19Run.\nImport ListNotations.\nOpen Scope Z_scope.\n";
    let nshards = if args.thorough { 64usize } else { 16usize };
    let mut shards: Vec<(Vec<&String>, Vec<&String>, Vec<&String>)> = (0..nshards).map(|_| (Vec::new(), Vec::new(), Vec::new())).collect();
    for (k, c) in dcases.iter().enumerate() {
        shards[k % nshards].0.push(c);
    }
    for (k, c) in tcases.iter().enumerate() {
        shards[k % nshards].1.push(c);
    }
    for (k, c) in lcases.iter().enumerate() {
        shards[k % nshards].2.push(c);
    }
    for (k, (d, t, l)) in shards.iter().enumerate() {
        let lst = |v: &Vec<&String>, ty: &str| {
            if v.is_empty() {
                format!("(@nil {})", ty)
            } else {
                format!("[\n  {}\n]", v.iter().map(|s| s.as_str()).collect::<Vec<_>>().join(";\n  "))
            }
        };
        let text = format!(
            "{}Definition ds : list dcase := {}.\nDefinition ts : list tcase := {}.\nDefinition ls : list lcase := {}.\nEval vm_compute in (c19_mismatches ds ts ls).\n",
            header,
            lst(d, "dcase"),
            lst(t, "tcase"),
            lst(l, "lcase")
        );
        write_shard(&args, k, &text);
    }
    if !model_known.is_empty() {
        sum.notes.push(format!("cases without a model term (types outside the model's dtype): {:?}", model_known));
    }
    std::fs::remove_dir_all(&tmp).ok();
    sum.write(&args);
}
