//! scratch probe for C11/C34 (deleted when done)
use vh::sql::*;
use vibesql_ast::{Statement, TriggerAction};
use vibesql_storage::Database;

fn trig(db: &mut Database, header: &str, body: &str) {
    let text = format!("CREATE TRIGGER {} BEGIN SELECT 1; END", header);
    let st = vibesql_parser::Parser::parse_sql(&text).unwrap_or_else(|e| panic!("harness parse {}: {:?}", text, e));
    if let Statement::CreateTrigger(mut s) = st {
        s.triggered_action = TriggerAction::RawSql(body.to_string());
        println!("   trigger {} event={:?} gran={:?} when={:?}", s.trigger_name, s.event, s.granularity, s.when_condition.is_some());
        vibesql_executor::TriggerExecutor::create_trigger(db, &s).unwrap();
    } else {
        panic!("harness not a trigger");
    }
}
fn show(db: &mut Database, t: &str) {
    let o = exec(db, &format!("SELECT * FROM {}", t));
    match o {
        Outcome::Rows(r) => println!("   {} = {:?}", t, canon_seq(&r)),
        o => println!("   {} -> {:?}", t, o),
    }
}
fn run(db: &mut Database, sql: &str) {
    let o = exec(db, sql);
    println!(" > {}  => {}", sql, match &o { Outcome::Err(c, m) => format!("ERR {:?} {}", c, &m[..m.len().min(140)]), o => o.tag() });
}
fn base() -> Database {
    let mut db = Database::new();
    must(&mut db, "CREATE TABLE T (ID INTEGER PRIMARY KEY, A INTEGER, B INTEGER)");
    must(&mut db, "CREATE TABLE AUD (TAG INTEGER, O INTEGER, N INTEGER)");
    db
}
fn main() {
    vh::out::quiet_panics();
    let mut db = Database::new();
    must(&mut db, "CREATE TABLE T (ID INTEGER PRIMARY KEY, A INTEGER NOT NULL, B INTEGER, C INTEGER CHECK (C < 100))");
    must(&mut db, "CREATE TABLE AUD (TAG INTEGER, O INTEGER, N INTEGER)");
    let sch = db.catalog.get_table("T").unwrap().clone();
    for c in &sch.columns { println!("col {} nullable={}", c.name, c.nullable); }
    println!("pk={:?} checks={:?}", sch.get_primary_key_indices(), sch.check_constraints.len());
    run(&mut db, "INSERT INTO T VALUES (NULL, 1, 1, 1)");
    run(&mut db, "INSERT INTO T (ID, NOPE) VALUES (1, 1)");
    run(&mut db, "INSERT INTO T VALUES (1, 1, 1)");
    run(&mut db, "INSERT INTO T VALUES (1, 1, 1, 100)");
    run(&mut db, "INSERT INTO T VALUES (1, 1, 1, NULL)");
    run(&mut db, "INSERT INTO T VALUES (2, 1, 'x', 5)");
    run(&mut db, "INSERT INTO T VALUES (2, 1, 2, 5), (3, 1, 2, 5), (2, 1, 1, 1)");
    run(&mut db, "INSERT INTO T VALUES (5, 1, 2, 5), (3, 1, 2, 5), (4, 1, 1, 1)");
    show(&mut db, "T");
    println!("scan: {:?}", db.get_table("T").unwrap().scan().iter().map(|r| canon_row(&r.values)).collect::<Vec<_>>());
    run(&mut db, "UPDATE T SET NOPE = 1 WHERE ID = 77");
    run(&mut db, "UPDATE T SET NOPE = 1 WHERE ID = 1");
    run(&mut db, "UPDATE T SET B = B + 1 WHERE NOPE = 1");
    run(&mut db, "DELETE FROM T WHERE NOPE = 1");
    run(&mut db, "UPDATE T SET B = B + 1 WHERE B > 0 AND C IS NULL");
    run(&mut db, "UPDATE T SET B = NULL + 1 WHERE ID = 3");
    show(&mut db, "T");
    println!("== WHEN variants");
    for (i, w) in ["NEW.ID > 5 AND OLD.ID = 1", "OLD.ID = 1 AND NEW.ID > 5", "NEW.ID > 5 OR OLD.ID = 1", "NEW.ID > 0 OR OLD.ID = 1", "NEW.B = 1", "NOT (NEW.B = 1)", "NEW.B IS NULL", "5", "NULL", "ID > 5", "B", "NEW.ID = 'x'", "NEW.ID < 'x'", "TRUE", "FALSE", "NEW.NOPE = 1", "NEW.B = 1 AND NEW.ID = 9", "NEW.B = 1 OR NEW.ID = 9", "NEW.ID = 9 OR NEW.B = 1", "NEW.ID = 9 AND 5", "NEW.ID = 1 AND 5"].iter().enumerate() {
        let mut d2 = Database::new();
        must(&mut d2, "CREATE TABLE T (ID INTEGER PRIMARY KEY, A INTEGER NOT NULL, B INTEGER, C INTEGER CHECK (C < 100))");
        must(&mut d2, "CREATE TABLE AUD (TAG INTEGER, O INTEGER, N INTEGER)");
        let text = format!("CREATE TRIGGER TR{} AFTER INSERT ON T FOR EACH ROW WHEN ({}) BEGIN SELECT 1; END", i, w);
        match vibesql_parser::Parser::parse_sql(&text) {
            Ok(Statement::CreateTrigger(mut s)) => {
                s.triggered_action = TriggerAction::RawSql("INSERT INTO AUD VALUES (1, NULL, NEW.ID)".to_string());
                vibesql_executor::TriggerExecutor::create_trigger(&mut d2, &s).unwrap();
                let o = exec(&mut d2, "INSERT INTO T VALUES (9, 1, NULL, 1)");
                let n = d2.get_table("AUD").unwrap().row_count();
                println!("  WHEN ({})  => {} fired={}", w, match &o { Outcome::Err(_, m) => format!("ERR {}", &m[..m.len().min(100)]), o => o.tag() }, n);
            }
            other => println!("  WHEN ({}) parse: {:?}", w, other.err()),
        }
    }
    println!("== trigger order");
    for round in 0..3 {
        let mut d2 = Database::new();
        must(&mut d2, "CREATE TABLE T (ID INTEGER PRIMARY KEY, A INTEGER)");
        must(&mut d2, "CREATE TABLE AUD (TAG INTEGER, O INTEGER, N INTEGER)");
        for i in 0..6 { trig(&mut d2, &format!("TR{} AFTER INSERT ON T FOR EACH ROW", i), &format!("INSERT INTO AUD VALUES ({}, NULL, NEW.ID)", i)); }
        must(&mut d2, "INSERT INTO T VALUES (1, 1)");
        show(&mut d2, "AUD");
        println!("  scan AUD: {:?}", d2.get_table("AUD").unwrap().scan().iter().map(|r| canon_row(&r.values)).collect::<Vec<_>>());
        println!("  round {} catalog order {:?} list_tables {:?}", round, d2.catalog.get_triggers_for_table("T", None).map(|t| t.name.clone()).collect::<Vec<_>>(), d2.catalog.list_tables());
        let d3 = d2.clone();
        println!("  clone order {:?} {:?}", d3.catalog.get_triggers_for_table("T", None).map(|t| t.name.clone()).collect::<Vec<_>>(), d3.catalog.list_tables());
    }
}
