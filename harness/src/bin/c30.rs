//! C30 - Python DB-API parameter binding is faithful.
//!
//! The code under test is the REAL extension module: it is built from /repo
//! (`cargo build -p vibesql-python-bindings` into /verif/.cache/pytarget), copied to
//! /verif/.cache/pymod/vibesql.so and driven from `python3` through harness/py/c30_driver.py.
//! If the module cannot be built, imported or driven, this binary exits non-zero: the check then
//! reports the correspondence as not established.  Nothing here computes a result on the module's behalf.
//!
//! What is generated: call sequences on one cursor (same text x varying tuples, DML on tables, unique-text
//! controls, '?' inside '..' / ".." / `..` / -- comments, literals next to '-' and quotes, every value kind
//! printed through the `SELECT '?'` window and read back through `SELECT ?`, LRU capacity sequences,
//! DDL cache clearing, error paths, garbage texts).
//! Oracles on the implementation (findings):
//!   O1  every call must give what a fresh connection gives for the text bound by the harness's own
//!       literal-aware binder (error/no-error, result bag, rowcount); first divergence per sequence;
//!   O2  (structure cases) ... and what the same text gives when every literal is surrounded by spaces;
//!   O3  (read-back cases) the value read back by `SELECT ?` equals the Python value bound.
//! Model tie (shards): Store/Cursor.v + Lex/Placeholder.v must predict exception class, result and
//! last_result of every call, with parser/executor answers supplied by the shadow connection; bind_spec
//! must equal the harness's reference binder; read_back must predict the values read back.
use serde_json::{json, Value};
use std::collections::BTreeMap;
use std::fmt::Write as _;
use std::process::Command;
use vh::out::*;
use vh::rng::Rng;

const REPO: &str = "/repo";
const PYTARGET: &str = "/verif/.cache/pytarget";
const PYMOD: &str = "/verif/.cache/pymod";
const DRIVER: &str = concat!(env!("CARGO_MANIFEST_DIR"), "/py/c30_driver.py");

/// which of the proposed repairs (fixes/C30-*.patch) the source in /repo has; all false = the code as modelled
#[derive(Clone, Copy, Debug, PartialEq)]
struct Variant {
    bound_key: bool,     // stmt_cache keyed by the bound text (bind first)
    literal_aware: bool, // only '?' outside literals / identifiers / comments are placeholders; literals between spaces
    reject: bool,        // py_to_sqlvalue refuses ints outside i64 and non-finite floats
}

// ------------------------------------------------------------------------------------------------
// values
// ------------------------------------------------------------------------------------------------
#[derive(Clone, Debug, PartialEq)]
enum Param {
    None,
    Int(i128),
    Huge(String), // decimal digits of an int too large for i128 (beyond or near the end of the binary64 range)
    Bool(bool),
    Float(f64),
    Str(Vec<u32>), // code points; lone surrogates possible
    Other(&'static str),
}

impl Param {
    fn to_json(&self) -> Value {
        match self {
            Param::None => json!(["n"]),
            Param::Int(z) => json!(["i", z.to_string()]),
            Param::Huge(s) => json!(["i", s]),
            Param::Bool(b) => json!(["b", b]),
            Param::Float(f) => json!(["f", f.to_bits().to_string()]),
            Param::Str(s) => json!(["s", s]),
            Param::Other(k) => json!(["o", k]),
        }
    }
    fn coq(&self) -> String {
        match self {
            Param::None => "PNone".into(),
            Param::Int(z) => format!("PInt {}", coq_z(&z.to_string())),
            Param::Huge(s) => format!("PInt {}", coq_z(s)),
            Param::Bool(b) => format!("PBool {}", b),
            Param::Float(f) => format!("PFloat {}", f.to_bits()),
            Param::Str(s) => format!("PStr {}", coq_cps(s)),
            Param::Other(_) => "POther".into(),
        }
    }
    fn is_nonfinite(&self) -> bool {
        matches!(self, Param::Float(f) if !f.is_finite())
    }
    fn show(&self) -> String {
        match self {
            Param::Str(s) => format!("Str({:?})", s.iter().map(|c| char::from_u32(*c).unwrap_or('\u{fffd}')).collect::<String>()),
            Param::Float(f) => format!("Float({:?} bits {:#x})", f, f.to_bits()),
            other => format!("{:?}", other),
        }
    }
}

fn coq_z(s: &str) -> String {
    if s.starts_with('-') {
        format!("({})", s)
    } else {
        s.to_string()
    }
}
fn coq_cps(s: &[u32]) -> String {
    // printable ASCII: a string literal (Coq's list notation is slow on long lists)
    if s.len() > 8 && s.iter().all(|c| (32..127).contains(c)) {
        let mut o = String::from("(T \"");
        for c in s {
            if *c == 34 {
                o.push_str("\"\"");
            } else {
                o.push(char::from_u32(*c).unwrap());
            }
        }
        o.push_str("\")");
        return o;
    }
    let mut o = String::from("[");
    for (i, c) in s.iter().enumerate() {
        if i > 0 {
            o.push(';');
        }
        let _ = write!(o, "{}", c);
    }
    o.push(']');
    o
}
fn coq_text(s: &str) -> String {
    coq_cps(&s.chars().map(|c| c as u32).collect::<Vec<_>>())
}

const I64_MIN: i128 = i64::MIN as i128;
const I64_MAX: i128 = i64::MAX as i128;

fn has_surrogate(s: &[u32]) -> bool {
    s.iter().any(|c| (0xD800..=0xDFFF).contains(c))
}
fn cps_string(s: &[u32]) -> String {
    s.iter().map(|c| char::from_u32(*c).expect("no surrogate")).collect()
}
fn quote(s: &str) -> String {
    format!("'{}'", s.replace('\'', "''"))
}

/// harness replica of py_to_sqlvalue + the value_str match of substitute_placeholders: the text the
/// code is expected to print for a parameter (None = ProgrammingError).  Only used to drive the shadow
/// connection; the model computes its own text and must agree.
fn impl_print(v: Variant, p: &Param) -> Option<String> {
    match p {
        Param::None => Some("NULL".into()),
        Param::Int(z) => {
            if (I64_MIN..=I64_MAX).contains(z) {
                Some(z.to_string())
            } else if v.reject {
                None
            } else {
                Some((*z as f64).to_string())
            }
        }
        Param::Huge(_) if v.reject => None,
        Param::Float(f) if v.reject && !f.is_finite() => None,
        Param::Huge(d) => {
            // PyLong_AsDouble: nearest binary64, OverflowError when that is not finite
            let f: f64 = d.parse().ok()?;
            if f.is_finite() {
                Some(f.to_string())
            } else {
                None
            }
        }
        Param::Bool(b) => Some(if *b { "1".into() } else { "0".into() }),
        Param::Float(f) => Some(f.to_string()),
        Param::Str(s) => {
            if has_surrogate(s) {
                None
            } else {
                Some(quote(&cps_string(s)))
            }
        }
        Param::Other(_) => None,
    }
}

fn impl_bind(v: Variant, sql: &str, params: &[Param]) -> Option<String> {
    let count = if v.literal_aware { sql.matches('?').count() - count_protected_qm(sql) } else { sql.matches('?').count() };
    if count != params.len() {
        return None;
    }
    let mut lits = Vec::new();
    for p in params {
        lits.push(impl_print(v, p)?);
    }
    let mut out = String::new();
    let mut i = 0;
    let mut st = St::Code;
    for ch in sql.chars() {
        if ch == '?' && !(v.literal_aware && protected(st)) {
            if i < lits.len() {
                if v.literal_aware {
                    out.push(' ');
                }
                out.push_str(&lits[i]);
                if v.literal_aware {
                    out.push(' ');
                }
                i += 1;
            }
        } else {
            out.push(ch);
        }
        st = step(st, ch);
    }
    Some(out)
}

// ---- the reference binder: literal-aware (the nine-state scanner of Lex/Placeholder.v) ----
#[derive(Clone, Copy, PartialEq, Debug)]
enum St {
    Code,
    Dash,
    Str,
    StrQ,
    Dq,
    DqQ,
    Bt,
    BtQ,
    Com,
}
fn code_step(c: char) -> St {
    match c {
        '\'' => St::Str,
        '"' => St::Dq,
        '`' => St::Bt,
        '-' => St::Dash,
        _ => St::Code,
    }
}
fn step(st: St, c: char) -> St {
    match st {
        St::Code => code_step(c),
        St::Dash => {
            if c == '-' {
                St::Com
            } else {
                code_step(c)
            }
        }
        St::Str => {
            if c == '\'' {
                St::StrQ
            } else {
                St::Str
            }
        }
        St::StrQ => {
            if c == '\'' {
                St::Str
            } else {
                code_step(c)
            }
        }
        St::Dq => {
            if c == '"' {
                St::DqQ
            } else {
                St::Dq
            }
        }
        St::DqQ => {
            if c == '"' {
                St::Dq
            } else {
                code_step(c)
            }
        }
        St::Bt => {
            if c == '`' {
                St::BtQ
            } else {
                St::Bt
            }
        }
        St::BtQ => {
            if c == '`' {
                St::Bt
            } else {
                code_step(c)
            }
        }
        St::Com => {
            if c == '\n' {
                St::Code
            } else {
                St::Com
            }
        }
    }
}
fn protected(st: St) -> bool {
    matches!(st, St::Str | St::Dq | St::Bt | St::Com)
}
fn count_protected_qm(sql: &str) -> usize {
    let mut st = St::Code;
    let mut n = 0;
    for c in sql.chars() {
        if c == '?' && protected(st) {
            n += 1;
        }
        st = step(st, c);
    }
    n
}

/// the literal a correct binder writes (None = the value has no SQL literal)
fn spec_literal(p: &Param) -> Option<String> {
    match p {
        Param::None => Some("NULL".into()),
        Param::Int(z) => {
            if (I64_MIN..=I64_MAX).contains(z) {
                Some(z.to_string())
            } else {
                None // not a value of the engine's 64-bit integers
            }
        }
        Param::Huge(_) => None,
        Param::Bool(b) => Some(if *b { "1".into() } else { "0".into() }),
        Param::Float(f) => {
            if f.is_finite() {
                Some(f.to_string())
            } else {
                None
            }
        }
        Param::Str(s) => {
            if has_surrogate(s) {
                None
            } else {
                Some(quote(&cps_string(s)))
            }
        }
        Param::Other(_) => None,
    }
}

fn spec_bind(sql: &str, params: &[Param], pad: bool) -> Option<String> {
    let mut st = St::Code;
    let mut out = String::new();
    let mut i = 0;
    for c in sql.chars() {
        if c == '?' && !protected(st) {
            let p = params.get(i)?;
            let l = spec_literal(p)?;
            if pad {
                out.push(' ');
            }
            out.push_str(&l);
            if pad {
                out.push(' ');
            }
            i += 1;
        } else {
            out.push(c);
        }
        st = step(st, c);
    }
    if i == params.len() {
        Some(out)
    } else {
        None
    }
}

/// replica of Placeholder.v [safe] on the TEXTUAL splice of the reference literals: does no literal merge
/// with a neighbouring '-' or quote?
fn merge_free(sql: &str, params: &[Param]) -> bool {
    let mut st = St::Code;
    let mut stb = St::Code;
    let mut i = 0;
    for c in sql.chars() {
        if c == '?' && !protected(st) {
            if let Some(p) = params.get(i) {
                let lit = match spec_literal(p) {
                    Some(l) => l,
                    None => return true,
                };
                let is_str = matches!(p, Param::Str(_));
                if is_str && stb == St::StrQ {
                    return false;
                }
                if !is_str && stb == St::Dash && lit.starts_with('-') {
                    return false;
                }
                for lc in lit.chars() {
                    stb = step(stb, lc);
                }
                i += 1;
            } else {
                stb = step(stb, c);
            }
        } else {
            if st == St::Code && stb == St::StrQ && c == '\'' {
                return false;
            }
            stb = step(stb, c);
        }
        st = step(st, c);
    }
    true
}

/// Is every placeholder separated from word / number characters?  `1?` with 2 is `12` as text but two tokens
/// for a binder that writes its literals between spaces: number / identifier merging is outside the
/// scanner's notion of structure, such calls are not judged by O1.  Two adjacent placeholders are fine when
/// both values are strings (that is the quote merge the scanner does know about).
fn token_isolated(sql: &str, params: &[Param]) -> bool {
    let chars: Vec<char> = sql.chars().collect();
    let wordy = |c: char| c.is_alphanumeric() || c == '_' || c == '.' || c == '@';
    let mut st = St::Code;
    let mut idx = 0usize;
    let mut ph: Vec<(usize, usize)> = Vec::new(); // (position, parameter index)
    for (i, c) in chars.iter().enumerate() {
        if *c == '?' && !protected(st) {
            ph.push((i, idx));
            idx += 1;
        }
        st = step(st, *c);
    }
    let is_str = |k: usize| matches!(params.get(k), Some(Param::Str(_)));
    for (n, (i, k)) in ph.iter().enumerate() {
        if *i > 0 {
            let l = chars[*i - 1];
            if wordy(l) {
                return false;
            }
            if l == '?' && n > 0 && ph[n - 1].0 == *i - 1 && !(is_str(*k) && is_str(ph[n - 1].1)) {
                return false;
            }
        }
        if *i + 1 < chars.len() && wordy(chars[*i + 1]) {
            return false;
        }
    }
    true
}

/// kind code of a statement text under the real parser: 0 parse error, 1 select, 2 dml, 3 ddl, 4 unsupported
fn stmt_kind(text: &str) -> Option<i64> {
    use vibesql_ast::Statement as S;
    let r = std::panic::catch_unwind(|| vibesql_parser::Parser::parse_sql(text));
    match r {
        Err(_) => None, // parser panic: the sequence is dropped
        Ok(Err(_)) => Some(0),
        Ok(Ok(s)) => Some(match s {
            S::Select(_) => 1,
            S::Insert(_) | S::Update(_) | S::Delete(_) => 2,
            S::CreateTable(_) | S::DropTable(_) | S::CreateView(_) | S::DropView(_) => 3,
            _ => 4,
        }),
    }
}

// ------------------------------------------------------------------------------------------------
// sequences
// ------------------------------------------------------------------------------------------------
#[derive(Clone, Debug)]
struct Call {
    sql: String,
    params: Option<Vec<Param>>,
}
#[derive(Clone, Debug)]
struct Seq {
    id: u64,
    family: &'static str,
    calls: Vec<Call>,
    o1: bool,       // compare with the reference connection
    o2: bool,       // structure case: compare with the padded reference
    readback: bool, // single `SELECT ?`: value read back must equal the value bound
}

fn call(sql: &str, params: Option<Vec<Param>>) -> Call {
    Call { sql: sql.to_string(), params }
}

fn s(x: &str) -> Param {
    Param::Str(x.chars().map(|c| c as u32).collect())
}

fn boundary_ints() -> Vec<i128> {
    let mut v: Vec<i128> = vec![0, 1, -1, 7, -3, 42, 32767, 32768, -32768, -32769, 2147483647, 2147483648, -2147483648, -2147483649,
        I64_MAX, I64_MAX - 1, I64_MIN, I64_MIN + 1, I64_MAX + 1, I64_MAX + 2, I64_MIN - 1, I64_MIN - 2,
        1i128 << 64, (1i128 << 64) + 1, -(1i128 << 64), (1i128 << 70) + 12345, 9007199254740993, -9007199254740993,
        999999999999999999, 1000000000000000000, 10, 100, -10];
    v.dedup();
    v
}

fn boundary_floats() -> Vec<f64> {
    let mut v = vec![0.0, -0.0, 1.0, -1.0, 1.5, -1.5, 0.1, 0.2, 0.30000000000000004, 1e21, 1e22, 1e23, 1e-7, 1e-5, 5e-324, -5e-324,
        f64::MAX, f64::MIN, f64::MIN_POSITIVE, 2.2250738585072009e-308, f64::EPSILON, 9007199254740992.0, 9007199254740994.0,
        123456789012345680.0, 9.223372036854775808e18, 1.7976931348623157e308, 4.9406564584124654e-324, 0.5, 0.25, 1e15, 1e16, 1e17,
        123.456, 2.5e-10, 3.0e10, 1e300, 1e-300, 8.41e21, 2.0f64.powi(-1022), 2.0f64.powi(-1074), 2.0f64.powi(1023), 9.5, 99.99, 0.999,
        f64::INFINITY, f64::NEG_INFINITY, f64::NAN];
    for k in -30..30 {
        v.push(10f64.powi(k));
        v.push(f64::from_bits(10f64.powi(k).to_bits() + 1));
        v.push(f64::from_bits(10f64.powi(k).to_bits() - 1));
    }
    for k in [1u64, 2, 3, 52, 53, 63, 64, 100, 1000] {
        v.push(f64::from_bits(0x3FF0000000000000 + k));
        v.push(f64::from_bits(k)); // subnormals
        v.push(f64::from_bits(0x0010000000000000 + k)); // just above the smallest normal
        v.push(f64::from_bits(0x7FEFFFFFFFFFFFFF - k));
    }
    // mantissa 2^52 exactly (asymmetric rounding interval) at several exponents
    for e in [1u64, 2, 500, 1022, 1023, 1024, 1500, 2046] {
        v.push(f64::from_bits(e << 52));
    }
    v
}

fn boundary_strings() -> Vec<Param> {
    vec![s(""), s("a"), s("it's"), s("''"), s("'"), s("a'b''c"), s("?"), s("a?b"), s("--"), s("x -- y"), s("é"), s("☃ snow"), s("日本語"),
        s("😀"), s("a\nb"), s("back\\slash"), s("\"dq\""), s("`bt`"), s("NULL"), s("1"), s("-1"), s("tab\there"), s("a\u{0}b"), s("  pad  "),
        s("'; DROP TABLE t; --"), s("' OR '1'='1"), s("%_"), Param::Str(vec![0x61, 0xD800]), Param::Str(vec![0xDFFF])]
}

fn random_string(r: &mut Rng) -> Param {
    let alphabet: Vec<char> = "abcXYZ 019'?-\"`\\,;()=é☃日😀\n".chars().collect();
    let n = r.below(9) as usize;
    Param::Str((0..n).map(|_| *r.pick(&alphabet) as u32).collect())
}

fn random_float(r: &mut Rng) -> f64 {
    match r.below(6) {
        0 => f64::from_bits(r.next()),
        1 => (r.range(-100000, 100000) as f64) / 100.0,
        2 => (r.range(-1000, 1000) as f64) * 10f64.powi(r.range(-20, 20) as i32),
        3 => r.range(-1000000, 1000000) as f64,
        4 => f64::from_bits(r.next() & 0x800FFFFFFFFFFFFF | ((r.below(2047)) << 52)),
        _ => *r.pick(&boundary_floats()),
    }
}

fn random_int(r: &mut Rng) -> i128 {
    match r.below(5) {
        0 => r.range(-50, 50) as i128,
        1 => r.next() as i64 as i128,
        2 => *r.pick(&boundary_ints()),
        3 => (r.next() as i64 as i128) >> r.below(60),
        _ => r.range(-100000, 100000) as i128,
    }
}

/// any parameter kind
fn random_param(r: &mut Rng) -> Param {
    match r.below(20) {
        0..=5 => Param::Int(random_int(r)),
        6..=9 => Param::Float(random_float(r)),
        10..=13 => random_string(r),
        14 => r.pick(&boundary_strings()).clone(),
        15 => Param::Bool(r.chance(1, 2)),
        16 | 17 => Param::None,
        18 => Param::Other(if r.chance(1, 2) { "bytes" } else { "list" }),
        _ => {
            if r.chance(1, 4) {
                Param::Huge(format!("{}1{}", if r.chance(1, 2) { "-" } else { "" }, "0".repeat(309 + r.below(100) as usize)))
            } else {
                Param::Int(random_int(r))
            }
        }
    }
}

/// a parameter of the common domain (the code's literal = the specification's literal)
fn domain_param(r: &mut Rng) -> Param {
    loop {
        let p = random_param(r);
        let ok = match &p {
            Param::Int(z) => (I64_MIN..=I64_MAX).contains(z),
            Param::Huge(_) => false,
            Param::Float(f) => f.is_finite(),
            Param::Str(s) => !has_surrogate(s),
            Param::Other(_) => false,
            _ => true,
        };
        if ok {
            return p;
        }
    }
}

fn small_int(r: &mut Rng) -> Param {
    Param::Int(r.range(0, 9) as i128)
}

struct Gen {
    seqs: Vec<Seq>,
    next_id: u64,
}
impl Gen {
    fn push(&mut self, family: &'static str, calls: Vec<Call>, o1: bool, o2: bool, readback: bool) {
        let id = self.next_id;
        self.next_id += 1;
        self.seqs.push(Seq { id, family, calls, o1, o2, readback });
    }
}

const PURE_TEMPLATES: &[&str] = &[
    "SELECT ?", "SELECT ?, ?", "SELECT ?, 'k', ?", "SELECT 1 + ?", "SELECT ? || 'z'", "SELECT ? , ? , ?", "select ?",
    "SELECT ? AS v", "SELECT (?)", "SELECT 1 WHERE 1 = ?", "SELECT 1 WHERE ? IS NULL", "SELECT ?\n", "  SELECT ? ",
    "SELECT CASE WHEN ? = 1 THEN 'one' ELSE 'other' END", "SELECT ? -- trailing", "SELECT 'lit', ?",
];

const PROTECTED_TEMPLATES: &[&str] = &[
    "SELECT '?'", "SELECT 'a?b', ?", "SELECT ? AS \"q?\"", "SELECT ? AS `q?`", "SELECT ? -- why?", "SELECT ? -- c?\n, ?",
    "SELECT 'it''s ?', ?", "SELECT '?' || ?", "SELECT '??', '?'", "SELECT \"a?\" FROM (SELECT 1 AS \"a?\") AS q", "SELECT 1 --?",
    "SELECT '-- ?', ? -- '?'\n, ?", "SELECT 'x' -- it's ?\n, ?", "SELECT ?, '''?'''", "SELECT `?`", "SELECT '?", "-- ?\nSELECT ?",
];

fn nqm(t: &str) -> usize {
    t.matches('?').count()
}

fn generate(seed: u64, thorough: bool) -> Vec<Seq> {
    let mut g = Gen { seqs: Vec::new(), next_id: 1 };
    let scale = if thorough { 4 } else { 1 };

    // ---- F6 window: every value kind printed inside SELECT '?' (shows substitute_placeholders' text) ----
    {
        let mut vals: Vec<Param> = Vec::new();
        vals.extend(boundary_ints().into_iter().map(Param::Int));
        vals.extend(boundary_floats().into_iter().map(Param::Float));
        vals.extend(boundary_strings());
        vals.extend([Param::None, Param::Bool(true), Param::Bool(false), Param::Other("bytes"), Param::Other("list"),
            Param::Huge(format!("1{}", "0".repeat(400))), Param::Huge(format!("-1{}", "0".repeat(309))), Param::Huge("179769313486231580793728971405303415079934132710037826936173778980444968292764750946649017977587207096330286416692887910946555547851940402630657488671505820681908902000708383676273854845817711531764475730270069855571366959622842914819860834936475292719074168444365510704342711559699508093042880177904174497791".into())]);
        // 2^1024 - 2^970 (rounds to infinity: OverflowError) and the int just below (rounds to f64::MAX)
        vals.push(Param::Huge("179769313486231580793728971405303415079934132710037826936173778980444968292764750946649017977587207096330286416692887910946555547851940402630657488671505820681908902000708383676273854845817711531764475730270069855571366959622842914819860834936475292719074168444365510704342711559699508093042880177904174497792".into()));
        let mut r = Rng::new(seed, "c30/window");
        for _ in 0..(260 * scale) {
            vals.push(match r.below(4) {
                0 => Param::Int(random_int(&mut r)),
                1 | 2 => Param::Float(random_float(&mut r)),
                _ => random_param(&mut r),
            });
        }
        for v in vals {
            g.push("window", vec![call("SELECT '?'", Some(vec![v]))], true, false, false);
        }
    }
    // ---- F7 read-back: SELECT ? ----
    {
        let mut vals: Vec<Param> = Vec::new();
        vals.extend(boundary_ints().into_iter().map(Param::Int));
        vals.extend(boundary_floats().into_iter().map(Param::Float));
        vals.extend(boundary_strings());
        vals.extend([Param::None, Param::Bool(true), Param::Bool(false), Param::Other("bytes"), Param::Huge(format!("1{}", "0".repeat(320)))]);
        let mut r = Rng::new(seed, "c30/readback");
        for _ in 0..(260 * scale) {
            vals.push(random_param(&mut r));
        }
        for v in vals {
            g.push("readback", vec![call("SELECT ?", Some(vec![v]))], true, false, true);
        }
    }
    // ---- F1 same text x varying tuples ----
    {
        let mut r = Rng::new(seed, "c30/same-text");
        for _ in 0..(160 * scale) {
            let t = *r.pick(PURE_TEMPLATES);
            let n = nqm(t);
            let k = 2 + r.below(4) as usize;
            let mut calls = Vec::new();
            for j in 0..k {
                let arity = if r.chance(1, 8) { (n + 1 + r.below(2) as usize).saturating_sub(r.below(3) as usize) } else { n };
                let params: Vec<Param> = (0..arity).map(|_| if r.chance(1, 2) { small_int(&mut r) } else { random_param(&mut r) }).collect();
                let ps = if j > 0 && r.chance(1, 10) { None } else { Some(params) };
                calls.push(call(t, ps));
                if r.chance(1, 6) {
                    let t2 = *r.pick(PURE_TEMPLATES);
                    let n2 = nqm(t2);
                    calls.push(call(t2, Some((0..n2).map(|_| random_param(&mut r)).collect())));
                }
            }
            g.push("same-text", calls, true, false, false);
        }
    }
    // ---- F2 DML on a table, texts re-used ----
    {
        let mut r = Rng::new(seed, "c30/dml");
        for _ in 0..(90 * scale) {
            let mut calls = vec![call("CREATE TABLE t (a INTEGER, f DOUBLE PRECISION, s VARCHAR(200))", None)];
            let nins = 2 + r.below(3);
            for i in 0..nins {
                let a = if r.chance(1, 5) { Param::Int(random_int(&mut r)) } else { Param::Int(i as i128 + 1) };
                let f = match r.below(4) {
                    0 => Param::None,
                    1 => Param::Int(r.range(0, 1000) as i128),
                    _ => Param::Float(random_float(&mut r).abs()),
                };
                let sv = match r.below(4) {
                    0 => r.pick(&boundary_strings()).clone(),
                    1 => Param::None,
                    _ => random_string(&mut r),
                };
                calls.push(call("INSERT INTO t VALUES (?, ?, ?)", Some(vec![a, f, sv])));
            }
            calls.push(call("SELECT a, f, s FROM t", None));
            for _ in 0..(1 + r.below(3)) {
                match r.below(5) {
                    0 => calls.push(call("SELECT s FROM t WHERE a = ?", Some(vec![Param::Int(r.range(1, 4) as i128)]))),
                    1 => calls.push(call("UPDATE t SET s = ? WHERE a = ?", Some(vec![random_string(&mut r), Param::Int(r.range(1, 4) as i128)]))),
                    2 => calls.push(call("DELETE FROM t WHERE a = ?", Some(vec![Param::Int(r.range(1, 4) as i128)]))),
                    3 => calls.push(call("SELECT a FROM t WHERE s = ?", Some(vec![random_string(&mut r)]))),
                    _ => calls.push(call("SELECT a FROM t WHERE f < ?", Some(vec![Param::Float(random_float(&mut r))]))),
                }
                if r.chance(1, 2) {
                    let last = calls.last().unwrap().clone();
                    let n = nqm(&last.sql);
                    calls.push(call(&last.sql, Some((0..n).map(|i| if last.sql.starts_with("UPDATE") && i == 0 { random_string(&mut r) } else { Param::Int(r.range(1, 4) as i128) }).collect())));
                }
            }
            calls.push(call("SELECT a, f, s FROM t", None));
            calls.push(call("SELECT COUNT(*) FROM t", None));
            g.push("dml", calls, true, false, false);
        }
        // a table whose column names are the words infinities and NaN are printed as
        for _ in 0..(12 * scale) {
            let nf = *r.pick(&[f64::INFINITY, f64::NEG_INFINITY, f64::NAN]);
            let t = *r.pick(&["SELECT x FROM tinf WHERE inf < ?", "SELECT x, ? FROM tinf", "SELECT x FROM tinf WHERE x > ?", "SELECT ? FROM tinf"]);
            let calls = vec![
                call("CREATE TABLE tinf (inf INTEGER, nan INTEGER, x INTEGER)", None),
                call("INSERT INTO tinf VALUES (1, 2, 3)", None),
                call(t, Some(vec![Param::Float(nf)])),
                call("SELECT x FROM tinf", None),
            ];
            g.push("nonfinite-column", calls, true, false, false);
        }
    }
    // ---- F3 control: unique texts (or same text with the same tuple), common-domain values ----
    {
        let mut r = Rng::new(seed, "c30/control");
        for _ in 0..(170 * scale) {
            let mut calls = Vec::new();
            let with_table = r.chance(1, 2);
            if with_table {
                calls.push(call("CREATE TABLE t (a INTEGER, f DOUBLE PRECISION, s VARCHAR(200))", None));
            }
            let k = 3 + r.below(5) as usize;
            for j in 0..k {
                let suffix = if r.chance(1, 2) { " ".repeat(j + 1) } else { format!(" -- call {}", j) };
                if with_table && r.chance(2, 3) {
                    match r.below(4) {
                        0 => calls.push(call(&format!("INSERT INTO t VALUES (?, ?, ?){}", suffix), Some(vec![Param::Int(r.range(0, 50) as i128),
                                if r.chance(1, 3) { Param::None } else { Param::Float(random_float(&mut r).abs()) }.clone(),
                                { let p = domain_param(&mut r); if matches!(p, Param::Str(_) | Param::None) { p } else { random_string(&mut r) } }]))),
                        1 => calls.push(call(&format!("SELECT a, f, s FROM t WHERE a >= ?{}", suffix), Some(vec![Param::Int(r.range(0, 50) as i128)]))),
                        2 => calls.push(call(&format!("UPDATE t SET s = ? WHERE a = ?{}", suffix), Some(vec![random_string(&mut r), Param::Int(r.range(0, 50) as i128)]))),
                        _ => calls.push(call(&format!("DELETE FROM t WHERE a = ?{}", suffix), Some(vec![Param::Int(r.range(0, 50) as i128)]))),
                    }
                    // strings of random_string never carry surrogates
                } else {
                    let t = *r.pick(PURE_TEMPLATES);
                    let n = nqm(t);
                    let params: Vec<Param> = (0..n).map(|_| domain_param(&mut r)).collect();
                    let text = format!("{}{}", t, suffix);
                    calls.push(call(&text, Some(params.clone())));
                    if r.chance(1, 4) {
                        calls.push(call(&text, Some(params))); // same text, same tuple: functional history
                    }
                }
            }
            if with_table {
                calls.push(call("SELECT a, f, s FROM t", None));
            }
            g.push("control", calls, true, false, false);
        }
    }
    // ---- F4 '?' inside protected regions ----
    {
        let mut r = Rng::new(seed, "c30/protected");
        for _ in 0..(130 * scale) {
            let t = *r.pick(PROTECTED_TEMPLATES);
            let total = nqm(t);
            let unprot = total - count_protected_qm(t);
            let mut calls = Vec::new();
            for _ in 0..(1 + r.below(3)) {
                let ps = match r.below(5) {
                    0 | 1 => Some((0..total).map(|_| if r.chance(1, 2) { small_int(&mut r) } else { domain_param(&mut r) }).collect()),
                    2 | 3 => Some((0..unprot).map(|_| domain_param(&mut r)).collect()),
                    _ => None,
                };
                // make each text unique so that only the literal defect is at work in half of the cases
                let text = if r.chance(1, 2) { format!("{}{}", t, " ".repeat(calls.len() + 1)) } else { t.to_string() };
                calls.push(call(&text, ps));
            }
            g.push("protected", calls, true, false, false);
        }
    }
    // ---- F5 structure: literals next to '-' and quotes (single call, fresh cursor) ----
    {
        let mut r = Rng::new(seed, "c30/structure");
        // (template, kinds allowed: 'n' negative/any number, 's' string)
        let templates: &[(&str, &str)] = &[
            ("SELECT 5 -?", "n"), ("SELECT 5 - ?", "n"), ("SELECT 5-?+1", "n"), ("SELECT -?", "n"), ("SELECT - ?", "n"),
            ("SELECT 1 WHERE 2 >-?", "n"), ("SELECT (-?)", "n"), ("SELECT 7 -?, 2", "n"), ("SELECT 7 - ?, 2", "n"),
            ("SELECT 'a'?", "s"), ("SELECT 'a' ?", "s"), ("SELECT ?'a'", "s"), ("SELECT ? 'a'", "s"), ("SELECT ??", "s"), ("SELECT ? ?", "s"),
            ("SELECT ?,?", "s"), ("SELECT 'a'||?", "s"), ("SELECT ?||'b'", "s"), ("SELECT (?)", "s"), ("SELECT \"x\"?", "s"),
            ("SELECT ?, ?", "n"), ("SELECT (?), (?)", "n"), ("SELECT 1 -? -?", "n"),
        ];
        for _ in 0..(150 * scale) {
            let (t, kind) = *r.pick(templates);
            let n = nqm(t);
            let params: Vec<Param> = (0..n)
                .map(|_| {
                    if kind == "s" {
                        if r.chance(1, 2) { random_string(&mut r) } else { s("b") }
                    } else {
                        match r.below(4) {
                            0 => Param::Int(-(r.range(1, 1000) as i128)),
                            1 => Param::Int(r.range(0, 1000) as i128),
                            2 => Param::Float(-(r.range(1, 1000) as f64) / 8.0),
                            _ => Param::Int(random_int(&mut r).clamp(I64_MIN, I64_MAX)),
                        }
                    }
                })
                .collect();
            let params: Vec<Param> = params.into_iter().map(|p| match p { Param::Str(sv) if has_surrogate(&sv) => s("b"), o => o }).collect();
            g.push("structure", vec![call(t, Some(params))], true, true, false);
        }
    }
    // ---- F9 DDL clears the cache (only when it succeeds) ----
    {
        let mut r = Rng::new(seed, "c30/ddl");
        for _ in 0..(30 * scale) {
            let a = small_int(&mut r);
            let b = Param::Int(r.range(10, 19) as i128);
            let c = Param::Int(r.range(20, 29) as i128);
            let ddl_ok = *r.pick(&["CREATE TABLE x (a INTEGER)", "CREATE VIEW w AS SELECT 1 AS one", "CREATE TABLE y (s VARCHAR(5))"]);
            let mut calls = vec![call("SELECT ?", Some(vec![a.clone()])), call("SELECT ?", Some(vec![b.clone()]))];
            match r.below(4) {
                0 => {
                    calls.push(call(ddl_ok, None));
                    calls.push(call("SELECT ?", Some(vec![b.clone()])));
                    calls.push(call("SELECT ?", Some(vec![c.clone()])));
                }
                1 => {
                    // failing DDL does not clear
                    calls.push(call("DROP TABLE nosuch", None));
                    calls.push(call("SELECT ?", Some(vec![b.clone()])));
                    calls.push(call(ddl_ok, None));
                    calls.push(call(ddl_ok, None)); // same text again: the cache was cleared, it is parsed again and fails
                    calls.push(call("SELECT ?", Some(vec![c.clone()])));
                    calls.push(call("SELECT ?", Some(vec![a.clone()])));
                }
                2 => {
                    calls.push(call("CREATE TABLE d (k INTEGER)", None));
                    calls.push(call("INSERT INTO d VALUES (?)", Some(vec![a.clone()])));
                    calls.push(call("INSERT INTO d VALUES (?)", Some(vec![b.clone()])));
                    calls.push(call("DROP TABLE d", None));
                    calls.push(call("CREATE TABLE d (k INTEGER)", None));
                    calls.push(call("INSERT INTO d VALUES (?)", Some(vec![c.clone()])));
                    calls.push(call("SELECT k FROM d", None));
                }
                _ => {
                    calls.push(call("CREATE VIEW w AS SELECT 1 AS one", None));
                    calls.push(call("SELECT ?", Some(vec![c.clone()])));
                    calls.push(call("DROP VIEW w", None));
                    calls.push(call("SELECT ?", Some(vec![a.clone()])));
                    calls.push(call("DROP VIEW w", None));
                    calls.push(call("SELECT ?", Some(vec![b.clone()])));
                }
            }
            g.push("ddl-clear", calls, true, false, false);
        }
    }
    // ---- F10 error paths and last_result ----
    {
        let mut r = Rng::new(seed, "c30/errors");
        let bad: &[&str] = &["SELEC ?", "SELECT FROM", "BEGIN", "COMMIT", "CREATE INDEX i ON t (a)", "SELECT zz", "SELECT ? FROM nosuch", "SELECT ?,",
            "SELECT (?", "SELECT 1 2 ?", "", "?", "??", "SELECT 'open ?", "INSERT INTO nosuch VALUES (?)", "SELECT 1/?", "SELECT 1; SELECT ?", "SELECT ?; DROP TABLE t"];
        for _ in 0..(60 * scale) {
            let mut calls = Vec::new();
            if r.chance(1, 2) {
                calls.push(call("SELECT ?, 'first'", Some(vec![small_int(&mut r)])));
            }
            for _ in 0..(2 + r.below(4)) {
                let t = *r.pick(bad);
                let n = nqm(t);
                let arity = if r.chance(1, 5) { n + 1 } else { n };
                let ps = if r.chance(1, 6) { None } else { Some((0..arity).map(|_| if r.chance(1, 2) { Param::Int(r.range(0, 3) as i128) } else { random_param(&mut r) }).collect()) };
                calls.push(call(t, ps));
                if r.chance(1, 3) {
                    calls.push(call("SELECT ?, 'ok'", Some(vec![small_int(&mut r)])));
                }
            }
            g.push("errors", calls, true, false, false);
        }
    }
    // ---- F11 malformed stream: random characters with many '?', quotes and dashes ----
    {
        let mut r = Rng::new(seed, "c30/garbage");
        let alphabet: Vec<char> = "??''\"`--\n ,()SELECT1aé".chars().collect();
        for _ in 0..(110 * scale) {
            let mut calls = Vec::new();
            for _ in 0..(1 + r.below(3)) {
                let n = 1 + r.below(14) as usize;
                let mut t: String = if r.chance(2, 3) { "SELECT ".into() } else { String::new() };
                for _ in 0..n {
                    t.push(*r.pick(&alphabet));
                }
                let total = nqm(&t);
                let unprot = total - count_protected_qm(&t);
                let arity = match r.below(4) { 0 => unprot, 1 => total + 1, _ => total };
                let ps = if r.chance(1, 8) { None } else { Some((0..arity).map(|_| if r.chance(2, 3) { small_int(&mut r) } else { domain_param(&mut r) }).collect()) };
                calls.push(call(&t, ps.clone()));
                if r.chance(1, 3) {
                    calls.push(call(&t, Some((0..total).map(|_| small_int(&mut r)).collect())));
                }
            }
            g.push("garbage", calls, true, false, false);
        }
    }
    g.seqs
}

/// LRU sequences need the capacity read from the source
fn lru_sequences(g_next: &mut u64, cap: usize, seed: u64, thorough: bool) -> Vec<Seq> {
    let mut out = Vec::new();
    let mut r = Rng::new(seed, "c30/lru");
    let mut variants: Vec<(usize, bool)> = vec![(cap - 1, false), (cap, false), (cap / 2 + cap - 1, true), (cap / 2 + cap, true)];
    if thorough {
        variants.extend([(cap - 2, false), (cap + 1, false), (cap / 2 + cap + 1, true), (2 * cap + 3, false)]);
    }
    for (between, promote) in variants {
        let a = small_int(&mut r);
        let mut calls = vec![call("SELECT ?", Some(vec![a]))];
        for k in 0..between {
            calls.push(call(&format!("SELECT {} + ?", k), Some(vec![Param::Int(0)])));
            if promote && k == cap / 2 {
                calls.push(call("SELECT ?", Some(vec![Param::Int(77)])));
            }
        }
        calls.push(call("SELECT ?", Some(vec![Param::Int(88)])));
        calls.push(call("SELECT 0 + ?", Some(vec![Param::Int(100)])));
        calls.push(call("SELECT 1 + ?", Some(vec![Param::Int(200)])));
        let id = *g_next;
        *g_next += 1;
        out.push(Seq { id, family: "lru", calls, o1: true, o2: false, readback: false });
    }
    out
}

// ------------------------------------------------------------------------------------------------
// module build / driver
// ------------------------------------------------------------------------------------------------
fn fail(msg: &str) -> ! {
    eprintln!("c30: {}", msg);
    std::process::exit(3);
}

fn build_module() -> String {
    std::fs::create_dir_all(PYTARGET).ok();
    std::fs::create_dir_all(PYMOD).ok();
    let lock = format!("{}.lock", PYTARGET);
    let out = Command::new("flock")
        .arg(&lock)
        .args(["cargo", "build", "--offline", "-p", "vibesql-python-bindings"])
        .current_dir(REPO)
        .env("RUSTC_WRAPPER", "")
        .env("CARGO_NET_OFFLINE", "true")
        .env("CARGO_TARGET_DIR", PYTARGET)
        .env("RUST_BACKTRACE", "0")
        .env_remove("RUSTFLAGS")
        .output();
    let out = match out {
        Ok(o) => o,
        Err(e) => fail(&format!("cannot run cargo for the extension module: {}", e)),
    };
    if !out.status.success() {
        let err = String::from_utf8_lossy(&out.stderr);
        let tail: String = err.lines().filter(|l| l.starts_with("error") || l.contains("-->")).take(20).collect::<Vec<_>>().join("\n");
        fail(&format!("the extension module no longer builds from /repo (real module unavailable, no replica is substituted):\n{}\n{}", tail, &err[err.len().saturating_sub(600)..]));
    }
    let so = format!("{}/debug/libvibesql.so", PYTARGET);
    let dst = format!("{}/vibesql.so", PYMOD);
    let tmp = format!("{}/vibesql.so.tmp{}", PYMOD, std::process::id());
    if let Err(e) = std::fs::copy(&so, &tmp).and_then(|_| std::fs::rename(&tmp, &dst)) {
        fail(&format!("cannot install {} as {}: {}", so, dst, e));
    }
    dst
}

fn source_cap() -> usize {
    let p = format!("{}/crates/vibesql-python-bindings/src/cursor.rs", REPO);
    let src = std::fs::read_to_string(&p).unwrap_or_else(|e| fail(&format!("cannot read {}: {}", p, e)));
    let key = "stmt_cache: Arc::new(Mutex::new(LruCache::new(NonZeroUsize::new(";
    let i = src.find(key).unwrap_or_else(|| fail("cursor.rs: stmt_cache capacity expression not found (model tie broken)"));
    let rest = &src[i + key.len()..];
    let digits: String = rest.chars().take_while(|c| c.is_ascii_digit() || *c == '_').filter(|c| *c != '_').collect();
    digits.parse().unwrap_or_else(|_| fail("cursor.rs: stmt_cache capacity is not a literal"))
}

/// which repairs are present in the source; anything that is neither the original nor the patched shape
/// of a modelled line breaks the tie
fn source_variant() -> Variant {
    let cur = std::fs::read_to_string(format!("{}/crates/vibesql-python-bindings/src/cursor.rs", REPO)).unwrap_or_else(|e| fail(&format!("cannot read cursor.rs: {}", e)));
    let conv = std::fs::read_to_string(format!("{}/crates/vibesql-python-bindings/src/conversions.rs", REPO)).unwrap_or_else(|e| fail(&format!("cannot read conversions.rs: {}", e)));
    let bound_key = if cur.contains("let cache_key = sql.to_string();") {
        false
    } else if cur.contains("let cache_key = processed_sql.clone();") {
        true
    } else {
        fail("cursor.rs: the statement cache key expression is neither `sql.to_string()` nor `processed_sql.clone()` (model tie broken)")
    };
    let literal_aware = if cur.contains("sql.matches('?').count()") && !conv.contains("fn count_placeholders") {
        false
    } else if cur.contains("count_placeholders(sql)") && conv.contains("pub fn count_placeholders") && conv.contains("!scan_protected(state)") {
        true
    } else {
        fail("cursor.rs / conversions.rs: the placeholder count / substitution is neither the original nor the patched shape (model tie broken)")
    };
    let reject = conv.contains("is_instance_of::<pyo3::types::PyInt>()") && conv.contains("!val.is_finite()");
    if !reject && (conv.contains("is_finite") || conv.contains("PyInt")) {
        fail("conversions.rs: py_to_sqlvalue has an unrecognised range / finiteness check (model tie broken)");
    }
    if !conv.contains("if let Ok(val) = obj.extract::<i64>()") || !conv.contains("s.replace('\\'', \"''\")") {
        fail("conversions.rs: the i64 extraction or the quote doubling is no longer where the model expects it (model tie broken)");
    }
    Variant { bound_key, literal_aware, reject }
}

#[derive(Clone, Debug, PartialEq)]
struct Obs {
    code: i64,
    exc: String,
    fetch: Option<Value>,
}
fn obs_of(v: &Value) -> Obs {
    Obs {
        code: v["code"].as_i64().unwrap_or(9),
        exc: v["exc"].as_str().unwrap_or("").to_string(),
        fetch: if v["fetch"].is_null() { None } else { Some(v["fetch"].clone()) },
    }
}
/// result of a call for oracle purposes: error or the fetched state
fn outcome_eq(a: &Obs, b: &Obs) -> bool {
    (a.code == 0) == (b.code == 0) && (a.code != 0 || a.fetch == b.fetch)
}

fn coq_val(v: &Value) -> String {
    match v[0].as_str().unwrap_or("x") {
        "n" => "RNull".into(),
        "i" => format!("RInt {}", coq_z(v[1].as_str().unwrap())),
        "f" => format!("RFloat {}", v[1].as_str().unwrap()),
        "s" => format!("RStr {}", coq_cps(&v[1].as_array().unwrap().iter().map(|x| x.as_u64().unwrap() as u32).collect::<Vec<_>>())),
        "b" => format!("RBool {}", v[1].as_bool().unwrap()),
        _ => "RIdent []".into(),
    }
}
fn coq_res(v: &Value) -> String {
    match v[0].as_str().unwrap_or("") {
        "rows" => {
            let rows: Vec<String> = v[1].as_array().unwrap().iter().map(|r| format!("[{}]", r.as_array().unwrap().iter().map(coq_val).collect::<Vec<_>>().join("; "))).collect();
            format!("XRows [{}]", rows.join("; "))
        }
        "count" => format!("XCount {}", v[1].as_i64().unwrap_or(-1)),
        _ => "XBad".into(),
    }
}
fn coq_ores(v: &Option<Value>) -> String {
    match v {
        None => "None".into(),
        Some(x) => format!("Some ({})", coq_res(x)),
    }
}

fn main() {
    let args = parse_args();
    quiet_panics();
    let mut sum = Summary::default();
    sum.nontrivial_rule = "a case is one cursor.execute(sql, params) call on the real extension module inside its call sequence; distinct = distinct (sql, params, position-independent) text; non-trivial = a parameter tuple is passed and the text contains at least one '?' (calls without parameters only set up tables or read them back)".into();
    let mut log = CaseLog::new(&args);

    // ---- the real module ----
    // `--pymod DIR --variant klr` runs against an already built module (e.g. one built with the proposed
    // patches applied) instead of building /repo; never used by bin/check
    let (pymod, variant) = match args.extra.get("pymod") {
        Some(dir) => {
            let v = args.extra.get("variant").cloned().unwrap_or_default();
            sum.notes.push(format!("module taken from {} (not built from /repo), variant flags {:?}", dir, v));
            (dir.clone(), Variant { bound_key: v.contains('k'), literal_aware: v.contains('l'), reject: v.contains('r') })
        }
        None => {
            let so = build_module();
            sum.notes.push(format!("extension module built from {} and installed as {}", REPO, so));
            (PYMOD.to_string(), source_variant())
        }
    };
    let cap = source_cap();
    sum.notes.push(format!("stmt_cache capacity read from cursor.rs = {}; repairs present in the source: {:?}", cap, variant));

    // ---- cases ----
    let mut seqs = generate(args.seed, args.thorough);
    let mut next = seqs.len() as u64 + 1;
    seqs.extend(lru_sequences(&mut next, cap, args.seed, args.thorough));
    if let Some(only) = &args.only {
        seqs.retain(|q| only.contains(&q.id));
    }

    // ---- plan for the driver ----
    let mut plan = Vec::new();
    let mut dropped = 0u64;
    let mut kept: Vec<Seq> = Vec::new();
    let mut impls: BTreeMap<u64, Vec<(Option<String>, i64, Option<String>, Option<String>, Option<String>)>> = BTreeMap::new();
    'seq: for q in seqs {
        let mut calls = Vec::new();
        let mut per = Vec::new();
        for c in &q.calls {
            let impl_text = match &c.params {
                Some(ps) => impl_bind(variant, &c.sql, ps),
                None => Some(c.sql.clone()),
            };
            let kind = match &impl_text {
                Some(t) => match stmt_kind(t) {
                    Some(k) => k,
                    None => {
                        dropped += 1;
                        continue 'seq;
                    }
                },
                None => 0,
            };
            let spec = match &c.params {
                Some(ps) => spec_bind(&c.sql, ps, false),
                None => Some(c.sql.clone()),
            };
            let pad = if q.o2 { c.params.as_ref().and_then(|ps| spec_bind(&c.sql, ps, true)) } else { None };
            // what the reference connection executes: the textual splice, except where a literal would merge
            // with a neighbouring '-' or quote - there the literals are written between spaces
            let ref_text = match &c.params {
                Some(ps) if spec.is_some() && !merge_free(&c.sql, ps) => spec_bind(&c.sql, ps, true),
                _ => spec.clone(),
            };
            calls.push(json!({
                "sql": c.sql,
                "params": c.params.as_ref().map(|ps| ps.iter().map(|p| p.to_json()).collect::<Vec<_>>()),
                "impl": impl_text, "kind": kind, "spec": ref_text, "pad": pad,
            }));
            per.push((impl_text, kind, spec, pad, ref_text));
        }
        plan.push(json!({"id": q.id, "calls": calls}));
        impls.insert(q.id, per);
        kept.push(q);
    }
    if dropped > 0 {
        sum.count_n("sequences_dropped_parser_panic", dropped);
    }
    let inp = args.out.join("c30_plan.json");
    let outp = args.out.join("c30_obs.json");
    std::fs::write(&inp, serde_json::to_vec(&json!({"cap": cap, "bound_key": variant.bound_key, "seqs": plan})).unwrap()).expect("write plan");
    let st = Command::new("python3").arg(DRIVER).arg(&pymod).arg(&inp).arg(&outp).env("RUST_BACKTRACE", "0").output();
    let st = match st {
        Ok(o) => o,
        Err(e) => fail(&format!("cannot run python3: {}", e)),
    };
    if !st.status.success() {
        let err = String::from_utf8_lossy(&st.stderr);
        fail(&format!("the driver could not run the real extension module (import or protocol failure; no replica is substituted):\n{}", &err[err.len().saturating_sub(1500)..]));
    }
    let obs: Value = serde_json::from_slice(&std::fs::read(&outp).expect("driver output")).expect("driver json");
    sum.notes.push(format!("driver: python3 {} ; module file {} ; version {}", DRIVER, obs["file"].as_str().unwrap_or("?"), obs["version"].as_str().unwrap_or("?")));
    let by_id: BTreeMap<u64, &Value> = obs["seqs"].as_array().unwrap().iter().map(|x| (x["id"].as_u64().unwrap(), x)).collect();

    // ---- oracles + shards ----
    let nshards = 8usize;
    let mut shard_cases: Vec<Vec<String>> = vec![Vec::new(); nshards];
    let mut lru_shards: Vec<String> = Vec::new();
    let mut readback_cases: Vec<String> = Vec::new();
    let mut spec_cases: Vec<String> = Vec::new();
    let mut spec_id: u64 = 10_000_000;
    let mut spec_seen = std::collections::HashSet::new();

    for q in &kept {
        let o = match by_id.get(&q.id) {
            Some(o) => *o,
            None => fail(&format!("driver returned no observation for sequence {}", q.id)),
        };
        let per = &impls[&q.id];
        let ocalls = o["calls"].as_array().unwrap();
        if ocalls.len() != q.calls.len() {
            fail("driver returned a different number of calls");
        }
        sum.count(&format!("family_{}", q.family));
        let case_json = |upto: usize| -> Value {
            json!({"family": q.family, "seq_id": q.id,
                   "calls": q.calls.iter().take(upto + 1).map(|c| json!({"sql": c.sql, "params": c.params.as_ref().map(|ps| ps.iter().map(|p| p.show()).collect::<Vec<_>>())})).collect::<Vec<_>>()})
        };
        let mut o1_live = q.o1;
        let mut taint: Option<&'static str> = None;
        let mut all_explained = true;
        let mut coq_calls = Vec::new();
        let mut coq_oracle = Vec::new();
        let mut coq_obs = Vec::new();
        for (i, c) in q.calls.iter().enumerate() {
            let oc = &ocalls[i];
            let real = obs_of(&oc["real"]);
            sum.evaluations += 1;
            sum.count(match real.code { 0 => "real_ok", 1 => "real_programming_error", 2 => "real_operational_error", _ => "real_other_exception" });
            if let Some(ps) = &c.params {
                sum.count(&format!("params_arity_{}", ps.len().min(4)));
                for p in ps {
                    sum.count(match p { Param::None => "param_none", Param::Int(z) => if (I64_MIN..=I64_MAX).contains(z) { if *z < 0 { "param_int_negative" } else { "param_int" } } else { "param_int_beyond_i64" },
                        Param::Huge(_) => "param_int_beyond_f64", Param::Bool(_) => "param_bool", Param::Float(f) => if f.is_finite() { "param_float" } else { "param_float_nonfinite" },
                        Param::Str(sv) => if has_surrogate(sv) { "param_str_lone_surrogate" } else if sv.iter().any(|c| *c > 127) { "param_str_non_ascii" } else { "param_str" }, Param::Other(_) => "param_other_type" });
                }
                if nqm(&c.sql) > 0 {
                    sum.nontrivial(&format!("{}|{:?}", c.sql, ps));
                }
                if count_protected_qm(&c.sql) > 0 {
                    sum.count("text_with_protected_qm");
                }
            } else {
                sum.count("call_without_params");
            }
            if real.code == 3 {
                sum.finding("unexpected-exception", q.id, format!("call {} raised {}", i, real.exc), case_json(i));
            }
            if real.code == 2 && real.exc.contains("Complex expressions in INSERT VALUES") {
                sum.count("negative_literal_rejected_by_engine");
            }
            let shadow = if oc["shadow"].is_null() { None } else { Some(&oc["shadow"]) };
            let sh_obs = shadow.map(|s| obs_of(&s["obs"]));
            let hit = shadow.map(|s| s["hit"].as_bool().unwrap_or(false)).unwrap_or(false);
            let from = shadow.map(|s| s["from"].as_u64().unwrap_or(0) as usize).unwrap_or(i);
            if hit {
                sum.count("replica_cache_hit");
            }
            // harness parser vs module parser
            if let (Some(s), Some(so)) = (shadow, &sh_obs) {
                let kind = per[from].1;
                let parse_err_seen = so.code == 1 && so.exc.starts_with("Parse error");
                if (kind == 0) != parse_err_seen {
                    sum.finding("harness-parser-disagrees", q.id, format!("call {}: harness kind {} but the module said {:?} for {:?}", i, kind, so.exc, s["text"]), case_json(i));
                }
            }
            let explained = match &sh_obs {
                Some(so) => outcome_eq(&real, so),
                None => real.code != 0,
            };
            // ---- O1: against the reference connection ----
            // A call can make the real run leave the reference run only where the statement the cursor executes
            // (per replica) is not the text the reference binder wrote.  The first such call names the cause.
            all_explained &= explained;
            {
                let executed: Option<&str> = shadow.map(|s| s["text"].as_str().unwrap_or(""));
                let spec_text: Option<&str> = per[i].4.as_deref();
                if executed != spec_text && taint.is_none() {
                    let pop = &q.calls[from];
                    let big_int = |c: &Call| c.params.as_ref().map(|ps| ps.iter().any(|p| matches!(p, Param::Huge(_)) || matches!(p, Param::Int(z) if !(I64_MIN..=I64_MAX).contains(z)))).unwrap_or(false);
                    // a class is only named when the source still has the defect (no repair present)
                    if !variant.bound_key && hit && pop.params != c.params {
                        taint = Some("stmt-cache-replays-first-parameters");
                    } else if !variant.literal_aware && pop.params.is_some() && count_protected_qm(&c.sql) > 0 {
                        taint = Some("placeholder-inside-string-literal");
                    } else if !variant.reject && pop.params.as_ref().map(|ps| ps.iter().any(|p| p.is_nonfinite())).unwrap_or(false) {
                        taint = Some("nonfinite-float-bound-as-identifier");
                    } else if !variant.reject && big_int(pop) {
                        // ints beyond i64 are bound as the nearest double; the reference binder refuses them
                        taint = Some("int-beyond-i64-rounded-to-double");
                    } else if !variant.literal_aware && pop.params.as_ref().map(|ps| !merge_free(&pop.sql, ps)).unwrap_or(false) {
                        taint = Some("bound-literal-merges-with-neighbour");
                    } else if variant.literal_aware && executed.map(|t| t.split_whitespace().collect::<Vec<_>>()) == spec_text.map(|t| t.split_whitespace().collect::<Vec<_>>()) {
                        // the repaired binder writes its literals between spaces: not a deviation
                    } else {
                        taint = Some("result-mismatch");
                    }
                }
            }
            if o1_live && !c.params.as_ref().map(|ps| token_isolated(&c.sql, ps)).unwrap_or(true) {
                // a placeholder glued to a word / number: token merging is outside the scanner's notion of structure
                sum.count("o1_not_judged_placeholder_glued_to_word");
                o1_live = false;
            }
            if o1_live {
                let refo = if oc["ref"].is_null() { None } else { Some(obs_of(&oc["ref"])) };
                let agree = match &refo {
                    Some(r) => outcome_eq(&real, r),
                    None => real.code != 0, // the reference binder refuses: an error is expected
                };
                if !agree {
                    let class = if !all_explained { "result-mismatch" } else { taint.unwrap_or("result-mismatch") };
                    let what = format!("call {} `{}` {:?}: real module -> {} {:?}; fresh connection with literals spliced (`{}`) -> {}; executed statement per replica: {:?}{}",
                        i, c.sql, c.params.as_ref().map(|ps| ps.iter().map(|p| p.show()).collect::<Vec<_>>()), if real.code == 0 { "ok" } else { &real.exc }, real.fetch,
                        per[i].4.clone().unwrap_or_else(|| "<refused>".into()),
                        refo.as_ref().map(|r| if r.code == 0 { format!("ok {:?}", r.fetch) } else { r.exc.clone() }).unwrap_or_else(|| "error expected".into()),
                        shadow.map(|s| s["text"].as_str().unwrap_or("").to_string()), if hit { format!(" (cache hit, parsed at call {})", from) } else { String::new() });
                    sum.finding(class, q.id, what, case_json(i));
                    o1_live = false; // the two databases may differ from here on
                } else {
                    sum.count(if taint.is_some() { "o1_agree_after_deviation" } else { "o1_agree" });
                }
            }
            // ---- O2: against the padded reference ----
            if q.o2 && !oc["pad"].is_null() {
                let pad = obs_of(&oc["pad"]);
                if !outcome_eq(&real, &pad) {
                    let ps = c.params.as_ref().unwrap();
                    let class = if explained && !variant.literal_aware && !merge_free(&c.sql, ps) { "bound-literal-merges-with-neighbour" } else { "result-mismatch" };
                    sum.finding(class, q.id, format!("`{}` {:?}: real module -> {} {:?}; with every literal surrounded by spaces (`{}`) -> {} {:?}",
                        c.sql, ps.iter().map(|p| p.show()).collect::<Vec<_>>(), if real.code == 0 { "ok" } else { &real.exc }, real.fetch,
                        per[i].3.clone().unwrap_or_default(), if pad.code == 0 { "ok" } else { &pad.exc }, pad.fetch), case_json(i));
                } else {
                    sum.count(if merge_free(&c.sql, c.params.as_ref().unwrap()) { "o2_agree_merge_free" } else { "o2_agree_although_adjacent" });
                }
            }
            // ---- O3: value read back ----
            if q.readback {
                let p = &c.params.as_ref().unwrap()[0];
                let got: Option<Value> = if real.code == 0 { real.fetch.as_ref().and_then(|f| f[1][0][0].as_array().map(|_| f[1][0][0].clone())) } else { None };
                let same = match (&got, p) {
                    (Some(g), Param::None) => g[0] == "n",
                    (Some(g), Param::Bool(b)) => g[0] == "i" && g[1] == (if *b { "1" } else { "0" }),
                    (Some(g), Param::Int(z)) => (g[0] == "i" && g[1].as_str() == Some(&z.to_string())) || (g[0] == "f" && float_is_int(g, *z)),
                    (Some(g), Param::Float(f)) => {
                        // floats: what holds is equality AS DOUBLES (an integral float comes back as an int, which
                        // above 2^53 need not be the exact value of the double); NaN never compares equal
                        if f.is_nan() {
                            g[0] == "f" && f64::from_bits(g[1].as_str().unwrap().parse().unwrap()).is_nan()
                        } else if g[0] == "f" {
                            f64::from_bits(g[1].as_str().unwrap().parse().unwrap()) == *f
                        } else if g[0] == "i" {
                            let z: i128 = g[1].as_str().unwrap().parse().unwrap();
                            sum.count(if f.abs() < 1e30 && (*f as i128) == z { "float_read_back_as_equal_int" } else { "float_read_back_as_int_equal_only_as_double" });
                            (z as f64) == *f
                        } else {
                            false
                        }
                    }
                    (Some(g), Param::Str(sv)) => g[0] == "s" && g[1].as_array().map(|a| a.iter().map(|x| x.as_u64().unwrap() as u32).collect::<Vec<_>>()) == Some(sv.clone()),
                    // a value the reference binder refuses too may be refused (at bind time)
                    (None, p) if spec_literal(p).is_none() && real.code == 1 && per[i].0.is_none() => true,
                    _ => false,
                };
                if !same {
                    let class = match p {
                        Param::Int(z) if !(I64_MIN..=I64_MAX).contains(z) && got.as_ref().map(|g| g[0] == "f").unwrap_or(false) => "int-beyond-i64-rounded-to-double",
                        Param::Float(f) if !f.is_finite() => "nonfinite-float-bound-as-identifier",
                        _ => "value-roundtrip-mismatch",
                    };
                    sum.finding(class, q.id, format!("SELECT ? with {} read back {:?} ({})", p.show(), got, if real.code == 0 { "ok".to_string() } else { real.exc.clone() }), case_json(i));
                } else {
                    sum.count("o3_roundtrip_equal");
                }
                let coq_got = match &got { Some(g) => format!("Some ({})", coq_val(g)), None => "None".into() };
                readback_cases.push(format!("({}, {}, {})", q.id, p.coq(), coq_got));
            }
            // ---- Coq case ----
            coq_calls.push(format!("({}, {})", coq_text(&c.sql), match &c.params { Some(ps) => format!("Some [{}]", ps.iter().map(|p| p.coq()).collect::<Vec<_>>().join("; ")), None => "None".into() }));
            coq_oracle.push(match (shadow, &sh_obs) {
                (Some(s), Some(so)) => {
                    let kind = per[from].1;
                    let res = if so.code == 0 { coq_ores(&so.fetch) } else { "None".into() };
                    format!("Some ({}, {}, {}, {})", coq_text(s["text"].as_str().unwrap()), kind != 0, kind, res)
                }
                _ => "None".into(),
            });
            coq_obs.push(format!("({}, {})", real.code, coq_ores(&real.fetch)));
            // reference binder vs Coq bind_spec (each distinct (sql, params) once)
            if let Some(ps) = &c.params {
                let key = fxhash(format!("{}|{:?}", c.sql, ps).as_bytes());
                if spec_seen.insert(key) && c.sql.len() < 200 {
                    spec_id += 1;
                    spec_cases.push(format!("({}, {}, [{}], {})", spec_id, coq_text(&c.sql), ps.iter().map(|p| p.coq()).collect::<Vec<_>>().join("; "),
                        match &per[i].2 { Some(t) => format!("Some {}", coq_text(t)), None => "None".into() }));
                }
            }
        }
        let case = format!("{{| case_id := {}; case_calls := [{}]; case_oracle := [{}]; case_obs := [{}] |}}", q.id, coq_calls.join(";\n "), coq_oracle.join(";\n "), coq_obs.join(";\n "));
        if q.family == "lru" {
            lru_shards.push(case);
        } else {
            shard_cases[(q.id as usize) % nshards].push(case);
        }
        sum.model_cases += q.calls.len() as u64;
        if sum.samples.len() < 6 && matches!(q.family, "same-text" | "dml" | "protected" | "structure") && q.id % 7 == 0 {
            sum.sample(json!({"family": q.family, "calls": q.calls.iter().map(|c| json!({"sql": c.sql, "params": c.params.as_ref().map(|ps| ps.iter().map(|p| p.show()).collect::<Vec<_>>())})).collect::<Vec<_>>(),
                "real": ocalls.iter().map(|oc| oc["real"].clone()).collect::<Vec<_>>()}));
        }
        log.log(q.id, json!({"family": q.family, "calls": q.calls.iter().take(12).map(|c| json!({"sql": c.sql, "params": c.params.as_ref().map(|ps| ps.iter().map(|p| p.show()).collect::<Vec<_>>())})).collect::<Vec<_>>(), "ncalls": q.calls.len()}));
    }

    if args.only.is_none() {
        let header = "From Coq Require Import List ZArith String.\nImport ListNotations.\nOpen Scope Z_scope.\nOpen Scope string_scope.\nFrom VibeSQL Require Import Lex.Placeholder Store.Cursor Run.C30Run.\n";
        let coq_variant = format!("{{| v_bound_key := {}; v_literal_aware := {}; v_reject := {} |}}", variant.bound_key, variant.literal_aware, variant.reject);
        let mut k = 0usize;
        for cases in shard_cases.iter().filter(|c| !c.is_empty()) {
            let text = format!("{}Definition cases : list c30_case := [\n{}\n].\nEval vm_compute in (c30_mismatches {} {} cases).\n", header, cases.join(";\n"), coq_variant, cap);
            write_shard(&args, k, &text);
            k += 1;
        }
        for pair in lru_shards.chunks(2) {
            let text = format!("{}Definition cases : list c30_case := [\n{}\n].\nEval vm_compute in (c30_mismatches {} {} cases).\n", header, pair.join(";\n"), coq_variant, cap);
            write_shard(&args, k, &text);
            k += 1;
        }
        for chunk in readback_cases.chunks(700) {
            let text = format!("{}Definition cases : list (Z * pyval * option rval) := [\n{}\n].\nEval vm_compute in (c30_readback_mismatches {} cases).\n", header, chunk.join(";\n"), variant.reject);
            write_shard(&args, k, &text);
            k += 1;
            sum.model_cases += chunk.len() as u64;
        }
        for chunk in spec_cases.chunks(1400) {
            let text = format!("{}Definition cases : list (Z * text * list pyval * option text) := [\n{}\n].\nEval vm_compute in (c30_spec_mismatches cases).\n", header, chunk.join(";\n"));
            write_shard(&args, k, &text);
            k += 1;
            sum.model_cases += chunk.len() as u64;
        }
    }
    sum.write(&args);
}

fn float_is_int(g: &Value, z: i128) -> bool {
    let f = f64::from_bits(g[1].as_str().unwrap().parse().unwrap());
    f.is_finite() && f.fract() == 0.0 && f.abs() < 1.0e38 && (f as i128) == z
}
