//! C20 — loading damaged database files fails cleanly.
//!
//! Orchestrator: builds valid base files of all four formats with the real save functions (plus a few
//! hand-encoded adversarial `.vbsql` files), derives a deterministic mutation stream (truncation at every
//! offset, bit flips, length-field splices, payload dictionary substitutions, random blocks), and has
//! worker CHILD PROCESSES (re-exec of this binary) load every mutated file with the real loaders.
//! A worker loads many files per process under `catch_unwind` with a recording allocator; when a worker
//! dies (stack overflow, allocation failure) or stops answering (5 s), the case in flight gets that
//! observation and a fresh worker continues after it.  A sample of the findings is re-run in isolated
//! children with RLIMIT_AS = 1 GiB.  Observations of the binary format are written as Coq shards and
//! compared with the model (`Run/C20Run.v`); the property's own oracle (only ok/err is clean, no
//! allocation far beyond the file size) is evaluated on every observation.
#[path = "../c18_fmt.rs"]
mod fmt;
use fmt::*;
use serde_json::json;
use std::collections::BTreeMap;
use std::io::{BufRead, BufReader, Write};
use std::path::{Path, PathBuf};
use std::process::{Command, Stdio};
use std::sync::mpsc;
use std::sync::Mutex;
use std::time::Duration;
use vh::out::*;
use vh::rng::Rng;
use vibesql_storage::Database;
use vibesql_types::SqlValue;

#[global_allocator]
static A: CountingAlloc = CountingAlloc;

const BIG: usize = 1 << 20; // requests at/above this are compared exactly with the model
const TIME_LIMIT: Duration = Duration::from_secs(5);

#[derive(Clone, Copy, PartialEq, Eq, Debug)]
enum Fm {
    Bin,
    Zst,
    Json,
    Sql,
}
impl Fm {
    fn ext(self) -> &'static str {
        match self {
            Fm::Bin => "vbsql",
            Fm::Zst => "vbsqlz",
            Fm::Json => "json",
            Fm::Sql => "sql",
        }
    }
    fn from_ext(e: &str) -> Fm {
        match e {
            "vbsql" => Fm::Bin,
            "vbsqlz" => Fm::Zst,
            "json" => Fm::Json,
            _ => Fm::Sql,
        }
    }
}

struct Base {
    fm: Fm,
    label: String,
    bytes: Vec<u8>,
}

#[derive(Clone)]
struct Case {
    base: usize,
    off: usize,
    del: usize,
    ins: Vec<u8>,
    kind: &'static str,
}

#[derive(Clone, Debug)]
struct Obs {
    code: u8, // 0 ok 1 err 2 panic 3 abort 4 timeout 5 alloc-failure abort
    max_alloc: i64, // largest single allocation request of any kind (0 when below BIG, -1 unknown)
    max_bytes: i64, // largest byte-buffer (align 1) request: what the model's Alloc events stand for
    sig: i64,
    msg: String,
}

fn patched(b: &[u8], c: &Case) -> Vec<u8> {
    let mut v = Vec::with_capacity(b.len() + c.ins.len());
    v.extend_from_slice(&b[..c.off.min(b.len())]);
    v.extend_from_slice(&c.ins);
    let e = (c.off + c.del).min(b.len());
    v.extend_from_slice(&b[e..]);
    v
}

// ---------------------------------------------------------------------------------------------
// base files
// ---------------------------------------------------------------------------------------------
fn run_sql(db: &mut Database, s: &str) {
    use vibesql_ast::Statement;
    match vibesql_parser::Parser::parse_sql(s) {
        Ok(Statement::CreateSchema(st)) => {
            vibesql_executor::SchemaExecutor::execute_create_schema(&st, db).expect("create schema");
        }
        Ok(st) => {
            let o = vh::sql::exec_stmt(db, &st);
            if !o.is_ok() {
                panic!("base script statement failed: {} -> {:?}", s, o);
            }
        }
        Err(e) => panic!("base script parse error: {} -> {:?}", s, e),
    }
}

fn base_dbs() -> Vec<(&'static str, Database)> {
    let mut v = Vec::new();
    let mut db = Database::new();
    for s in [
        "CREATE TABLE t (a INTEGER, b VARCHAR(10), c CHAR(3), d DOUBLE PRECISION, e DATE, f BOOLEAN)",
        "INSERT INTO t VALUES (1, 'x', 'ab', 1.5, DATE '2024-01-02', TRUE)",
        "INSERT INTO t VALUES (2, 'it''s', 'é', 2.5, NULL, FALSE)",
        "INSERT INTO t VALUES (3, NULL, NULL, NULL, NULL, NULL)",
        "CREATE INDEX ia ON t (a)",
    ] {
        run_sql(&mut db, s);
    }
    v.push(("mixed", db));
    let mut db = Database::new();
    for s in [
        "CREATE TABLE u (x BIGINT NOT NULL, y SMALLINT, z REAL)",
        "CREATE TABLE v (s VARCHAR(20), t TIME, ts TIMESTAMP)",
        "INSERT INTO v VALUES ('héllo 日本', TIME '12:30:45', TIMESTAMP '2024-02-29 23:59:59')",
        "INSERT INTO v VALUES ('', TIME '00:00:00', NULL)",
        "CREATE UNIQUE INDEX ux ON u (x DESC)",
        "CREATE INDEX vs ON v (s, t)",
    ] {
        run_sql(&mut db, s);
    }
    // values that SQL text cannot produce (SMALLINT literals are not coerced; NaN; i64::MIN)
    db.insert_row("U", vibesql_storage::Row::new(vec![SqlValue::Bigint(i64::MAX), SqlValue::Smallint(7), SqlValue::Real(2.5)])).unwrap();
    db.insert_row("U", vibesql_storage::Row::new(vec![SqlValue::Bigint(5), SqlValue::Null, SqlValue::Real(0.25)])).unwrap();
    db.insert_row("U", vibesql_storage::Row::new(vec![SqlValue::Bigint(i64::MIN), SqlValue::Smallint(-1), SqlValue::Real(f32::NAN)])).unwrap();
    v.push(("two-tables", db));
    let mut db = Database::new();
    for s in [
        "CREATE TABLE n (p NUMERIC(10,2), q FLOAT(24), w UNSIGNED, k VARCHAR)",
        "CREATE TABLE e (z INTEGER)",
        "CREATE ROLE r1",
        "CREATE SCHEMA s2",
    ] {
        run_sql(&mut db, s);
    }
    db.insert_row("N", vibesql_storage::Row::new(vec![SqlValue::Numeric(1.25), SqlValue::Float(2.5), SqlValue::Unsigned(u64::MAX), SqlValue::Varchar("unbounded".into())])).unwrap();
    v.push(("numeric-role-schema", db));
    let mut db = Database::new();
    for s in ["CREATE TABLE w (s VARCHAR(6), c CHAR(6), i INTEGER)", "INSERT INTO w VALUES ('日本', 'éa', 7)", "INSERT INTO w VALUES ('ab', 'x', 8)"] {
        run_sql(&mut db, s);
    }
    v.push(("utf8-limited", db));
    v
}

fn lit_value(e: &mut Enc, v: &SqlValue) {
    let mut buf = Vec::new();
    vibesql_storage::persistence::binary::value::write_sql_value(&mut buf, v).unwrap();
    e.bytes(&buf);
}

fn crafted_bases() -> Vec<(&'static str, Vec<u8>)> {
    let mut v = Vec::new();
    // a trigger with a WHEN condition  A = 5  and an UPDATE OF column list
    let mut e = Enc::header();
    e.simple_catalog(&[(b"T", vec![(b"A", b"INTEGER", true)])]);
    // simple_catalog ended with trigger_count 0: rewrite it to 1
    let n = e.0.len();
    e.0[n - 4] = 1;
    e.str(b"TR").str(b"T").u8(1).u8(3).u32(1).str(b"A").u8(0).u8(1);
    e.u8(0x02).u8(10).u8(0x01).u8(0).str(b"A").u8(0x00);
    lit_value(&mut e, &SqlValue::Integer(5));
    e.u8(0).str(b"SELECT 1");
    e.str(b"T").u64(1);
    lit_value(&mut e, &SqlValue::Integer(5));
    v.push(("trigger-when", e.0.clone()));
    // zero-column table with three (empty) rows
    let mut e = Enc::header();
    e.simple_catalog(&[(b"Z", vec![])]);
    e.str(b"Z").u64(3);
    v.push(("zero-columns", e.0.clone()));
    // an INTERVAL value in an INTEGER column (rejected by Table::insert after Interval::new ran)
    let mut e = Enc::header();
    e.simple_catalog(&[(b"T", vec![(b"A", b"INTEGER", true)])]);
    e.str(b"T").u64(1).u8(0x33).str(b"5 DAY");
    v.push(("interval-value", e.0.clone()));
    v
}

/// adversarial files (each is its own base with the identity patch)
fn adversarial() -> Vec<(&'static str, Vec<u8>)> {
    let mut v = Vec::new();
    let mut e = Enc::header();
    e.u32(1).u32(0xFFFF_FFFF);
    v.push(("adv-prefix-4g", e.0.clone()));
    let mut e = Enc::header();
    e.u32(0).u32(1).u32(0x8000_0000);
    v.push(("adv-prefix-2g", e.0.clone()));
    let mut e = Enc::header();
    e.simple_catalog(&[(b"Z", vec![])]);
    e.str(b"Z").u64(u64::MAX);
    v.push(("adv-zero-columns-spin", e.0.clone()));
    let mut e = Enc::header();
    e.simple_catalog(&[(b"T", vec![(b"A", b"VARCHAR(1)", true)])]);
    e.str(b"T").u64(1).u8(0x11).str("é".as_bytes());
    v.push(("adv-varchar-slice", e.0.clone()));
    let mut e = Enc::header();
    e.simple_catalog(&[(b"T", vec![(b"A", b"CHAR(70000)", true)])]);
    e.str(b"T").u64(1).u8(0x10).str(b"x");
    v.push(("adv-char-width", e.0.clone()));
    let mut e = Enc::header();
    e.simple_catalog(&[(b"T", vec![(b"A", b"INTEGER", true)])]);
    e.str(b"T").u64(1).u8(0x33).str(b"1 DAY TO");
    v.push(("adv-interval-to", e.0.clone()));
    let mut e = Enc::header();
    e.u32(0).u32(0).u32(0).u32(0).u32(1);
    e.str(b"TR").str(b"T").u8(0).u8(0).u8(0).u8(1);
    for _ in 0..5000 {
        e.u8(0x03).u8(0);
    }
    e.u8(0x07).u8(0).str(b"x");
    v.push(("adv-expr-depth-5000", e.0.clone()));
    v
}

// ---------------------------------------------------------------------------------------------
// mutation stream
// ---------------------------------------------------------------------------------------------
const DICT: &[&str] = &[
    "", "1 DAY TO", "5 DAY", "2000000000 YEAR", "é", "ééé", "日本語", "VARCHAR(1)", "VARCHAR(2)", "CHAR(1)", "CHAR(2)",
    "CHAR(70000)", "CHAR(4000000000)", "INTEGER", "12:00:00.12345678é", "2024-01-01 00:00:00+1é:2", "2024-13-01", "public", "T", "t",
    "public.T", "X.Y", "TO TO TO", "INTERVAL Day", "2024-01-02", "VARCHAR", "DATE",
];

fn string_fields(b: &[u8]) -> Vec<(usize, usize)> {
    let mut v = Vec::new();
    let mut o = 16;
    while o + 4 <= b.len() {
        let l = u32::from_le_bytes([b[o], b[o + 1], b[o + 2], b[o + 3]]) as usize;
        if l >= 1 && l <= 64 && o + 4 + l <= b.len() {
            if let Ok(s) = std::str::from_utf8(&b[o + 4..o + 4 + l]) {
                if s.chars().all(|c| !c.is_control()) {
                    v.push((o, l));
                    o += 4 + l;
                    continue;
                }
            }
        }
        o += 1;
    }
    v
}

fn gen_cases(seed: u64, thorough: bool, bases: &[Base]) -> Vec<Case> {
    let mut cases = Vec::new();
    for (bi, b) in bases.iter().enumerate() {
        let len = b.bytes.len();
        let mut r = Rng::new(seed, &format!("c20/{}", b.label));
        cases.push(Case { base: bi, off: 0, del: 0, ins: vec![], kind: "identity" });
        if b.label.starts_with("adv-") {
            continue;
        }
        let small = len <= 700;
        // the zero-column base spins on any large row count: keep its count field (offset 50..58) out of the
        // blind mutations so that the run does not spend its time waiting for 5 s time-outs
        let protect = |o: usize, n: usize| b.label == "zero-columns" && o + n > 50 && o < 58;
        // truncation: every offset (exhaustive) for small files, a stride otherwise
        let stride = if small || thorough { 1 } else { (len / 500).max(1) };
        let mut k = 0;
        while k < len {
            cases.push(Case { base: bi, off: k, del: len - k, ins: vec![], kind: "truncate" });
            k += stride;
        }
        // bit flips
        let nflip = if thorough { len * 8 } else { 250.min(len * 8) };
        for j in 0..nflip {
            let (o, bit) = if thorough { (j / 8, j % 8) } else { (r.below(len as u64) as usize, r.below(8) as usize) };
            if protect(o, 1) && !(o == 50 && bit < 4) {
                continue;
            }
            cases.push(Case { base: bi, off: o, del: 1, ins: vec![b.bytes[o] ^ (1 << bit)], kind: "bitflip" });
        }
        if b.fm == Fm::Bin {
            // all 8 bits of every header/catalog-count byte region start
            for o in 0..len.min(if thorough { 40 } else { 24 }) {
                for bit in 0..8 {
                    cases.push(Case { base: bi, off: o, del: 1, ins: vec![b.bytes[o] ^ (1 << bit)], kind: "bitflip" });
                }
            }
            // length-field splices at every offset
            let sstride = if thorough { 1 } else if len <= 200 { 1 } else { 2 };
            let mut o = 16;
            while o + 4 <= len {
                for v in [0u32, 1, 0x8000_0000, 0xFFFF_FFFF] {
                    if protect(o, 4) && !(o == 50 && v <= 1) {
                        continue;
                    }
                    cases.push(Case { base: bi, off: o, del: 4, ins: v.to_le_bytes().to_vec(), kind: "splice" });
                }
                o += sstride;
            }
            // dictionary substitution of string payloads (length prefix rewritten)
            for (o, l) in string_fields(&b.bytes) {
                for d in DICT {
                    let mut ins = (d.len() as u32).to_le_bytes().to_vec();
                    ins.extend_from_slice(d.as_bytes());
                    cases.push(Case { base: bi, off: o, del: 4 + l, ins, kind: "dict" });
                }
            }
        } else if b.fm == Fm::Json || b.fm == Fm::Sql {
            // text formats: substitute dictionary words at random positions of existing words
            for _ in 0..(if thorough { 600 } else { 150 }) {
                let o = r.below(len as u64) as usize;
                let d = r.pick(DICT);
                let del = r.below(8) as usize;
                cases.push(Case { base: bi, off: o, del: del.min(len - o), ins: d.as_bytes().to_vec(), kind: "dict" });
            }
        }
        // random blocks: overwrite / insert / delete
        for _ in 0..(if thorough { 5000 } else { 150 }) {
            let o = r.below(len as u64 + 1) as usize;
            let n = 1 + r.below(8) as usize;
            let ins: Vec<u8> = (0..n).map(|_| r.next() as u8).collect();
            let del = match r.below(3) {
                0 => n.min(len - o),
                1 => 0,
                _ => r.below(12).min((len - o) as u64) as usize,
            };
            let ins = if r.chance(1, 4) { vec![] } else { ins };
            if protect(o, del.max(1)) {
                continue;
            }
            cases.push(Case { base: bi, off: o, del, ins, kind: "random" });
        }
    }
    // arbitrary byte strings (patch of base 0 replacing everything), some behind a valid header
    let mut r = Rng::new(seed, "c20/arbitrary");
    let b0 = bases.iter().position(|b| b.fm == Fm::Bin).unwrap_or(0);
    for i in 0..(if thorough { 20000 } else { 500 }) {
        let n = r.below(120) as usize;
        let mut ins: Vec<u8> = if i % 2 == 0 { Enc::header().0 } else { vec![] };
        for _ in 0..n {
            // small numbers dominate so that counts/lengths stay plausible
            ins.push(if r.chance(2, 3) { r.below(4) as u8 } else { r.next() as u8 });
        }
        cases.push(Case { base: b0, off: 0, del: bases[b0].bytes.len(), ins, kind: "arbitrary" });
    }
    cases
}

// ---------------------------------------------------------------------------------------------
// worker: load files inside this process
// ---------------------------------------------------------------------------------------------
static PANIC_INFO: Mutex<String> = Mutex::new(String::new());

fn load_one(fm: Fm, path: &Path) -> Obs {
    *PANIC_INFO.lock().unwrap() = String::new();
    alloc_arm();
    let r = std::panic::catch_unwind(|| -> Result<i64, String> {
        let db = match fm {
            Fm::Bin => Database::load_binary(path).map_err(|e| format!("{:?}", e))?,
            Fm::Zst => Database::load_compressed(path).map_err(|e| format!("{:?}", e))?,
            Fm::Json => Database::load_json(path).map_err(|e| format!("{:?}", e))?,
            Fm::Sql => vibesql_executor::load_sql_dump(path).map_err(|e| format!("{:?}", e))?,
        };
        let names = db.list_tables();
        let mut rows = 0i64;
        for n in &names {
            if let Some(t) = db.get_table(n) {
                rows += t.row_count() as i64;
            }
        }
        Ok(names.len() as i64 * 1_000_000 + rows)
    });
    let (mx, mxb, _tot) = alloc_disarm();
    let max_alloc = if mx >= BIG { mx as i64 } else { 0 };
    let max_bytes = if mxb >= BIG { mxb as i64 } else { 0 };
    match r {
        Ok(Ok(sig)) => Obs { code: 0, max_alloc, max_bytes, sig, msg: String::new() },
        Ok(Err(e)) => Obs { code: 1, max_alloc, max_bytes, sig: -1, msg: e.chars().take(120).collect() },
        Err(_) => Obs { code: 2, max_alloc, max_bytes, sig: -1, msg: PANIC_INFO.lock().unwrap().clone() },
    }
}

fn read_bases(dir: &Path) -> Vec<Base> {
    let idx = std::fs::read_to_string(dir.join("bases/index.txt")).expect("bases index");
    idx.lines()
        .map(|l| {
            let mut it = l.splitn(3, ' ');
            let file = it.next().unwrap();
            let ext = it.next().unwrap();
            let label = it.next().unwrap().to_string();
            Base { fm: Fm::from_ext(ext), label, bytes: std::fs::read(dir.join("bases").join(file)).expect("base file") }
        })
        .collect()
}

fn esc(s: &str) -> String {
    s.replace('\\', "\\\\").replace('\n', "\\n").replace('\t', " ")
}

fn worker(args: &Args) {
    let w: usize = args.extra["worker"].parse().unwrap();
    let nw: usize = args.extra["nworkers"].parse().unwrap();
    let from: usize = args.extra.get("from").and_then(|s| s.parse().ok()).unwrap_or(0);
    let single: Option<usize> = args.extra.get("single").and_then(|s| s.parse().ok());
    if args.extra.get("limit").map(|s| s == "1").unwrap_or(false) {
        unsafe {
            let r = libc::rlimit { rlim_cur: 1 << 30, rlim_max: 1 << 30 };
            libc::setrlimit(libc::RLIMIT_AS, &r);
        }
    } else {
        unsafe {
            let r = libc::rlimit { rlim_cur: 6 << 30, rlim_max: 6 << 30 };
            libc::setrlimit(libc::RLIMIT_AS, &r);
        }
    }
    unsafe {
        // no core files: an aborting child must die quickly
        let r = libc::rlimit { rlim_cur: 0, rlim_max: 0 };
        libc::setrlimit(libc::RLIMIT_CORE, &r);
    }
    std::panic::set_hook(Box::new(|info| {
        let loc = info.location().map(|l| format!("{}:{}", l.file(), l.line())).unwrap_or_default();
        let msg = info.payload().downcast_ref::<String>().cloned().or_else(|| info.payload().downcast_ref::<&str>().map(|s| s.to_string())).unwrap_or_default();
        if let Ok(mut g) = PANIC_INFO.lock() {
            *g = format!("{} | {}", loc, msg.chars().take(100).collect::<String>());
        }
    }));
    let bases = read_bases(&args.out);
    let cases = gen_cases(args.seed, args.thorough, &bases);
    let tmp = args.out.join("tmp");
    std::fs::create_dir_all(&tmp).ok();
    let out = std::io::stdout();
    let mut i = if let Some(s) = single { s } else { from };
    while i < cases.len() {
        if single.is_none() && i % nw != w {
            i += 1;
            continue;
        }
        let c = &cases[i];
        let b = &bases[c.base];
        let path = match single {
            Some(k) => tmp.join(format!("single{}.{}", k, b.fm.ext())),
            None => tmp.join(format!("w{}.{}", w, b.fm.ext())),
        };
        std::fs::write(&path, patched(&b.bytes, c)).expect("write case file");
        {
            let mut o = out.lock();
            writeln!(o, "B {}", i).unwrap();
            o.flush().unwrap();
        }
        let obs = load_one(b.fm, &path);
        {
            let mut o = out.lock();
            writeln!(o, "R {} {} {} {} {} {}", i, obs.code, obs.max_alloc, obs.max_bytes, obs.sig, esc(&obs.msg)).unwrap();
            o.flush().unwrap();
        }
        if single.is_some() {
            break;
        }
        i += 1;
    }
    let mut o = out.lock();
    writeln!(o, "E").unwrap();
    o.flush().unwrap();
}

// ---------------------------------------------------------------------------------------------
// orchestrator
// ---------------------------------------------------------------------------------------------
fn spawn_worker(exe: &Path, args: &Args, extra: &[(&str, String)]) -> std::process::Child {
    let mut c = Command::new(exe);
    c.arg("--seed").arg(args.seed.to_string()).arg("--tier").arg(if args.thorough { "thorough" } else { "quick" }).arg("--out").arg(&args.out);
    for (k, v) in extra {
        c.arg(format!("--{}", k)).arg(v);
    }
    c.stdout(Stdio::piped()).stderr(Stdio::piped()).env("RUST_BACKTRACE", "0");
    c.spawn().expect("spawn worker")
}

/// drive one child until it exits, is killed for silence, or finishes; returns observations and the
/// index to resume from (None when the worker's share is done)
fn drive(child: std::process::Child, results: &Mutex<BTreeMap<usize, Obs>>) -> Option<usize> {
    drive_with(child, results, TIME_LIMIT)
}

fn drive_with(mut child: std::process::Child, results: &Mutex<BTreeMap<usize, Obs>>, limit: Duration) -> Option<usize> {
    let stdout = child.stdout.take().unwrap();
    let (tx, rx) = mpsc::channel::<String>();
    let reader = std::thread::spawn(move || {
        for l in BufReader::new(stdout).lines().map_while(Result::ok) {
            if tx.send(l).is_err() {
                break;
            }
        }
    });
    let mut in_flight: Option<usize> = None;
    let mut last_done: Option<usize> = None;
    let mut finished = false;
    let mut timed_out = false;
    loop {
        match rx.recv_timeout(limit) {
            Ok(l) => {
                let mut it = l.splitn(7, ' ');
                match it.next() {
                    Some("B") => in_flight = it.next().and_then(|x| x.parse().ok()),
                    Some("R") => {
                        let i: usize = it.next().unwrap().parse().unwrap();
                        let code: u8 = it.next().unwrap().parse().unwrap();
                        let max_alloc: i64 = it.next().unwrap().parse().unwrap();
                        let max_bytes: i64 = it.next().unwrap().parse().unwrap();
                        let sig: i64 = it.next().unwrap().parse().unwrap();
                        let msg = it.next().unwrap_or("").to_string();
                        results.lock().unwrap().insert(i, Obs { code, max_alloc, max_bytes, sig, msg });
                        in_flight = None;
                        last_done = Some(i);
                    }
                    Some("E") => finished = true,
                    _ => {}
                }
            }
            Err(mpsc::RecvTimeoutError::Timeout) => {
                timed_out = true;
                child.kill().ok();
                break;
            }
            Err(mpsc::RecvTimeoutError::Disconnected) => break,
        }
    }
    let mut err = String::new();
    if let Some(mut e) = child.stderr.take() {
        use std::io::Read;
        let mut buf = Vec::new();
        e.read_to_end(&mut buf).ok();
        err = String::from_utf8_lossy(&buf).chars().take(300).collect();
    }
    let status = child.wait().ok();
    reader.join().ok();
    if let Some(i) = in_flight {
        let code = if timed_out {
            4
        } else if err.contains("memory allocation of") {
            5
        } else {
            3
        };
        let msg = if timed_out { "no answer within 5 s".to_string() } else { format!("{:?} {}", status, esc(err.trim())) };
        results.lock().unwrap().insert(i, Obs { code, max_alloc: -1, max_bytes: -1, sig: -1, msg });
        Some(i + 1)
    } else if finished {
        None
    } else {
        // the child went away between two cases (or before its first): continue after the last answer
        Some(last_done.map(|i| i + 1).unwrap_or(usize::MAX))
    }
}

fn bytes_lit(b: &[u8]) -> String {
    let v: Vec<String> = b.iter().map(|x| x.to_string()).collect();
    format!("[{}]", v.join(";"))
}

/// light scan of a .vbsql catalog prefix: (table name, column count) list, or None when malformed
fn scan_tables(b: &[u8]) -> Option<Vec<(Vec<u8>, u32)>> {
    struct Cur<'a>(&'a [u8], usize);
    impl<'a> Cur<'a> {
        fn u32(&mut self) -> Option<u32> {
            let s = self.0.get(self.1..self.1 + 4)?;
            self.1 += 4;
            Some(u32::from_le_bytes([s[0], s[1], s[2], s[3]]))
        }
        fn str(&mut self) -> Option<Vec<u8>> {
            let l = self.u32()? as usize;
            let s = self.0.get(self.1..self.1.checked_add(l)?)?;
            self.1 += l;
            Some(s.to_vec())
        }
    }
    let mut c = Cur(b, 16);
    for _ in 0..c.u32()?.min(1000) {
        c.str()?;
    }
    for _ in 0..c.u32()?.min(1000) {
        c.str()?;
    }
    let mut out = Vec::new();
    for _ in 0..c.u32()?.min(1000) {
        let name = c.str()?;
        let nc = c.u32()?;
        for _ in 0..nc.min(1000) {
            c.str()?;
            c.str()?;
            c.1 += 1;
        }
        out.push((name, nc));
    }
    Some(out)
}

/// longest run of consecutive [0x03, op<=4] pairs (nested UnaryOp expressions)
fn nesting_run(b: &[u8]) -> usize {
    let (mut best, mut cur, mut i) = (0usize, 0usize, 0usize);
    while i + 1 < b.len() {
        if b[i] == 0x03 && b[i + 1] <= 4 {
            cur += 1;
            i += 2;
        } else {
            best = best.max(cur);
            cur = 0;
            i += 1;
        }
    }
    best.max(cur)
}

/// does some u32 in the file equal `n` while fewer than `n` bytes follow it?
fn is_dangling_prefix(b: &[u8], n: u64) -> bool {
    (0..b.len().saturating_sub(3)).any(|o| {
        let v = u32::from_le_bytes([b[o], b[o + 1], b[o + 2], b[o + 3]]) as u64;
        v == n && (b.len() - o - 4) as u64 <= n
    })
}

/// `bin`: the `.vbsql` image the binary decoder sees (the file itself, or the zstd-decoded content of a
/// `.vbsqlz` file when the library accepts it)
fn classify(fm: Fm, file: &[u8], bin: Option<&[u8]>, o: &Obs) -> Option<(&'static str, String)> {
    let len = file.len();
    let zero_cols = || bin.and_then(scan_tables).map(|t| t.iter().any(|(_, nc)| *nc == 0)).unwrap_or(false);
    match o.code {
        0 | 1 => {
            if fm == Fm::Zst && bin.is_none() && o.code == 0 {
                return Some(("load-accepts-undecodable", "load_compressed returned Ok for content zstd::decode_all rejects".into()));
            }
            if o.max_alloc > 0 && (o.max_alloc as usize) > 16 * len + BIG {
                let cls = if bin.map(|b| is_dangling_prefix(b, o.max_alloc as u64)).unwrap_or(false) {
                    "read-string-prefix-alloc"
                } else if zero_cols() {
                    "zero-column-row-loop"
                } else {
                    "over-allocation"
                };
                Some((cls, format!("{} load of a {}-byte file requested a single allocation of {} bytes ({})", fm.ext(), len, o.max_alloc, if o.code == 0 { "then returned Ok" } else { "then returned Err" })))
            } else {
                None
            }
        }
        2 => {
            let m = &o.msg;
            let cls = if m.contains("table/normalization.rs") && m.contains("char boundary") {
                "row-normalize-slice-panic"
            } else if m.contains("table/normalization.rs") && m.contains("Formatting argument out of range") {
                "char-pad-width-panic"
            } else if m.contains("vibesql-types/src/temporal/") {
                "temporal-parse-panic"
            } else if fm == Fm::Sql && m.contains("vibesql-executor/src/persistence.rs") && m.contains("char boundary") {
                "sql-dump-error-truncate-panic"
            } else if fm == Fm::Sql && m.contains("vibesql-executor/src/insert/validation.rs") && m.contains("char boundary") {
                "sql-insert-char-truncate-panic"
            } else {
                "load-panic"
            };
            Some((cls, format!("{} load panicked: {}", fm.ext(), m)))
        }
        3 => {
            let cls = if o.msg.contains("overflowed its stack") && bin.map(|b| nesting_run(b) >= 500).unwrap_or(false) { "expr-recursion-stack-overflow" } else { "load-abort" };
            Some((cls, format!("{} load aborted the process: {}", fm.ext(), o.msg.chars().take(160).collect::<String>())))
        }
        4 => Some((if zero_cols() { "zero-column-row-loop" } else { "load-timeout" }, format!("{} load did not return within 5 s", fm.ext()))),
        _ => {
            let n: u64 = o.msg.split("memory allocation of ").nth(1).and_then(|s| s.split(' ').next()).and_then(|s| s.parse().ok()).unwrap_or(0);
            let cls = if n > 0 && bin.map(|b| is_dangling_prefix(b, n)).unwrap_or(false) {
                "read-string-prefix-alloc"
            } else if zero_cols() {
                "zero-column-row-loop"
            } else {
                "load-alloc-abort"
            };
            Some((cls, format!("{} load aborted on allocation failure: {}", fm.ext(), o.msg.chars().take(160).collect::<String>())))
        }
    }
}

fn main() {
    let args = parse_args();
    if args.extra.contains_key("worker") {
        worker(&args);
        return;
    }
    quiet_panics();
    let exe = std::env::current_exe().expect("current_exe");
    let mut sum = Summary::default();
    sum.nontrivial_rule = "a case is (base file, patch) with the observed load outcome {ok, err, panic, abort, timeout, alloc-failure} and the largest single allocation request; distinct = distinct patched file contents; non-trivial = the patched file differs from its base and is not empty".into();
    let mut log = CaseLog::new(&args);
    // ---- base files (written once; workers read them back, HashMap order must not differ) ----
    let bdir = args.out.join("bases");
    std::fs::create_dir_all(&bdir).unwrap();
    let mut bases: Vec<Base> = Vec::new();
    for (label, db) in base_dbs() {
        for fm in [Fm::Bin, Fm::Zst, Fm::Json, Fm::Sql] {
            let p = bdir.join(format!("tmp.{}", fm.ext()));
            match fm {
                Fm::Bin => db.save_binary(&p).unwrap(),
                Fm::Zst => db.save_compressed(&p).unwrap(),
                Fm::Json => db.save_json(&p).unwrap(),
                Fm::Sql => db.save_sql_dump(&p).unwrap(),
            }
            bases.push(Base { fm, label: format!("{}.{}", label, fm.ext()), bytes: std::fs::read(&p).unwrap() });
            std::fs::remove_file(&p).ok();
        }
    }
    for (label, bytes) in crafted_bases().into_iter().chain(adversarial()) {
        bases.push(Base { fm: Fm::Bin, label: label.to_string(), bytes });
    }
    let mut index = String::new();
    for (k, b) in bases.iter().enumerate() {
        let f = format!("base_{:03}.bin", k);
        std::fs::write(bdir.join(&f), &b.bytes).unwrap();
        index.push_str(&format!("{} {} {}\n", f, b.fm.ext(), b.label));
        sum.count(&format!("base_{}", b.fm.ext()));
    }
    std::fs::write(bdir.join("index.txt"), index).unwrap();
    let cases = gen_cases(args.seed, args.thorough, &bases);
    let wanted: Option<std::collections::HashSet<usize>> = args.only.as_ref().map(|v| v.iter().map(|x| *x as usize).collect());

    // ---- run ----
    let results: Mutex<BTreeMap<usize, Obs>> = Mutex::new(BTreeMap::new());
    if let Some(w) = &wanted {
        for &i in w {
            if i < cases.len() {
                let ch = spawn_worker(&exe, &args, &[("worker", "0".into()), ("nworkers", "1".into()), ("single", i.to_string())]);
                drive(ch, &results);
            }
        }
    } else {
        let nw = 14usize;
        std::thread::scope(|s| {
            for w in 0..nw {
                let (exe, args, results) = (&exe, &args, &results);
                s.spawn(move || {
                    let mut from = 0usize;
                    let mut stalls = 0;
                    loop {
                        let ch = spawn_worker(exe, args, &[("worker", w.to_string()), ("nworkers", nw.to_string()), ("from", from.to_string())]);
                        match drive(ch, results) {
                            Some(usize::MAX) => {
                                stalls += 1; // died before answering anything: retry the same position a few times
                                if stalls > 3 {
                                    break;
                                }
                            }
                            Some(next) => {
                                stalls = 0;
                                from = next;
                            }
                            None => break,
                        }
                    }
                });
            }
        });
    }
    let mut results = results.into_inner().unwrap();

    // ---- an abort / time-out / allocation failure must reproduce when the case is run alone (a loaded
    //      machine can starve a worker for seconds); otherwise the second observation is taken ----
    if wanted.is_none() {
        let suspects: Vec<usize> = results.iter().filter(|(_, o)| o.code >= 3).map(|(i, _)| *i).collect();
        let again: Mutex<BTreeMap<usize, Obs>> = Mutex::new(BTreeMap::new());
        std::thread::scope(|s| {
            for chunk in suspects.chunks(suspects.len().max(1).div_ceil(8)) {
                let (exe, args, again) = (&exe, &args, &again);
                s.spawn(move || {
                    for &i in chunk {
                        // alone and with a generous limit: only a case that is still silent after 20 s keeps "timeout"
                        let ch = spawn_worker(exe, args, &[("worker", "0".into()), ("nworkers", "1".into()), ("single", i.to_string())]);
                        drive_with(ch, again, Duration::from_secs(20));
                    }
                });
            }
        });
        for (i, o2) in again.into_inner().unwrap() {
            if o2.code != results[&i].code {
                sum.count("abnormal_outcome_revised_on_rerun");
                results.insert(i, o2);
            }
        }
    }

    // ---- isolated re-runs under RLIMIT_AS = 1 GiB for a sample of the resource findings ----
    let mut isolated: BTreeMap<usize, Obs> = BTreeMap::new();
    if wanted.is_none() {
        let mut picks: Vec<usize> = Vec::new();
        let mut per_kind: BTreeMap<&str, usize> = BTreeMap::new();
        for (i, o) in &results {
            let b = &bases[cases[*i].base];
            let big = o.max_alloc > 0 && (o.max_alloc as usize) > 16 * b.bytes.len() + BIG;
            if big {
                let n = per_kind.entry(cases[*i].kind).or_insert(0);
                if *n < 4 {
                    *n += 1;
                    picks.push(*i);
                }
            }
        }
        let iso: Mutex<BTreeMap<usize, Obs>> = Mutex::new(BTreeMap::new());
        std::thread::scope(|s| {
            for chunk in picks.chunks(picks.len().max(1).div_ceil(8)) {
                let (exe, args, iso) = (&exe, &args, &iso);
                s.spawn(move || {
                    for &i in chunk {
                        let ch = spawn_worker(exe, args, &[("worker", "0".into()), ("nworkers", "1".into()), ("single", i.to_string()), ("limit", "1".into())]);
                        drive(ch, iso);
                    }
                });
            }
        });
        isolated = iso.into_inner().unwrap();
    }

    // ---- oracle + summary ----
    let mut model_known: Vec<u64> = Vec::new();
    let mut sample_kinds: std::collections::HashSet<&str> = Default::default();
    let mut zst_images: BTreeMap<usize, Vec<u8>> = BTreeMap::new();
    for (i, c) in cases.iter().enumerate() {
        let Some(o) = results.get(&i) else { continue };
        let b = &bases[c.base];
        let file = patched(&b.bytes, c);
        sum.evaluations += 1;
        sum.count(&format!("fmt_{}", b.fm.ext()));
        sum.count(&format!("kind_{}", c.kind));
        sum.count(&format!("outcome_{}", ["ok", "err", "panic", "abort", "timeout", "alloc-abort"][o.code as usize]));
        if !file.is_empty() && file != b.bytes {
            sum.nontrivial(&format!("{}:{:?}", b.fm.ext(), file));
        }
        let cj = || json!({"base": b.label, "format": b.fm.ext(), "kind": c.kind, "off": c.off, "del": c.del, "ins": c.ins, "file_len": file.len(),
                            "file_hex": file.iter().take(400).map(|x| format!("{:02x}", x)).collect::<String>()});
        let inner: Option<Vec<u8>> = match b.fm {
            Fm::Bin => Some(file.clone()),
            Fm::Zst => zstd::decode_all(&file[..]).ok(),
            _ => None,
        };
        if b.fm == Fm::Zst {
            sum.count(if inner.is_some() { "zst_decodable" } else { "zst_undecodable" });
        }
        if let Some(img) = &inner {
            if b.fm == Fm::Zst && img.len() <= 4000 {
                zst_images.insert(i, img.clone());
            }
        }
        if let Some((cls, what)) = classify(b.fm, &file, inner.as_deref(), o) {
            sum.finding(cls, i as u64, what, cj());
            log.log(i as u64, cj());
        }
        if let Some(io) = isolated.get(&i) {
            sum.count(&format!("isolated_outcome_{}", ["ok", "err", "panic", "abort", "timeout", "alloc-abort"][io.code as usize]));
            if let Some((cls, what)) = classify(b.fm, &file, inner.as_deref(), io) {
                sum.finding(cls, i as u64, format!("[RLIMIT_AS=1GiB] {}", what), cj());
            }
        }
        if sample_kinds.insert(c.kind) {
            sum.sample(json!({"case": cj(), "outcome": o.code, "max_big_alloc": o.max_alloc, "msg": o.msg}));
        }
        let _ = &mut model_known;
    }
    let missing = cases.len() - results.len();
    if missing > 0 && wanted.is_none() {
        sum.notes.push(format!("{} cases produced no observation", missing));
        sum.finding("harness-incomplete", 0, format!("{} cases without observation", missing), json!({}));
    }

    // ---- Coq shards: binary format only ----
    if wanted.is_none() {
        let bin_bases: Vec<usize> = (0..bases.len()).filter(|k| bases[*k].fm == Fm::Bin).collect();
        let pos: BTreeMap<usize, usize> = bin_bases.iter().enumerate().map(|(p, k)| (*k, p)).collect();
        let bin_cases: Vec<usize> = (0..cases.len())
            .filter(|i| results.contains_key(i) && (bases[cases[*i].base].fm == Fm::Bin || zst_images.contains_key(i)))
            .collect();
        let nshards = 16usize;
        let per = bin_cases.len().div_ceil(nshards).max(1);
        for (k, chunk) in bin_cases.chunks(per).enumerate() {
            let mut s = String::new();
            s.push_str("From Coq Require Import List ZArith.\nImport ListNotations.\nOpen Scope Z_scope.\nFrom VibeSQL Require Import Run.C20Run.\n");
            s.push_str("Definition bases : list (list Z) := [\n");
            s.push_str(&bin_bases.iter().map(|b| bytes_lit(&bases[*b].bytes)).collect::<Vec<_>>().join(";\n"));
            s.push_str(";\n[]"); // the empty base: zstd-decoded images are given in full
            s.push_str("].\nDefinition cases : list c20_case := [\n");
            let mut lines = Vec::new();
            for &i in chunk {
                let c = &cases[i];
                let o = &results[&i];
                let al = if o.max_bytes < 0 { "(-1)".to_string() } else { o.max_bytes.to_string() };
                if let Some(img) = zst_images.get(&i) {
                    lines.push(format!("mkCase {} {} 0 0 {} {} {} {}", i, bin_bases.len(), bytes_lit(img), o.code, al, if o.sig < 0 { "(-1)".to_string() } else { o.sig.to_string() }));
                } else {
                    lines.push(format!("mkCase {} {} {} {} {} {} {} {}", i, pos[&c.base], c.off, c.del, bytes_lit(&c.ins), o.code, al, if o.sig < 0 { "(-1)".to_string() } else { o.sig.to_string() }));
                }
            }
            s.push_str(&lines.join(";\n"));
            s.push_str("].\nEval vm_compute in (c20_mismatches bases cases).\n");
            write_shard(&args, k, &s);
            sum.model_cases += chunk.len() as u64;
        }
    }
    results.clear();
    sum.write(&args);
}
