//! C02: query results must not depend on which secondary indexes exist.  Twin databases are built
//! from one generated history (DDL + DML); only one of them gets the CREATE INDEX statements.  A
//! battery of WHERE shapes x ORDER BY runs on both; the final state is also the database of the
//! reference semantics, against which the indexed side is compared in Coq.
use serde_json::json;
use std::collections::BTreeMap;
use vh::out::*;
use vh::qgen::*;
use vh::rng::Rng;
use vh::semrun::*;
use vh::sql::{self, Outcome};
use vibesql_storage::Database;

fn bag(rows: &[Vec<Val>]) -> BTreeMap<String, i64> {
    let mut m = BTreeMap::new();
    for r in rows {
        *m.entry(format!("{:?}", r)).or_insert(0) += 1;
    }
    m
}

fn lit(v: &Val) -> String {
    match v {
        Val::Int(i) if *i < 0 => format!("(0 - {})", -i),
        _ => sql_lit(v),
    }
}

/// Contents of tab<i> read back through SELECT * (the state both sides must agree on).
fn snapshot(db: &mut Database, d: &DbDef) -> Option<DbDef> {
    let mut tables = Vec::new();
    for (i, t) in d.tables.iter().enumerate() {
        match observe(db, &format!("SELECT * FROM tab{}", i)) {
            Obs::Rows(rows) => tables.push(TableDef { cols: t.cols.clone(), rows }),
            _ => return None,
        }
    }
    Some(DbDef { tables })
}

fn main() {
    let args = parse_args();
    quiet_panics();
    let mut sum = Summary::default();
    sum.nontrivial_rule = "a case is (history of DDL/DML with interleaved CREATE INDEX, query); distinct = distinct (final table contents, index DDL, SQL of the query); non-trivial = the query's WHERE or ORDER BY mentions an indexed column and the result is a non-empty proper subset of the table (or an ordered result of at least 3 rows)".into();
    let mut log = CaseLog::new(&args);
    let nhist = if args.thorough { 1500 } else { 220 };
    let nshards = 16;
    let mut shards: Vec<String> = (0..nshards).map(|_| String::from(SHARD_HEADER)).collect();
    let mut shard_lists: Vec<Vec<String>> = (0..nshards).map(|_| Vec::new()).collect();
    let mut id: u64 = 0;
    let nocfg = GenCfg { subqueries: false, setops: false, grouping: false, order: false, limit: false, distinct: false, ..GenCfg::default() };
    for k in 0..nhist {
        let mut r = Rng::new(args.seed, &format!("c02/h/{}", k));
        // schema: 1-2 tables; data arrives through the history
        let mut dbdef = gen_db(&mut r, 2, 0);
        for t in dbdef.tables.iter_mut() {
            t.rows.clear();
        }
        let mut a = Database::new(); // with indexes
        let mut b = Database::new(); // without
        for s in create_sql(&dbdef) {
            sql::must(&mut a, &s);
            sql::must(&mut b, &s);
        }
        let mut index_ddl: Vec<String> = Vec::new();
        let mut indexed_cols: Vec<(usize, usize)> = Vec::new();
        let nsteps = 6 + r.below(14) as usize;
        let mut history: Vec<String> = Vec::new();
        let mut diverged = false;
        for step in 0..nsteps {
            let t = r.below(dbdef.tables.len() as u64) as usize;
            let cols = dbdef.tables[t].cols.clone();
            let stmt = match r.below(10) {
                0..=4 => {
                    // multi-row INSERT (non-negative literals; negatives come from UPDATE)
                    let nrows = 1 + r.below(4) as usize;
                    let rows: Vec<String> = (0..nrows)
                        .map(|_| {
                            format!(
                                "({})",
                                cols.iter()
                                    .map(|c| {
                                        let v = gen_val(&mut r, *c, 20);
                                        match v {
                                            Val::Int(i) if i < 0 => format!("{}", -i),
                                            other => sql_lit(&other),
                                        }
                                    })
                                    .collect::<Vec<_>>()
                                    .join(", ")
                            )
                        })
                        .collect();
                    format!("INSERT INTO tab{} VALUES {}", t, rows.join(", "))
                }
                5..=6 => {
                    let c = r.below(cols.len() as u64) as usize;
                    let wc = r.below(cols.len() as u64) as usize;
                    let newv = gen_val(&mut r, cols[c], 15);
                    let wv = gen_val(&mut r, cols[wc], 0);
                    let op = *r.pick(&["=", "<", ">=", "<>"]);
                    format!("UPDATE tab{} SET c{} = {} WHERE c{} {} {}", t, c, lit(&newv), wc, op, lit(&wv))
                }
                7 => {
                    let wc = r.below(cols.len() as u64) as usize;
                    let wv = gen_val(&mut r, cols[wc], 0);
                    if r.chance(1, 8) {
                        format!("DELETE FROM tab{}", t)
                    } else {
                        format!("DELETE FROM tab{} WHERE c{} {} {}", t, wc, *r.pick(&["=", "<", ">"]), lit(&wv))
                    }
                }
                _ => {
                    // CREATE INDEX on the indexed side only
                    let n = 1 + r.below(cols.len().min(2) as u64) as usize;
                    let mut cs: Vec<usize> = (0..cols.len()).collect();
                    for i in 0..n {
                        let j = i + r.below((cs.len() - i) as u64) as usize;
                        cs.swap(i, j);
                    }
                    let unique = r.chance(1, 8);
                    let ddl = format!(
                        "CREATE {}INDEX ix{}_{} ON tab{} ({})",
                        if unique { "UNIQUE " } else { "" },
                        k,
                        step,
                        t,
                        cs[..n].iter().map(|c| format!("c{}{}", c, if r.chance(1, 4) { " DESC" } else { "" })).collect::<Vec<_>>().join(", ")
                    );
                    if sql::exec(&mut a, &ddl).is_ok() {
                        for c in &cs[..n] {
                            indexed_cols.push((t, *c));
                        }
                        index_ddl.push(ddl.clone());
                        history.push(format!("[indexed side only] {}", ddl));
                    }
                    continue;
                }
            };
            let oa = sql::exec(&mut a, &stmt);
            let ob = sql::exec(&mut b, &stmt);
            history.push(stmt.clone());
            // a UNIQUE index may legitimately reject a statement on the indexed side only: the twin
            // states then differ by design and the history stops being comparable
            if oa.is_ok() != ob.is_ok() {
                let unique_rejection = matches!(&oa, Outcome::Err(sql::ErrClass::Constraint, _)) || matches!(&oa, Outcome::Err(_, m) if m.to_lowercase().contains("unique"));
                if unique_rejection && index_ddl.iter().any(|d| d.contains("UNIQUE")) {
                    diverged = true;
                    break;
                }
                sum.finding("dml-outcome-differs", id, format!("statement succeeds on one side only: {} -> indexed {:?} / plain {:?}", stmt, oa.tag(), ob.tag()), json!({"history": history}));
                diverged = true;
                break;
            }
            if matches!(oa, Outcome::Panic(_)) || matches!(ob, Outcome::Panic(_)) {
                sum.finding("panic", id, format!("statement panicked: {}", stmt), json!({"history": history}));
            }
        }
        if diverged {
            sum.count("history:diverged-by-unique-index");
            continue;
        }
        sum.count(if index_ddl.is_empty() { "history:no-index" } else { "history:indexed" });
        // final states must agree (DML through indexes must not change table contents)
        let (sa, sb) = (snapshot(&mut a, &dbdef), snapshot(&mut b, &dbdef));
        let state = match (sa, sb) {
            (Some(x), Some(y)) => {
                if x.tables.iter().zip(y.tables.iter()).any(|(p, q)| bag(&p.rows) != bag(&q.rows)) {
                    sum.finding("table-contents-differ", id, "after the same history the two sides hold different rows".into(), json!({"history": history, "indexed": format!("{:?}", x.tables.iter().map(|t| &t.rows).collect::<Vec<_>>()), "plain": format!("{:?}", y.tables.iter().map(|t| &t.rows).collect::<Vec<_>>())}));
                }
                y
            }
            _ => continue,
        };
        // ---- query battery ----
        let mut cases = Vec::new();
        let nq = 14;
        for _ in 0..nq {
            let t = r.below(state.tables.len() as u64) as usize;
            let cols = state.tables[t].cols.clone();
            let w = cols.len();
            let mut from = vec![From::Table(t, w)];
            let mut tys = cols.clone();
            if r.chance(1, 5) {
                let t2 = r.below(state.tables.len() as u64) as usize;
                tys.extend(state.tables[t2].cols.clone());
                from.push(From::Table(t2, state.tables[t2].cols.len()));
            }
            // WHERE shapes on a (preferably indexed) column of the first table
            let pick_col = |r: &mut Rng| -> usize {
                let mine: Vec<usize> = indexed_cols.iter().filter(|(tt, _)| *tt == t).map(|(_, c)| *c).collect();
                if !mine.is_empty() && r.chance(3, 4) {
                    *r.pick(&mine)
                } else {
                    r.below(w as u64) as usize
                }
            };
            let c = pick_col(&mut r);
            let cty = cols[c];
            let col = Expr::Col(0, c);
            let konst = |r: &mut Rng| Expr::Const(gen_val(r, cty, 6));
            let shape = r.below(10);
            let cmp = |r: &mut Rng, flip: bool| {
                let op = *r.pick(&[BinOp::Eq, BinOp::Lt, BinOp::Le, BinOp::Gt, BinOp::Ge, BinOp::Ne]);
                let k = konst(r);
                if flip {
                    Expr::Bin(op, Box::new(k), Box::new(col.clone()))
                } else {
                    Expr::Bin(op, Box::new(col.clone()), Box::new(k))
                }
            };
            let where_ = match shape {
                0..=2 => cmp(&mut r, false),
                3 => cmp(&mut r, true),
                4 => Expr::Between(Box::new(col.clone()), Box::new(konst(&mut r)), Box::new(konst(&mut r)), r.chance(1, 5)),
                5 => Expr::InList(Box::new(col.clone()), (0..1 + r.below(3)).map(|_| konst(&mut r)).collect(), r.chance(1, 5)),
                6 => Expr::Bin(BinOp::And, Box::new(cmp(&mut r, false)), Box::new(cmp(&mut r, false))),
                7 => Expr::Bin(BinOp::Or, Box::new(cmp(&mut r, false)), Box::new(cmp(&mut r, false))),
                8 => Expr::IsNull(Box::new(col.clone()), r.chance(1, 2)),
                _ => {
                    let scopes = vec![tys.clone()];
                    let mut g = Gen { r: &mut r, db: &state, cfg: nocfg.clone() };
                    let e = g.expr(Ty::Bool, &scopes, 2);
                    Expr::Bin(BinOp::And, Box::new(cmp(g.r, false)), Box::new(e))
                }
            };
            // projection: all columns of the first table (so ORDER BY keys are visible)
            let proj: Vec<Expr> = (0..w).map(|i| Expr::Col(0, i)).collect();
            let mut sel = Select { distinct: r.chance(1, 8), from, where_: if r.chance(1, 10) { None } else { Some(where_) }, grouping: None, having: None, proj, order: vec![], limit: None, offset: None };
            if r.chance(1, 2) {
                let nk = 1 + r.below(w.min(2) as u64) as usize;
                let mut pos: Vec<usize> = (0..w).collect();
                // prefer the indexed column as first key
                pos.swap(0, c);
                sel.order = pos[..nk].iter().map(|p| (*p, r.chance(2, 5))).collect();
                if r.chance(1, 4) {
                    sel.limit = Some(r.below(4) as usize);
                    if r.chance(1, 2) {
                        sel.offset = Some(r.below(3) as usize);
                    }
                }
            }
            let q = Query::Select(sel.clone());
            let style = r.below(3) as u8;
            let text = to_sql_styled(&q, style);
            let this = id;
            id += 1;
            if let Some(only) = &args.only {
                if !only.contains(&this) {
                    continue;
                }
            }
            let oa = observe(&mut a, &text);
            let ob = observe(&mut b, &text);
            sum.evaluations += 2;
            let case = json!({"classes": Vec::<&str>::new(), "history": history, "index_ddl": index_ddl, "sql": text, "final_tables": state.tables.iter().map(|t| format!("{:?}", t.rows)).collect::<Vec<_>>(), "indexed": obs_text(&oa), "plain": obs_text(&ob)});
            log.log(this, case.clone());
            if args.only.is_some() {
                let t = format!("{}Definition d : db := {}.\nEval vm_compute in (sem_expected d {}).\n", SHARD_HEADER, coq_db(&state), coq_query(&q));
                std::fs::write(args.out.join(format!("only_{}.v", this)), t).unwrap();
                println!("case {}: {}\n  indexes: {:?}\n  indexed: {}\n  plain:   {}", this, text, index_ddl, obs_text(&oa), obs_text(&ob));
            }
            cases.push(format!("({}, {}, {})", this, coq_query(&q), coq_obs(&oa)));
            sum.model_cases += 1;
            sum.count(&format!("where-shape:{}", ["cmp", "cmp", "cmp", "cmp-flipped", "between", "in-list", "and", "or", "is-null", "mixed"][shape as usize]));
            // ---- the property on the implementation: A and B agree ----
            match (&oa, &ob) {
                (Obs::Rows(ra), Obs::Rows(rb)) => {
                    let order = &sel.order;
                    let keys = |rows: &Vec<Vec<Val>>| -> Vec<Vec<Val>> { rows.iter().map(|x| order.iter().map(|(i, _)| x[*i].clone()).collect()).collect() };
                    let limited = sel.limit.is_some() || sel.offset.is_some();
                    let differs = if limited { keys(ra) != keys(rb) || ra.len() != rb.len() } else { bag(ra) != bag(rb) || (!order.is_empty() && keys(ra) != keys(rb)) };
                    if differs {
                        sum.finding("index-changes-result", this, "the same query on the same data returns different rows (or a different key order) when indexes exist".into(), case.clone());
                    }
                    let full = state.tables[t].rows.len();
                    let mentions_index = indexed_cols.iter().any(|(tt, cc)| *tt == t && *cc == c);
                    if mentions_index && ((!rb.is_empty() && rb.len() < full) || (!order.is_empty() && rb.len() >= 3)) {
                        sum.nontrivial(&format!("{}|{:?}|{}", coq_db(&state), index_ddl, text));
                    }
                    if sum.samples.len() < 4 && mentions_index && rb.len() >= 2 {
                        sum.sample(case.clone());
                    }
                }
                (Obs::Err(_), Obs::Err(_)) => sum.count("query:both-error"),
                (Obs::Panic(m), _) | (_, Obs::Panic(m)) => sum.finding("panic", this, format!("query panicked: {}", m), case.clone()),
                _ => sum.finding("index-changes-result", this, "the query succeeds on one side only".into(), case.clone()),
            }
        }
        if !cases.is_empty() && args.only.is_none() {
            let s = k % nshards;
            shards[s].push_str(&format!("Definition db{} : db := {}.\nDefinition cs{} : list (Z * query * obs) := [\n{}].\n", k, coq_db(&state), k, cases.join(";\n")));
            shard_lists[s].push(format!("(db{}, cs{})", k, k));
        }
    }
    // ---- DOUBLE PRECISION keys (outside the reference subset: the twin comparison is the oracle) ----
    // The index code normalises numeric keys to doubles and steps exclusive bounds to "the next value";
    // fractional keys, integer-valued keys next to them and literals of either numeric type exercise that.
    let ndbl = if args.thorough { 600 } else { 90 };
    for k in 0..ndbl {
        let mut r = Rng::new(args.seed, &format!("c02/dbl/{}", k));
        let mut a = Database::new();
        let mut b = Database::new();
        for db in [&mut a, &mut b] {
            sql::must(db, "CREATE TABLE td (a DOUBLE PRECISION, b INTEGER, c DOUBLE PRECISION)");
        }
        let nrows = 4 + r.below(14) as usize;
        let base = 100 + r.range(0, 30);
        let rows: Vec<String> = (0..nrows)
            .map(|_| {
                let q = |r: &mut Rng| if r.chance(1, 8) { "NULL".to_string() } else { format!("{:?}", (base * 4 + r.range(0, 12)) as f64 / 4.0 + if r.chance(1, 6) { 0.11 } else { 0.0 }) };
                format!("({}, {}, {})", q(&mut r), if r.chance(1, 8) { "NULL".to_string() } else { r.range(0, 5).to_string() }, q(&mut r))
            })
            .collect();
        let ins = format!("INSERT INTO td VALUES {}", rows.join(", "));
        sql::must(&mut a, &ins);
        sql::must(&mut b, &ins);
        let ddl = match r.below(5) {
            0 => "CREATE INDEX ixd ON td (a)".to_string(),
            1 => "CREATE INDEX ixd ON td (a, b)".to_string(),
            2 => "CREATE INDEX ixd ON td (a, c)".to_string(),
            3 => "CREATE INDEX ixd ON td (a DESC, b)".to_string(),
            _ => "CREATE INDEX ixd ON td (c, a)".to_string(),
        };
        if !sql::exec(&mut a, &ddl).is_ok() {
            continue;
        }
        sum.count("history:double-keys");
        for _ in 0..10 {
            let col = if ddl.contains("(c,") { "c" } else { "a" };
            let whole = base + r.range(0, 3);
            let lit = match r.below(4) {
                0 => format!("{}", whole),
                1 => format!("{}.0", whole),
                2 => format!("{:?}", whole as f64 + 0.25 * r.range(0, 4) as f64),
                _ => format!("{:?}", whole as f64 + 0.5),
            };
            let pred = match r.below(8) {
                0 => format!("{} > {}", col, lit),
                1 => format!("{} >= {}", col, lit),
                2 => format!("{} < {}", col, lit),
                3 => format!("{} <= {}", col, lit),
                4 => format!("{} < {}", lit, col),
                5 => format!("{} > {} AND {} < {}", col, lit, col, whole + 1),
                6 => format!("{} BETWEEN {} AND {}", col, lit, whole + 2),
                _ => format!("{} = {}", col, lit),
            };
            let ordered = r.chance(1, 2);
            let text = format!("SELECT a, b, c FROM td WHERE {}{}", pred, if ordered { format!(" ORDER BY {}", col) } else { String::new() });
            let this = id;
            id += 1;
            let (oa, ob) = (sql::exec(&mut a, &text), sql::exec(&mut b, &text));
            sum.evaluations += 2;
            let case = json!({"classes": Vec::<&str>::new(), "history": [ins.clone(), format!("[indexed side only] {}", ddl)], "index_ddl": [ddl.clone()], "sql": text, "indexed": format!("{:?}", oa.rows().map(|x| sql::canon_seq(x))), "plain": format!("{:?}", ob.rows().map(|x| sql::canon_seq(x)))});
            log.log(this, case.clone());
            match (oa.rows(), ob.rows()) {
                (Some(ra), Some(rb)) => {
                    let differs = sql::canon_bag(ra) != sql::canon_bag(rb) || (ordered && ra.iter().map(|x| sql::canon_value(&x[if col == "a" { 0 } else { 2 }])).collect::<Vec<_>>() != rb.iter().map(|x| sql::canon_value(&x[if col == "a" { 0 } else { 2 }])).collect::<Vec<_>>());
                    if differs {
                        sum.finding("index-changes-result", this, "the same query on the same data returns different rows (or a different key order) when indexes exist".into(), case.clone());
                    }
                    if !rb.is_empty() && rb.len() < nrows {
                        sum.nontrivial(&format!("dbl|{}|{}|{}", ins, ddl, text));
                    }
                }
                (None, None) => sum.count("query:both-error"),
                _ => sum.finding("index-changes-result", this, "the query succeeds on one side only".into(), case.clone()),
            }
        }
    }
    if args.only.is_none() {
        for s in 0..nshards {
            if !shard_lists[s].is_empty() {
                shards[s].push_str(&format!("Eval vm_compute in (sem_mismatches [{}]).\n", shard_lists[s].join("; ")));
                write_shard(&args, s, &shards[s]);
            }
        }
    }
    sum.write(&args);
}
