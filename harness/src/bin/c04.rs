//! C04: results do not depend on the parallelism configuration.
//! The parallel thresholds are read once per process (ParallelConfig::global, PARALLEL_THRESHOLD) and
//! the rayon pool is sized once per process (RAYON_NUM_THREADS), so the same generated workload is
//! executed in one child process per configuration (this binary with --role child); every query runs
//! twice in each child.  The parent compares the configurations with each other and sends the
//! never-parallel observation of every case — plus any observation that differs from it — to Coq,
//! where it is compared with the reference semantics.
use serde_json::{json, Value};
use std::collections::BTreeMap;
use std::io::{BufRead, Write};
use vh::out::*;
use vh::qgen::*;
use vh::rng::Rng;
use vh::semrun::*;

const CONFIGS: &[(&str, Option<&str>, &str)] = &[
    ("never-parallel", Some("max"), "1"),
    ("always-parallel-1-thread", Some("0"), "1"),
    ("always-parallel-2-threads", Some("0"), "2"),
    ("always-parallel-16-threads", Some("0"), "16"),
    ("threshold-100-4-threads", Some("100"), "4"),
    ("hardware-default-16-threads", None, "16"),
];

struct Case {
    id: u64,
    k: usize,
    q: Query,
    sql: String,
}

fn workload(seed: u64, thorough: bool) -> (Vec<DbDef>, Vec<Case>) {
    let ndb = if thorough { 600 } else { 60 };
    let per_db = 8;
    let mut dbs = Vec::new();
    let mut cases = Vec::new();
    let mut id = 0u64;
    for k in 0..ndb {
        let mut r = Rng::new(seed, &format!("c04/db/{}", k));
        // most databases are large enough for the operators to split their input
        let shape = k % 6;
        let dbdef = match shape {
            0 => gen_db(&mut r, 3, 6),
            1 | 2 => gen_db(&mut r, 2, 20),
            3 => gen_db_sized(&mut r, 2, 20, 30),
            _ => gen_db_sized(&mut r, 1, 100, 180),
        };
        for _ in 0..per_db {
            let cfg = match shape {
                0 => GenCfg::default(),
                1 | 2 => GenCfg { max_from: 2, ..GenCfg::default() },
                3 => GenCfg { max_from: 2, subqueries: false, ..GenCfg::default() },
                _ => GenCfg { max_from: 1, joins: false, subqueries: false, ..GenCfg::default() },
            };
            let depth = 1 + r.below(2) as usize;
            let (q, _) = {
                let mut g = Gen { r: &mut r, db: &dbdef, cfg };
                g.query(depth)
            };
            let sql = to_sql(&q);
            cases.push(Case { id, k, q, sql });
            id += 1;
        }
        dbs.push(dbdef);
    }
    (dbs, cases)
}

fn val_json(v: &Val) -> Value {
    match v {
        Val::Null => Value::Null,
        Val::Int(i) => json!(i),
        Val::Str(s) => json!(s),
        Val::Bool(b) => json!(b),
    }
}
fn json_val(v: &Value) -> Val {
    match v {
        Value::Null => Val::Null,
        Value::Bool(b) => Val::Bool(*b),
        Value::String(s) => Val::Str(s.clone()),
        other => Val::Int(other.as_i64().unwrap_or(0)),
    }
}
fn obs_json(o: &Obs) -> Value {
    match o {
        Obs::Rows(r) => json!({"rows": r.iter().map(|row| row.iter().map(val_json).collect::<Vec<_>>()).collect::<Vec<_>>()}),
        Obs::Err(m) => json!({"err": m}),
        Obs::Panic(m) => json!({"panic": m}),
        Obs::Alien(m) => json!({"alien": m}),
    }
}
fn json_obs(v: &Value) -> Obs {
    if let Some(r) = v.get("rows") {
        Obs::Rows(r.as_array().unwrap().iter().map(|row| row.as_array().unwrap().iter().map(json_val).collect()).collect())
    } else if let Some(m) = v.get("err") {
        Obs::Err(m.as_str().unwrap_or("").to_string())
    } else if let Some(m) = v.get("panic") {
        Obs::Panic(m.as_str().unwrap_or("").to_string())
    } else {
        Obs::Alien(v.get("alien").and_then(|m| m.as_str()).unwrap_or("").to_string())
    }
}

fn child(args: &Args) {
    quiet_panics();
    let (dbs, cases) = workload(args.seed, args.thorough);
    let name = args.extra.get("cfg").cloned().unwrap_or_default();
    let f = std::fs::File::create(args.out.join(format!("obs_{}.jsonl", name))).expect("obs file");
    let mut w = std::io::BufWriter::new(f);
    let mut cur: Option<(usize, vibesql_storage::Database)> = None;
    for c in &cases {
        if cur.as_ref().map(|(k, _)| *k) != Some(c.k) {
            cur = Some((c.k, load_db(&dbs[c.k])));
        }
        let db = &mut cur.as_mut().unwrap().1;
        let o1 = observe(db, &c.sql);
        let o2 = observe(db, &c.sql);
        writeln!(w, "{}", json!({"id": c.id, "first": obs_json(&o1), "second": obs_json(&o2)})).unwrap();
    }
    // second family (raw SQL, compared across configurations only): tables with an index, predicates whose
    // evaluation fails on some candidate rows (division by zero), larger inputs for the parallel index-scan
    // filter, sort and hash-join build
    for (fid, (setup, queries)) in extra_family(args.seed, args.thorough).iter().enumerate() {
        let mut db = vibesql_storage::Database::new();
        for st in setup {
            vh::sql::must(&mut db, st);
        }
        for (qi, q) in queries.iter().enumerate() {
            let o1 = observe(&mut db, q);
            let o2 = observe(&mut db, q);
            writeln!(w, "{}", json!({"id": 10_000_000 + fid * 100 + qi, "first": obs_json(&o1), "second": obs_json(&o2)})).unwrap();
        }
    }
    // what this process actually used
    writeln!(w, "{}", json!({"id": -1, "threads": rayon_threads(), "threshold_env": std::env::var("PARALLEL_THRESHOLD").ok()})).unwrap();
}

/// (setup statements, queries) of the raw-SQL family
fn extra_family(seed: u64, thorough: bool) -> Vec<(Vec<String>, Vec<String>)> {
    let n = if thorough { 40 } else { 8 };
    let mut out = Vec::new();
    for f in 0..n {
        let mut r = Rng::new(seed, &format!("c04/extra/{}", f));
        let nrows = 150 + r.below(250) as usize;
        let mut setup = vec!["CREATE TABLE te (k INTEGER, d INTEGER, s VARCHAR(10))".to_string(), "CREATE TABLE tf (k INTEGER, w INTEGER)".to_string()];
        let rows: Vec<String> = (0..nrows).map(|i| format!("({}, {}, '{}')", r.range(0, 60), if r.chance(1, 9) { 0 } else { r.range(1, 9) }, ["a", "b", "ab", ""][i % 4])).collect();
        for chunk in rows.chunks(50) {
            setup.push(format!("INSERT INTO te VALUES {}", chunk.join(", ")));
        }
        let rows2: Vec<String> = (0..(40 + r.below(80))).map(|_| format!("({}, {})", r.range(0, 60), r.range(0, 5))).collect();
        setup.push(format!("INSERT INTO tf VALUES {}", rows2.join(", ")));
        if f % 2 == 0 {
            setup.push("CREATE INDEX ixe ON te (k)".to_string());
        }
        if f % 4 == 1 {
            setup.push("CREATE INDEX ixf ON tf (k)".to_string());
        }
        let lo = r.range(0, 40);
        let queries = vec![
            format!("SELECT k, d FROM te WHERE k >= {} AND 100 DIV d > 10", lo),
            format!("SELECT k, d FROM te WHERE k >= {} AND d > 0 AND 100 DIV d > 10 ORDER BY k, d", lo),
            format!("SELECT COUNT(*), SUM(d) FROM te WHERE k < {}", lo + 10),
            format!("SELECT te.k, te.d, tf.w FROM te JOIN tf ON te.k = tf.k WHERE tf.w > 1 ORDER BY te.k, te.d, tf.w"),
            format!("SELECT k, COUNT(*), MIN(d), MAX(d) FROM te GROUP BY k ORDER BY k"),
            format!("SELECT DISTINCT s, d FROM te WHERE k BETWEEN {} AND {} ORDER BY s, d", lo, lo + 15),
            format!("SELECT k FROM te WHERE k IN (SELECT k FROM tf WHERE w = 2) ORDER BY k"),
            format!("SELECT k, d FROM te WHERE k = {} AND 7 DIV (d - 1) >= 0 ORDER BY d", lo),
        ];
        out.push((setup, queries));
    }
    out
}

fn rayon_threads() -> usize {
    std::env::var("RAYON_NUM_THREADS").ok().and_then(|s| s.parse().ok()).unwrap_or(0)
}

fn bag(rows: &[Vec<Val>]) -> BTreeMap<String, usize> {
    let mut m = BTreeMap::new();
    for r in rows {
        *m.entry(format!("{:?}", r)).or_insert(0) += 1;
    }
    m
}

fn top(q: &Query) -> Option<&Select> {
    match q {
        Query::Select(s) => Some(s),
        _ => None,
    }
}

fn main() {
    let args = parse_args();
    if args.extra.get("role").map(|s| s.as_str()) == Some("child") {
        child(&args);
        return;
    }
    quiet_panics();
    let mut sum = Summary::default();
    sum.nontrivial_rule = "a case is (database, query) executed twice in each of 6 processes (parallel threshold max / 0 / 100 / hardware default x rayon threads 1 / 2 / 4 / 16); distinct = distinct (db, SQL); non-trivial = the query reads a table of at least 40 rows (so the parallel operators split their input when enabled)".into();
    let mut log = CaseLog::new(&args);
    let (dbs, cases) = workload(args.seed, args.thorough);
    // one child per configuration, all at once
    let exe = std::env::current_exe().expect("current_exe");
    let mut children = Vec::new();
    for (name, thr, threads) in CONFIGS {
        let mut cmd = std::process::Command::new(&exe);
        cmd.arg("--role").arg("child").arg("--cfg").arg(name).arg("--seed").arg(args.seed.to_string()).arg("--tier").arg(if args.thorough { "thorough" } else { "quick" }).arg("--out").arg(&args.out);
        cmd.env("RAYON_NUM_THREADS", threads);
        match thr {
            Some(t) => {
                cmd.env("PARALLEL_THRESHOLD", t);
            }
            None => {
                cmd.env_remove("PARALLEL_THRESHOLD");
            }
        }
        cmd.stdout(std::process::Stdio::null());
        children.push((name, cmd.spawn().expect("spawn child")));
    }
    let mut obs: Vec<BTreeMap<u64, (Obs, Obs)>> = Vec::new();
    for (name, mut ch) in children {
        let st = ch.wait().expect("wait child");
        let mut m = BTreeMap::new();
        if let Ok(f) = std::fs::File::open(args.out.join(format!("obs_{}.jsonl", name))) {
            for line in std::io::BufReader::new(f).lines().flatten() {
                let v: Value = serde_json::from_str(&line).unwrap_or(Value::Null);
                let id = v.get("id").and_then(|x| x.as_i64()).unwrap_or(-2);
                if id >= 0 {
                    m.insert(id as u64, (json_obs(&v["first"]), json_obs(&v["second"])));
                }
            }
        }
        if !st.success() || m.len() < cases.len() {
            sum.finding("child-process-failed", 0, format!("configuration {} ended with {:?} after {} of {} cases", name, st.code(), m.len(), cases.len()), json!({"config": name}));
        }
        obs.push(m);
    }
    let nshards = 16;
    let mut shards: Vec<String> = (0..nshards).map(|_| String::from(SHARD_HEADER)).collect();
    let mut shard_lists: Vec<Vec<String>> = (0..nshards).map(|_| Vec::new()).collect();
    let mut per_db: BTreeMap<usize, Vec<String>> = BTreeMap::new();
    for c in &cases {
        let base = match obs[0].get(&c.id) {
            Some(o) => o,
            None => continue,
        };
        let selected = args.only.as_ref().map(|o| o.contains(&c.id)).unwrap_or(false);
        let big = dbs[c.k].tables.iter().any(|t| t.rows.len() >= 40);
        if big {
            sum.nontrivial(&format!("{}|{}", c.k, c.sql));
        }
        // a statement that hit the executor's 300 s timeout in some process (machine load) tells nothing
        let timed_out = obs.iter().any(|m| m.get(&c.id).map(|(a, b)| [a, b].iter().any(|o| matches!(o, Obs::Err(e) if e.contains("QueryTimeoutExceeded")))).unwrap_or(false));
        if timed_out {
            sum.count("skipped:query-timeout");
            continue;
        }
        let limited = fn_has_limit(&c.q);
        let ordered = top(&c.q).map(|s| !s.order.is_empty()).unwrap_or(false);
        let mut case = json!({"classes": Vec::<&str>::new(), "sql": c.sql, "create": create_sql(&dbs[c.k]), "table_sizes": dbs[c.k].tables.iter().map(|t| t.rows.len()).collect::<Vec<_>>(), "never_parallel": obs_text(&base.0)});
        let mut variants: Vec<(usize, &Obs)> = vec![(0, &base.0)];
        for (ci, m) in obs.iter().enumerate() {
            let (o1, o2) = match m.get(&c.id) {
                Some(x) => x,
                None => continue,
            };
            sum.evaluations += 2;
            // repeated execution in one process
            let same_repeat = match (o1, o2) {
                (Obs::Rows(a), Obs::Rows(b)) => bag(a) == bag(b) || limited,
                (Obs::Err(_), Obs::Err(_)) => true,
                (Obs::Panic(_), Obs::Panic(_)) => true,
                (Obs::Alien(_), Obs::Alien(_)) => true,
                _ => false,
            };
            if !same_repeat {
                case["config"] = json!(CONFIGS[ci].0);
                case["first"] = json!(obs_text(o1));
                case["second"] = json!(obs_text(o2));
                sum.finding("repeated-execution-differs", c.id, format!("[{}] the same query on the same state returned different results: {} vs {}", CONFIGS[ci].0, obs_text(o1), obs_text(o2)), case.clone());
            }
            if let Obs::Panic(m2) = o1 {
                sum.finding("panic", c.id, format!("[{}] executor panicked: {}", CONFIGS[ci].0, m2), case.clone());
            }
            if ci == 0 {
                continue;
            }
            // against the never-parallel configuration
            let agree = match (&base.0, o1) {
                (Obs::Rows(a), Obs::Rows(b)) => {
                    if limited {
                        a.len() == b.len() // which rows a LIMIT keeps among ties is free; Coq checks each against the reference
                    } else if ordered {
                        let s = top(&c.q).unwrap();
                        let keys = |rows: &Vec<Vec<Val>>| rows.iter().map(|r| s.order.iter().map(|(p, _)| format!("{:?}", r[*p])).collect::<Vec<_>>()).collect::<Vec<_>>();
                        bag(a) == bag(b) && keys(a) == keys(b)
                    } else {
                        bag(a) == bag(b)
                    }
                }
                (Obs::Err(_), Obs::Err(_)) => true,
                (Obs::Panic(_), Obs::Panic(_)) => true,
                (Obs::Alien(_), Obs::Alien(_)) => true,
                _ => false,
            };
            if !agree {
                case["config"] = json!(CONFIGS[ci].0);
                case["parallel"] = json!(obs_text(o1));
                sum.finding("result-depends-on-parallel-configuration", c.id, format!("[{}] differs from never-parallel: {} vs {}", CONFIGS[ci].0, obs_text(o1), obs_text(&base.0)), case.clone());
            }
            if obs_text(o1) != obs_text(&base.0) {
                sum.count("observations:differ-textually-from-never-parallel");
                variants.push((ci, o1));
            }
        }
        log.log(c.id, case.clone());
        if selected {
            println!("case {}: {}\n  sizes {:?}", c.id, c.sql, dbs[c.k].tables.iter().map(|t| t.rows.len()).collect::<Vec<_>>());
            for (ci, m) in obs.iter().enumerate() {
                if let Some((o1, _)) = m.get(&c.id) {
                    println!("  [{}] {}", CONFIGS[ci].0, obs_text(o1).chars().take(400).collect::<String>());
                }
            }
            let t = format!("{}Definition d : db := {}.\nEval vm_compute in (sem_expected d {}).\n", SHARD_HEADER, coq_db(&dbs[c.k]), coq_query(&c.q));
            std::fs::write(args.out.join(format!("only_{}.v", c.id)), t).unwrap();
        }
        // model: the never-parallel observation, and every observation that differs from it textually
        for (ci, o) in variants {
            // very large results make the shard's term too deep for coqc's stack: those cases keep the
            // cross-configuration comparison only
            if matches!(o, Obs::Rows(r) if r.len() > 250) {
                sum.count("model:skipped-result-over-250-rows");
                continue;
            }
            per_db.entry(c.k).or_default().push(format!("({}, {}, {})", c.id + 1_000_000 * ci as u64, coq_query(&c.q), coq_obs(o)));
            sum.model_cases += 1;
            if ci > 0 {
                log.log(c.id + 1_000_000 * ci as u64, json!({"classes": Vec::<&str>::new(), "sql": c.sql, "config": CONFIGS[ci].0, "observed": obs_text(o)}));
            }
        }
        let mut feats = Vec::new();
        features(&c.q, &mut feats);
        feats.sort();
        feats.dedup();
        for f in &feats {
            sum.count(&format!("feature:{}", f));
        }
        if sum.samples.len() < 4 && big && matches!(base.0, Obs::Rows(ref r) if r.len() > 1) {
            sum.sample(json!({"sql": c.sql, "table_sizes": dbs[c.k].tables.iter().map(|t| t.rows.len()).collect::<Vec<_>>()}));
        }
    }
    // raw-SQL family: outcome (rows as a bag, key sequence when ordered; or error) must not depend on the configuration
    for (fid, (_setup, queries)) in extra_family(args.seed, args.thorough).iter().enumerate() {
        for (qi, q) in queries.iter().enumerate() {
            let cid = (10_000_000 + fid * 100 + qi) as u64;
            let base = match obs[0].get(&cid) {
                Some(o) => o,
                None => continue,
            };
            let ordered = q.contains("ORDER BY");
            let show = |o: &Obs| obs_text(o).chars().take(300).collect::<String>();
            for (ci, m) in obs.iter().enumerate() {
                let (o1, o2) = match m.get(&cid) {
                    Some(x) => x,
                    None => continue,
                };
                sum.evaluations += 2;
                let same = |a: &Obs, b: &Obs| match (a, b) {
                    (Obs::Rows(x), Obs::Rows(y)) => bag(x) == bag(y) && (!ordered || x == y),
                    (Obs::Err(_), Obs::Err(_)) | (Obs::Panic(_), Obs::Panic(_)) | (Obs::Alien(_), Obs::Alien(_)) => true,
                    _ => false,
                };
                let case = json!({"classes": Vec::<&str>::new(), "family": "indexed / failing predicates (raw SQL)", "sql": q, "config": CONFIGS[ci].0, "never_parallel": show(&base.0), "this_config": show(o1)});
                if !same(o1, o2) {
                    sum.finding("repeated-execution-differs", cid, format!("[{}] the same query on the same state returned different results: {} vs {}", CONFIGS[ci].0, show(o1), show(o2)), case.clone());
                }
                if ci > 0 && !same(&base.0, o1) {
                    sum.finding("result-depends-on-parallel-configuration", cid, format!("[{}] differs from never-parallel: {} vs {}", CONFIGS[ci].0, show(o1), show(&base.0)), case.clone());
                }
                if ci == 0 {
                    log.log(cid, case);
                    sum.count(match &base.0 { Obs::Rows(_) => "extra-family:rows", Obs::Err(_) => "extra-family:error", _ => "extra-family:other" });
                }
            }
        }
    }
    sum.notes.push(format!("configurations: {:?}", CONFIGS.iter().map(|(n, t, th)| format!("{} (PARALLEL_THRESHOLD={:?}, RAYON_NUM_THREADS={})", n, t, th)).collect::<Vec<_>>()));
    if args.only.is_none() {
        // spread the work: heaviest databases first, each to the least loaded shard
        let mut order: Vec<(&usize, &Vec<String>)> = per_db.iter().collect();
        let weight = |k: &usize, cs: &Vec<String>| -> u64 { let n: u64 = dbs[*k].tables.iter().map(|t| t.rows.len() as u64).sum(); (n * n + 50) * cs.len() as u64 };
        order.sort_by_key(|(k, cs)| std::cmp::Reverse(weight(k, cs)));
        let mut load = vec![0u64; nshards];
        for (k, cs) in order {
            let s = (0..nshards).min_by_key(|i| load[*i]).unwrap();
            load[s] += weight(k, cs);
            shards[s].push_str(&format!("Definition db{} : db := {}.\n", k, coq_db(&dbs[*k])));
            for (i, c) in cs.iter().enumerate() {
                shards[s].push_str(&format!("Definition c{}_{} : Z * query * obs := {}.\n", k, i, c));
            }
            shards[s].push_str(&format!("Definition cs{} : list (Z * query * obs) := [{}].\n", k, (0..cs.len()).map(|i| format!("c{}_{}", k, i)).collect::<Vec<_>>().join("; ")));
            shard_lists[s].push(format!("(db{}, cs{})", k, k));
        }
        for s in 0..nshards {
            if !shard_lists[s].is_empty() {
                shards[s].push_str(&format!("Eval vm_compute in (sem_mismatches [{}]).\n", shard_lists[s].join("; ")));
                write_shard(&args, s, &shards[s]);
            }
        }
    }
    sum.write(&args);
}

fn fn_has_limit(q: &Query) -> bool {
    match q {
        Query::Select(s) => s.limit.is_some() || s.offset.is_some() || s.from.iter().any(from_has_limit),
        Query::SetOp(_, _, a, b) => fn_has_limit(a) || fn_has_limit(b),
    }
}
fn from_has_limit(f: &From) -> bool {
    match f {
        From::Sub(q, _) => fn_has_limit(q),
        From::Join(_, a, b, _) => from_has_limit(a) || from_has_limit(b),
        _ => false,
    }
}
