//! C14 -- ROLLBACK TO SAVEPOINT restores the state at the savepoint, keeps that savepoint, destroys
//! later ones; RELEASE changes no data.
//!
//! History = committed prefix -> BEGIN -> INSERT / UPDATE / DELETE interleaved with SAVEPOINT,
//! RELEASE and ROLLBACK TO (names drawn from three, so duplicates, release-then-rollback-to and
//! nesting are frequent) -> a liveness probe (RELEASE each name until it fails) -> COMMIT | ROLLBACK.
//! The reference kept by the harness is the trivially correct one: a stack of deep copies of the
//! table bags, one per live savepoint.  The property is evaluated on the engine against it; the Coq
//! shards replay the same histories on the model, which must predict every result code and every
//! observation (including the defective ones).
#[path = "../c13_txn.rs"]
mod txn;
use serde_json::json;
use txn::*;
use vh::out::*;
use vh::rng::Rng;
use vibesql_types::SqlValue;

/// what happened to table data since a savepoint was created, as far as the classifier cares
#[derive(Clone, Copy, PartialEq, Debug)]
enum Ev {
    CleanInsert,
    NormalisedInsert,
    PartialBatch,
    UnrecordedUpdDel,
    RecordedUpd,
    RecordedDel,
}

struct RefSp {
    name: i64,
    tabs: Vec<(i64, Vec<String>)>,
    seg: Vec<Ev>,
}

#[derive(Clone, Debug)]
enum Step {
    Plain(Op),
    /// UPDATE / DELETE executed through SQL, then recorded through `Database::record_change` the
    /// way an executor that recorded its changes would
    Recorded(Op),
}

fn gen_plan(seed: u64, id: u64) -> (Vec<Op>, Vec<Step>, Op) {
    let mut r = Rng::new(seed, &format!("c14/{}", id));
    let mut g = 0i64;
    let plain = r.chance(3, 5);
    let only_inserts = r.chance(1, 4); // insert-only bodies: the property must hold outright
    let mut prefix = Vec::new();
    for _ in 0..r.range(1, 5) {
        prefix.push(match r.below(10) {
            0..=6 => gen_insert(&mut r, &mut g, plain),
            7 => gen_create_index(&mut r),
            8 => gen_update(&mut r),
            _ => gen_delete(&mut r),
        });
    }
    let mut body = Vec::new();
    let nb = r.range(4, 18);
    // names the generator believes to be live (it does not track failures: a wrong belief only
    // makes a statement fail, which is also a case worth having)
    let mut live: Vec<i64> = Vec::new();
    let mut pick_name = |r: &mut Rng, live: &Vec<i64>| -> i64 {
        if !live.is_empty() && r.chance(4, 5) {
            *r.pick(live)
        } else {
            r.range(1, 3)
        }
    };
    for _ in 0..nb {
        let k = r.below(100);
        body.push(match k {
            0..=19 => {
                let n = r.range(1, 3);
                live.push(n);
                Step::Plain(Op::Savepoint(n))
            }
            20..=35 => {
                let n = pick_name(&mut r, &live);
                if let Some(p) = live.iter().position(|x| *x == n) {
                    live.truncate(p + 1);
                }
                Step::Plain(Op::RollbackTo(n))
            }
            36..=42 => {
                let n = pick_name(&mut r, &live);
                if let Some(p) = live.iter().position(|x| *x == n) {
                    live.remove(p);
                }
                Step::Plain(Op::Release(n))
            }
            43..=75 => Step::Plain(gen_insert(&mut r, &mut g, plain || only_inserts)),
            _ if only_inserts => Step::Plain(gen_insert(&mut r, &mut g, true)),
            76..=83 => Step::Plain(gen_update(&mut r)),
            84..=89 => Step::Plain(gen_delete(&mut r)),
            90..=92 => Step::Recorded(gen_update(&mut r)),
            93..=95 => Step::Recorded(gen_delete(&mut r)),
            96..=97 => {
                let t = if r.chance(2, 3) { 0 } else { 1 };
                Step::Plain(Op::ApiInsert(t, gen_api_row(&mut r, t, &mut g)))
            }
            98 => {
                let t = if r.chance(2, 3) { 0 } else { 1 };
                let n = r.range(2, 3);
                Step::Plain(Op::ApiBatch(t, (0..n).map(|_| gen_api_row(&mut r, t, &mut g)).collect()))
            }
            _ => Step::Plain(gen_create_index(&mut r)),
        });
    }
    let end = if r.chance(1, 2) { Op::Commit } else { Op::Rollback };
    (prefix, body, end)
}

fn main() {
    let args = parse_args();
    quiet_panics();
    let mut sum = Summary::default();
    sum.nontrivial_rule = "a case is one history (prefix, BEGIN, body with savepoint statements, liveness probe, COMMIT|ROLLBACK) with every statement's result and a full observation after every savepoint statement; distinct = distinct statement text; non-trivial = at least one ROLLBACK TO succeeded on a savepoint after whose creation some statement had changed rows".into();
    let mut log = CaseLog::new(&args);
    let n_hist: u64 = if args.thorough { 6000 } else { 400 };
    let nshards = std::cmp::max(16, (n_hist / 40) as usize);
    let mut shard_txt: Vec<Vec<String>> = vec![Vec::new(); nshards];
    for id in 0..n_hist {
        if let Some(only) = &args.only {
            if !only.contains(&id) {
                continue;
            }
        }
        let (prefix, body, end) = gen_plan(args.seed, id);
        let mut db = setup();
        let mut items: Vec<Item> = Vec::new();
        for op in &prefix {
            let code = op.exec(&mut db);
            items.push(Item { op: op.clone(), code, snap: None });
        }
        items.last_mut().unwrap().snap = Some(observe(&mut db));
        let code = Op::Begin.exec(&mut db);
        items.push(Item { op: Op::Begin, code, snap: None });

        let mut stack: Vec<RefSp> = Vec::new();
        let mut finding: Option<(String, String)> = None;
        let mut nontrivial = false;
        let case_of = |items: &Vec<Item>| json!({"history": items.iter().map(|it| json!([it.op.text(), it.code])).collect::<Vec<_>>()});

        let mut exec_one = |db: &mut vibesql_storage::Database, items: &mut Vec<Item>, stack: &mut Vec<RefSp>, op: &Op, recorded: bool, want_snap: bool,
                            finding: &mut Option<(String, String)>, nontrivial: &mut bool, sum: &mut Summary| {
            let before: Vec<(i64, Vec<Vec<SqlValue>>)> = (0..2).map(|t| (t, table_rows(db, t))).collect();
            let bags_before: Vec<(i64, Vec<String>)> = before.iter().map(|(t, r)| (*t, bag(r))).collect();
            let code = op.exec(db);
            items.push(Item { op: op.clone(), code, snap: None });
            let after: Vec<(i64, Vec<String>)> = (0..2).map(|t| (t, bag(&table_rows(db, t)))).collect();
            let changed = after != bags_before;
            match op {
                Op::Savepoint(n) => {
                    if code != 0 && finding.is_none() {
                        *finding = Some(("savepoint-mismatch".into(), format!("SAVEPOINT S{} inside a transaction returned {}", n, code)));
                    }
                    if changed && finding.is_none() {
                        *finding = Some(("savepoint-mismatch".into(), format!("SAVEPOINT S{} changed table data", n)));
                    }
                    stack.push(RefSp { name: *n, tabs: after.clone(), seg: Vec::new() });
                    if want_snap {
                        items.last_mut().unwrap().snap = Some(observe(db));
                    }
                }
                Op::Release(n) => {
                    let pos = stack.iter().position(|e| e.name == *n);
                    let want = if pos.is_some() { 0 } else { -1 };
                    if finding.is_none() {
                        if code != want {
                            *finding = Some(("release-mismatch".into(), format!("RELEASE SAVEPOINT S{} returned {} but the reference stack {:?} says {}", n, code, stack.iter().map(|e| e.name).collect::<Vec<_>>(), want)));
                        } else if changed {
                            *finding = Some(("release-changed-data".into(), format!("RELEASE SAVEPOINT S{} changed table data: {:?} -> {:?}", n, bags_before, after)));
                        }
                    }
                    if let Some(p) = pos {
                        stack.remove(p);
                    }
                    if want_snap {
                        items.last_mut().unwrap().snap = Some(observe(db));
                    }
                }
                Op::RollbackTo(n) => {
                    let pos = stack.iter().position(|e| e.name == *n);
                    match pos {
                        None => {
                            if finding.is_none() && (code != -1 || changed) {
                                *finding = Some(("rollback-to-mismatch".into(), format!("ROLLBACK TO SAVEPOINT S{} (no such savepoint in the reference) returned {} / changed data: {}", n, code, changed)));
                            }
                        }
                        Some(p) => {
                            let e = &stack[p];
                            if !e.seg.is_empty() && code == 0 {
                                *nontrivial = true;
                            }
                            if finding.is_none() && (code != 0 || after != e.tabs) {
                                let has = |k: Ev| e.seg.contains(&k);
                                let cls = if has(Ev::UnrecordedUpdDel) {
                                    "rollback-to-after-update-or-delete"
                                } else if has(Ev::RecordedUpd) {
                                    "undo-change-update-removes-old-row"
                                } else if has(Ev::NormalisedInsert) {
                                    "undo-normalised-insert"
                                } else if has(Ev::PartialBatch) {
                                    "api-batch-partial-insert-unrecorded"
                                } else {
                                    "rollback-to-mismatch"
                                };
                                *finding = Some((cls.into(), format!(
                                    "ROLLBACK TO SAVEPOINT S{} returned {}; tables are {:?} but were {:?} when the savepoint was created (statements since then: {:?})",
                                    n, code, after, e.tabs, e.seg)));
                            }
                            stack.truncate(p + 1);
                        }
                    }
                    if want_snap {
                        items.last_mut().unwrap().snap = Some(observe(db));
                    }
                }
                _ => {
                    // data statements: tell every live savepoint what happened since it was created
                    let ev = match op {
                        Op::Insert(t, rows) if code > 0 => {
                            Some(if rows.iter().any(|r| lit_row_normalised(*t, r)) { Ev::NormalisedInsert } else { Ev::CleanInsert })
                        }
                        Op::ApiInsert(t, r) if code > 0 => Some(if api_row_normalised(*t, r) { Ev::NormalisedInsert } else { Ev::CleanInsert }),
                        Op::ApiBatch(t, rs) if code > 0 => {
                            Some(if rs.iter().any(|r| api_row_normalised(*t, r)) { Ev::NormalisedInsert } else { Ev::CleanInsert })
                        }
                        // a batch (API call or multi-row INSERT) that got some rows in before a later
                        // row was rejected or made the table normaliser panic
                        Op::ApiBatch(..) | Op::Insert(..) | Op::ApiInsert(..) if code < 0 && changed => Some(Ev::PartialBatch),
                        Op::Update(..) if code > 0 => Some(if recorded { Ev::RecordedUpd } else { Ev::UnrecordedUpdDel }),
                        Op::Delete(..) if code > 0 => Some(if recorded { Ev::RecordedDel } else { Ev::UnrecordedUpdDel }),
                        _ => None,
                    };
                    if let Some(ev) = ev {
                        for e in stack.iter_mut() {
                            e.seg.push(ev);
                        }
                    }
                    if recorded && code > 0 {
                        // record what an executor that logged its changes would record
                        let recs: Vec<Op> = match op {
                            Op::Update(t, c, k, w) => before[*t as usize]
                                .1
                                .iter()
                                .filter(|r| matches_wc(r, w))
                                .map(|old| {
                                    let mut new = old.clone();
                                    new[*c] = SqlValue::Integer(*k);
                                    Op::ApiRecord(Change::Upd(*t, old.clone(), new))
                                })
                                .collect(),
                            Op::Delete(t, w) => before[*t as usize].1.iter().filter(|r| matches_wc(r, w)).map(|r| Op::ApiRecord(Change::Del(*t, r.clone()))).collect(),
                            _ => Vec::new(),
                        };
                        for rop in recs {
                            let c = rop.exec(db);
                            items.push(Item { op: rop, code: c, snap: None });
                        }
                    }
                }
            }
            sum.count(match code {
                -2 => "result_panic",
                -1 => "result_err",
                _ => "result_ok",
            });
        };

        for st in &body {
            let (op, recorded) = match st {
                Step::Plain(o) => (o, false),
                // --unrecorded 1: run these as plain statements (used to evaluate a repaired engine
                // whose executors record their own changes)
                Step::Recorded(o) => (o, !args.extra.contains_key("unrecorded")),
            };
            exec_one(&mut db, &mut items, &mut stack, op, recorded, true, &mut finding, &mut nontrivial, &mut sum);
        }
        // liveness probe: RELEASE every name until it fails; the number of successes per name must be
        // the multiplicity of the name in the reference stack
        for n in 1..=3 {
            loop {
                let live = stack.iter().any(|e| e.name == n);
                exec_one(&mut db, &mut items, &mut stack, &Op::Release(n), false, false, &mut finding, &mut nontrivial, &mut sum);
                if !live || items.last().unwrap().code != 0 {
                    break;
                }
            }
        }
        let code = end.exec(&mut db);
        items.push(Item { op: end.clone(), code, snap: Some(observe(&mut db)) });
        // probe: the transaction is over (SAVEPOINT must be refused)
        let open_after_end = db.in_transaction();
        let probe = Op::Savepoint(9);
        let probe_code = probe.exec(&mut db);
        items.push(Item { op: probe, code: probe_code, snap: None });
        if finding.is_none() && (code != 0 || open_after_end || probe_code != -1) {
            finding = Some(("transaction-left-open".into(), format!(
                "{} returned {}; afterwards in_transaction() = {}, SAVEPOINT S9 returned {}", end.text(), code, open_after_end, probe_code)));
        }
        sum.evaluations += 1;
        if let Some((cls, what)) = finding {
            sum.finding(&cls, id, what, case_of(&items));
        }
        let text: String = items.iter().map(|it| it.op.text()).collect::<Vec<_>>().join("; ");
        if nontrivial {
            sum.nontrivial(&text);
        }
        for it in &items {
            sum.count(match &it.op {
                Op::Begin | Op::Commit | Op::Rollback => "op_txn_control",
                Op::Savepoint(_) => "op_savepoint",
                Op::Release(_) => "op_release",
                Op::RollbackTo(_) => "op_rollback_to",
                Op::Insert(..) => "op_insert",
                Op::ApiInsert(..) | Op::ApiBatch(..) => "op_api_insert",
                Op::ApiRecord(..) => "op_api_record",
                Op::Update(..) => "op_update",
                Op::Delete(..) => "op_delete",
                Op::CreateIndex(..) | Op::DropIndex(_) => "op_index_ddl",
            });
        }
        if id < 3 {
            sum.sample(json!({"id": id, "history": items.iter().map(|it| json!([it.op.text(), it.code])).collect::<Vec<_>>()}));
        }
        log.log(id, case_of(&items));
        shard_txt[(id as usize) % nshards].push(coq_history(id, &items));
        sum.model_cases += items.len() as u64;
    }
    // scripted scenario (oracle only, not in the shards): the un-padded CHAR value reaches the storage
    // layer from plain SQL through INSERT ... SELECT between CHAR columns of different width
    let scen_id: u64 = 1_000_000;
    if args.only.as_ref().map(|o| o.contains(&scen_id)).unwrap_or(true) {
        let mut db = vibesql_storage::Database::new();
        let script = [
            "CREATE TABLE S (ID INTEGER, C CHAR(2))",
            "CREATE TABLE D (ID INTEGER, C CHAR(4))",
            "INSERT INTO S VALUES (1, 'ab')",
            "BEGIN",
            "SAVEPOINT S1",
            "INSERT INTO D SELECT * FROM S",
            "ROLLBACK TO SAVEPOINT S1",
        ];
        let mut trace = Vec::new();
        for sql in script {
            let o = vh::sql::exec(&mut db, sql);
            trace.push(json!([sql, o.tag()]));
        }
        let left = db.get_table("D").map(|t| t.row_count()).unwrap_or(0);
        sum.evaluations += 1;
        sum.count("scripted_scenarios");
        if left != 0 || trace.last().map(|t| t[1] != "ok").unwrap_or(true) {
            sum.finding(
                "undo-normalised-insert",
                scen_id,
                format!("INSERT INTO D SELECT * FROM S (CHAR(2) into CHAR(4)) after SAVEPOINT S1; ROLLBACK TO SAVEPOINT S1 -> {:?}, {} row(s) left in D", trace.last(), left),
                json!({"history": trace}),
            );
        }
        log.log(scen_id, json!({"history": trace}));
    }
    if args.only.is_none() {
        for (k, hs) in shard_txt.iter().enumerate() {
            let s = format!(
                "{} Run.C14Run.\nDefinition cases : list (Z * list item) := [\n{}].\nEval vm_compute in (c14_mismatches cases).\n",
                SHARD_HEADER,
                hs.join(";\n")
            );
            write_shard(&args, k, &s);
        }
    }
    sum.write(&args);
}
