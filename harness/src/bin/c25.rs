//! C25 correspondence + property oracle: the query result cache never serves a stale or foreign result.
//!
//! Real code executed here:
//!   * `vibesql_executor::cache::{QueryResultCache, QuerySignature, extract_tables_from_select}`;
//!   * the sqllogictest adapter itself: `tests/sqllogictest/db_adapter.rs` is compiled into this binary
//!     (`#[path]`, together with `formatting.rs`; the vendored `sqllogictest` crate of the repository
//!     provides `AsyncDB`/`DBOutput`).  `VibeSqlDB::run` is the protocol under test.
//!
//! Property oracle (on the implementation): every generated history of statements is run through two
//! real adapters, one with the cache enabled (`SQLLOGICTEST_CACHE_SIZE` = the history's capacity) and
//! one with `SQLLOGICTEST_CACHE_ENABLED=0`.  A statement whose two outputs differ (result bag, or
//! error vs no error) is a violation.  A second oracle replays the same history through the same
//! protocol with the executor crate's own extractor (`extract_tables_from_select`) in place of the
//! adapter's private FROM-only one, again with the real cache and the real signature.
//!
//! A violating read is classified by *repair simulation*: the history is replayed through a replica
//! of the protocol (real cache, real signature) with exactly one repair switched on; the class is
//! the first repair under which this read is answered correctly, and only if the unrepaired replica
//! reproduces the adapter's wrong answer (otherwise the slug is `replica-diverges-from-adapter`).
//! Anything no single repair explains is `result-mismatch`.
//!
//! Model tie (Coq shards, Run/C25Run.v): code point table (`char::is_whitespace`,
//! `char::to_lowercase`), signatures of random texts, per pooled query the signature and both
//! extractors' table sets, raw cache traces with the observed eviction victims, and for every history
//! the replica's hit/miss/returned-rows/victim sequence under both extractors.
#[allow(dead_code, unused_imports, unused_variables)]
mod slt {
    /// stands in for tests/sqllogictest/execution.rs (which drags in the whole suite runner): only the
    /// error type the adapter names is needed
    pub mod execution {
        #[derive(Debug)]
        pub enum TestError {
            Execution(String),
            Timeout { file: String, timeout_seconds: u64 },
        }
        impl std::fmt::Display for TestError {
            fn fmt(&self, f: &mut std::fmt::Formatter<'_>) -> std::fmt::Result {
                write!(f, "{:?}", self)
            }
        }
        impl std::error::Error for TestError {}
    }
    #[path = "/repo/tests/sqllogictest/formatting.rs"]
    pub mod formatting;
    #[path = "/repo/tests/sqllogictest/db_adapter.rs"]
    pub mod db_adapter;
}

use serde_json::{json, Value};
use sqllogictest::{AsyncDB, DBOutput};
use std::collections::{BTreeMap, BTreeSet, HashMap, HashSet};
use std::fmt::Write as _;
use vh::out::*;
use vh::rng::Rng;
use vibesql_ast::{Expression, FromClause, SelectItem, SelectStmt, Statement};
use vibesql_catalog::TableSchema;
use vibesql_executor::cache::{extract_tables_from_select, QueryResultCache, QuerySignature};
use vibesql_executor::schema::CombinedSchema;
use vibesql_parser::Parser;
use vibesql_storage::Row;
use vibesql_types::SqlValue;

// ------------------------------------------------------------------------------------------------
// printing
// ------------------------------------------------------------------------------------------------
fn cs(s: &str) -> String {
    let mut o = String::with_capacity(s.len() * 4 + 2);
    o.push('[');
    let mut first = true;
    for c in s.chars() {
        if !first {
            o.push(';');
        }
        first = false;
        if (c as u32) < 256 {
            o.push('c');
        }
        o.push_str(&(c as u32).to_string());
    }
    o.push(']');
    o
}
fn cbool(b: bool) -> &'static str {
    if b {
        "true"
    } else {
        "false"
    }
}
fn copt(o: Option<u64>) -> String {
    match o {
        Some(x) => format!("(Some {})", x),
        None => "None".into(),
    }
}
fn cnames(v: &[String]) -> String {
    format!("[{}]", v.iter().map(|s| cs(s)).collect::<Vec<_>>().join("; "))
}

// ------------------------------------------------------------------------------------------------
// protected regions of a SQL text (Rust twin of Lex/Normalize.v [classify]); used by the text
// perturbation and by the repaired signatures of the classifier
// ------------------------------------------------------------------------------------------------
#[derive(Clone, Copy, PartialEq, Eq, Debug)]
enum Reg {
    Code,
    SQ,
    DQ,
    BQ,
    Cmt,
}

/// every char with the region that protects it (None = plain code)
fn classify(s: &str) -> Vec<(char, Option<Reg>)> {
    let cs: Vec<char> = s.chars().collect();
    let mut out = Vec::with_capacity(cs.len());
    let mut st = Reg::Code;
    for i in 0..cs.len() {
        let c = cs[i];
        match st {
            Reg::Code => {
                if c == '\'' {
                    out.push((c, Some(Reg::SQ)));
                    st = Reg::SQ;
                } else if c == '"' {
                    out.push((c, Some(Reg::DQ)));
                    st = Reg::DQ;
                } else if c == '`' {
                    out.push((c, Some(Reg::BQ)));
                    st = Reg::BQ;
                } else if c == '-' && cs.get(i + 1) == Some(&'-') {
                    out.push((c, Some(Reg::Cmt)));
                    st = Reg::Cmt;
                } else {
                    out.push((c, None));
                }
            }
            Reg::SQ => {
                out.push((c, Some(Reg::SQ)));
                if c == '\'' {
                    st = Reg::Code;
                }
            }
            Reg::DQ => {
                out.push((c, Some(Reg::DQ)));
                if c == '"' {
                    st = Reg::Code;
                }
            }
            Reg::BQ => {
                out.push((c, Some(Reg::BQ)));
                if c == '`' {
                    st = Reg::Code;
                }
            }
            Reg::Cmt => {
                out.push((c, Some(Reg::Cmt)));
                if c == '\n' {
                    st = Reg::Code;
                }
            }
        }
    }
    out
}

/// quote-aware normaliser (the repair, Lex/Normalize.v [normalize_q]) restricted to the region kinds
/// in `protect`: white space is collapsed and case folded only outside those regions
fn normalize_q(s: &str, protect: &[Reg]) -> String {
    let marked: Vec<(char, bool)> =
        classify(s).into_iter().map(|(c, r)| (c, r.map(|k| protect.contains(&k)).unwrap_or(false))).collect();
    let mut words: Vec<String> = Vec::new();
    let mut cur = String::new();
    for (c, p) in marked {
        if !p && c.is_whitespace() {
            if !cur.is_empty() {
                words.push(std::mem::take(&mut cur));
            }
        } else if p {
            cur.push(c);
        } else {
            for d in c.to_lowercase() {
                cur.push(d);
            }
        }
    }
    if !cur.is_empty() {
        words.push(cur);
    }
    words.join(" ")
}

fn hex(s: &str) -> String {
    s.bytes().map(|b| format!("{:02x}", b)).collect()
}

// ------------------------------------------------------------------------------------------------
// the query tree the model sees (Store/CacheTables.v) and the adapter's own extractor
// ------------------------------------------------------------------------------------------------
enum Node {
    E(&'static str, Vec<Node>, Vec<Sel>),
}
enum Frm {
    Table(String),
    Join(Box<Frm>, Box<Frm>, Vec<Node>),
    Sub(Box<Sel>),
}
struct Sel {
    ctes: Vec<Sel>,
    items: Vec<Node>,
    frm: Vec<Frm>,
    whr: Vec<Node>,
    grp: Vec<Node>,
    hav: Vec<Node>,
    ord: Vec<Node>,
    setop: Vec<Sel>,
}

fn bx(e: &Expression) -> Node {
    conv_expr(e)
}
fn conv_expr(e: &Expression) -> Node {
    use Expression::*;
    match e {
        Literal(_) => Node::E("KLiteral", vec![], vec![]),
        ColumnRef { .. } => Node::E("KColumnRef", vec![], vec![]),
        BinaryOp { left, right, .. } => Node::E("KBinaryOp", vec![bx(left), bx(right)], vec![]),
        UnaryOp { expr, .. } => Node::E("KUnaryOp", vec![bx(expr)], vec![]),
        Function { args, .. } => Node::E("KFunction", args.iter().map(conv_expr).collect(), vec![]),
        AggregateFunction { args, .. } => Node::E("KAggregateFunction", args.iter().map(conv_expr).collect(), vec![]),
        IsNull { expr, .. } => Node::E("KIsNull", vec![bx(expr)], vec![]),
        Wildcard => Node::E("KWildcard", vec![], vec![]),
        Case { operand, when_clauses, else_result } => {
            let mut ch = Vec::new();
            if let Some(o) = operand {
                ch.push(bx(o));
            }
            for w in when_clauses {
                for c in &w.conditions {
                    ch.push(conv_expr(c));
                }
                ch.push(conv_expr(&w.result));
            }
            if let Some(o) = else_result {
                ch.push(bx(o));
            }
            Node::E("KCase", ch, vec![])
        }
        ScalarSubquery(q) => Node::E("KScalarSubquery", vec![], vec![conv_select(q)]),
        In { expr, subquery, .. } => Node::E("KIn", vec![bx(expr)], vec![conv_select(subquery)]),
        InList { expr, values, .. } => {
            let mut ch = vec![bx(expr)];
            ch.extend(values.iter().map(conv_expr));
            Node::E("KInList", ch, vec![])
        }
        Between { expr, low, high, .. } => Node::E("KBetween", vec![bx(expr), bx(low), bx(high)], vec![]),
        Cast { expr, .. } => Node::E("KCast", vec![bx(expr)], vec![]),
        Position { substring, string, .. } => Node::E("KPosition", vec![bx(substring), bx(string)], vec![]),
        Trim { removal_char, string, .. } => {
            let mut ch = Vec::new();
            if let Some(r) = removal_char {
                ch.push(bx(r));
            }
            ch.push(bx(string));
            Node::E("KTrim", ch, vec![])
        }
        Like { expr, pattern, .. } => Node::E("KLike", vec![bx(expr), bx(pattern)], vec![]),
        Exists { subquery, .. } => Node::E("KExists", vec![], vec![conv_select(subquery)]),
        QuantifiedComparison { expr, subquery, .. } => {
            Node::E("KQuantifiedComparison", vec![bx(expr)], vec![conv_select(subquery)])
        }
        CurrentDate => Node::E("KCurrentDate", vec![], vec![]),
        CurrentTime { .. } => Node::E("KCurrentTime", vec![], vec![]),
        CurrentTimestamp { .. } => Node::E("KCurrentTimestamp", vec![], vec![]),
        Interval { value, .. } => Node::E("KInterval", vec![bx(value)], vec![]),
        Default => Node::E("KDefault", vec![], vec![]),
        DuplicateKeyValue { .. } => Node::E("KDuplicateKeyValue", vec![], vec![]),
        WindowFunction { function, over } => {
            use vibesql_ast::WindowFunctionSpec as W;
            let args = match function {
                W::Aggregate { args, .. } | W::Ranking { args, .. } | W::Value { args, .. } => args,
            };
            let mut ch: Vec<Node> = args.iter().map(conv_expr).collect();
            if let Some(p) = &over.partition_by {
                ch.extend(p.iter().map(conv_expr));
            }
            if let Some(o) = &over.order_by {
                ch.extend(o.iter().map(|i| conv_expr(&i.expr)));
            }
            if let Some(fr) = &over.frame {
                use vibesql_ast::FrameBound as B;
                let mut bound = |b: &B| {
                    if let B::Preceding(e) | B::Following(e) = b {
                        ch.push(conv_expr(e));
                    }
                };
                bound(&fr.start);
                if let Some(e) = &fr.end {
                    bound(e);
                }
            }
            Node::E("KWindowFunction", ch, vec![])
        }
        NextValue { .. } => Node::E("KNextValue", vec![], vec![]),
        MatchAgainst { search_modifier, .. } => Node::E("KMatchAgainst", vec![bx(search_modifier)], vec![]),
        PseudoVariable { .. } => Node::E("KPseudoVariable", vec![], vec![]),
        SessionVariable { .. } => Node::E("KSessionVariable", vec![], vec![]),
    }
}
fn conv_from(f: &FromClause) -> Frm {
    match f {
        FromClause::Table { name, .. } => Frm::Table(name.clone()),
        FromClause::Join { left, right, condition, .. } => Frm::Join(
            Box::new(conv_from(left)),
            Box::new(conv_from(right)),
            condition.iter().map(conv_expr).collect(),
        ),
        FromClause::Subquery { query, .. } => Frm::Sub(Box::new(conv_select(query))),
    }
}
fn conv_select(s: &SelectStmt) -> Sel {
    Sel {
        ctes: s.with_clause.iter().flatten().map(|c| conv_select(&c.query)).collect(),
        items: s
            .select_list
            .iter()
            .filter_map(|i| if let SelectItem::Expression { expr, .. } = i { Some(conv_expr(expr)) } else { None })
            .collect(),
        frm: s.from.iter().map(conv_from).collect(),
        whr: s.where_clause.iter().map(conv_expr).collect(),
        grp: s.group_by.iter().flatten().map(conv_expr).collect(),
        hav: s.having.iter().map(conv_expr).collect(),
        ord: s.order_by.iter().flatten().map(|i| conv_expr(&i.expr)).collect(),
        setop: s.set_operation.iter().map(|o| conv_select(&o.right)).collect(),
    }
}
fn plist<T>(v: &[T], f: &dyn Fn(&T, &mut String), o: &mut String) {
    o.push('[');
    for (i, x) in v.iter().enumerate() {
        if i > 0 {
            o.push_str("; ");
        }
        f(x, o);
    }
    o.push(']');
}
fn print_node(n: &Node, o: &mut String) {
    let Node::E(k, ch, subs) = n;
    if ch.is_empty() && subs.is_empty() {
        let _ = write!(o, "(ENode {} [] [])", k);
        return;
    }
    let _ = write!(o, "(ENode {} ", k);
    plist(ch, &print_node, o);
    o.push(' ');
    plist(subs, &print_sel, o);
    o.push(')');
}
fn print_frm(f: &Frm, o: &mut String) {
    match f {
        Frm::Table(n) => {
            let _ = write!(o, "(FTable {})", cs(n));
        }
        Frm::Join(l, r, c) => {
            o.push_str("(FJoin ");
            print_frm(l, o);
            o.push(' ');
            print_frm(r, o);
            o.push(' ');
            plist(c, &print_node, o);
            o.push(')');
        }
        Frm::Sub(q) => {
            o.push_str("(FSub ");
            print_sel(q, o);
            o.push(')');
        }
    }
}
fn print_sel(s: &Sel, o: &mut String) {
    o.push_str("(Select ");
    plist(&s.ctes, &print_sel, o);
    o.push(' ');
    plist(&s.items, &print_node, o);
    o.push(' ');
    plist(&s.frm, &print_frm, o);
    for l in [&s.whr, &s.grp, &s.hav, &s.ord] {
        o.push(' ');
        plist(l, &print_node, o);
    }
    o.push(' ');
    plist(&s.setop, &print_sel, o);
    o.push(')');
}

fn base_name(n: &str) -> String {
    match n.rfind('.') {
        Some(p) => n[p + 1..].to_string(),
        None => n.to_string(),
    }
}

/// tests/sqllogictest/db_adapter.rs: extract_table_names / extract_table_names_from_from (private to the
/// adapter; transcribed.  The replica built on it is checked against the real adapter's answers on
/// every history, see `cross_check`)
fn adapter_tables(s: &SelectStmt) -> HashSet<String> {
    fn from(f: &FromClause, t: &mut HashSet<String>) {
        match f {
            FromClause::Table { name, .. } => {
                t.insert(base_name(name));
            }
            FromClause::Join { left, right, .. } => {
                from(left, t);
                from(right, t);
            }
            FromClause::Subquery { query, .. } => {
                t.extend(adapter_tables(query));
            }
        }
    }
    let mut t = HashSet::new();
    if let Some(f) = &s.from {
        from(f, &mut t);
    }
    t
}

/// table names below WindowFunction nodes (what the window repair adds to the crate extractor)
fn window_tables(s: &Sel, under: bool, out: &mut HashSet<String>) {
    fn node(n: &Node, under: bool, out: &mut HashSet<String>) {
        let Node::E(k, ch, subs) = n;
        let u = under || *k == "KWindowFunction";
        for c in ch {
            node(c, u, out);
        }
        for q in subs {
            window_tables(q, u, out);
        }
    }
    fn frm(f: &Frm, under: bool, out: &mut HashSet<String>) {
        match f {
            Frm::Table(n) => {
                if under {
                    out.insert(base_name(n));
                }
            }
            Frm::Join(l, r, c) => {
                frm(l, under, out);
                frm(r, under, out);
                for x in c {
                    node(x, under, out);
                }
            }
            Frm::Sub(q) => window_tables(q, under, out),
        }
    }
    for q in s.ctes.iter().chain(s.setop.iter()) {
        window_tables(q, under, out);
    }
    for f in &s.frm {
        frm(f, under, out);
    }
    for l in [&s.items, &s.whr, &s.grp, &s.hav, &s.ord] {
        for n in l {
            node(n, under, out);
        }
    }
}

// ------------------------------------------------------------------------------------------------
// the real adapter
// ------------------------------------------------------------------------------------------------
#[derive(Clone, PartialEq, Eq, Hash, Debug)]
enum Out {
    Rows(Vec<Vec<String>>), // sorted: the observation is the result bag
    Done(u64),
    Err,
}
impl Out {
    fn short(&self) -> String {
        match self {
            Out::Rows(r) => {
                let s = format!("{:?}", r);
                if s.len() > 160 {
                    format!("{}.. ({} rows)", &s[..160.min(s.len())], r.len())
                } else {
                    s
                }
            }
            Out::Done(n) => format!("ok({})", n),
            Out::Err => "error".into(),
        }
    }
}

struct RealAdapter {
    db: slt::db_adapter::VibeSqlDB,
    rt: tokio::runtime::Runtime,
}
impl RealAdapter {
    /// the adapter reads its configuration from the environment in `new()`
    fn new(cached: bool, cap: usize) -> RealAdapter {
        std::env::set_var("SQLLOGICTEST_CACHE_ENABLED", if cached { "1" } else { "0" });
        std::env::set_var("SQLLOGICTEST_CACHE_SIZE", cap.to_string());
        std::env::set_var("SQLLOGICTEST_QUERY_TIMEOUT_MS", "600000");
        std::env::remove_var("SQLLOGICTEST_VERBOSE");
        std::env::remove_var("SQLLOGICTEST_PROFILE");
        let rt = tokio::runtime::Builder::new_current_thread().enable_time().build().expect("harness: tokio runtime");
        RealAdapter { db: slt::db_adapter::VibeSqlDB::new(), rt }
    }
    fn run(&mut self, sql: &str) -> Out {
        let db = &mut self.db;
        let rt = &self.rt;
        let r = std::panic::catch_unwind(std::panic::AssertUnwindSafe(|| rt.block_on(db.run(sql))));
        match r {
            Ok(Ok(DBOutput::Rows { mut rows, .. })) => {
                rows.sort();
                Out::Rows(rows)
            }
            Ok(Ok(DBOutput::StatementComplete(n))) => Out::Done(n),
            Ok(Ok(_)) => Out::Done(0),
            Ok(Err(_)) => Out::Err,
            Err(_) => Out::Err,
        }
    }
}

// ------------------------------------------------------------------------------------------------
// histories
// ------------------------------------------------------------------------------------------------
#[derive(Clone, Copy, PartialEq, Eq, Debug)]
enum Mode {
    CleanAdapter,
    CleanCrate,
    Literal,
    QuotedId,
    Comment,
    View,
    FromOnly,
    Window,
    Rollback,
    Alter,
    Cascade,
}
const MODES: [Mode; 13] = [
    Mode::CleanAdapter,
    Mode::CleanCrate,
    Mode::Literal,
    Mode::QuotedId,
    Mode::Comment,
    Mode::View,
    Mode::FromOnly,
    Mode::Window,
    Mode::Rollback,
    Mode::Alter,
    Mode::Cascade,
    // the two modes in which every mismatch is a violation (and evictions happen) get double weight
    Mode::CleanAdapter,
    Mode::CleanCrate,
];

struct PQuery {
    text: String,
    stmt: SelectStmt,
    tree: Sel,
    hash: u64,
    crate_tables: Vec<String>,
    adapter_tables: Vec<String>,
    window_tables: Vec<String>,
}

#[derive(Clone)]
enum Stmt {
    Read(usize),   // pool index
    Other(String), // any other SQL text
}

/// what the protocol sees of one executed statement
#[derive(Clone)]
enum OpKind {
    Read(usize),
    Inval(String), // INSERT / UPDATE / DELETE / DROP TABLE target (stmt.table_name)
    Rollback,
    Alter(String),
    ViewDdl, // CREATE VIEW / DROP VIEW
    Quiet, // any other statement, and texts that do not parse (the adapter returns before touching the cache)
}

#[derive(Clone, Copy, PartialEq, Eq, Debug)]
enum Ext {
    Adapter,
    Crate,
    CrateWindow,
    AdapterViews,
    CrateViews,
}
#[derive(Clone, Copy, Debug)]
struct Variant {
    protect: &'static [Reg],
    ext: Ext,
    rollback: bool,
    alter: bool,
    cascade: bool,
    viewddl: bool,
}
const AS_CODED: Variant = Variant { protect: &[], ext: Ext::Adapter, rollback: false, alter: false, cascade: false, viewddl: false };
const AS_CODED_CRATE: Variant = Variant { protect: &[], ext: Ext::Crate, rollback: false, alter: false, cascade: false, viewddl: false };

struct Replay {
    hit: Vec<bool>,
    ret: Vec<Option<u64>>,
    victim: Vec<Option<u64>>,
    max_size: usize,
}

struct World {
    /// view name (upper case) -> tables its definition reads (adapter-style extraction), for the view repair
    views: HashMap<String, Vec<String>>,
    /// parent table -> child tables with ON DELETE CASCADE, for the cascade repair
    children: HashMap<String, Vec<String>>,
}

fn empty_schema() -> CombinedSchema {
    CombinedSchema::from_table("result".to_string(), TableSchema::new("result".to_string(), vec![]))
}

fn variant_sig(v: &Variant, text: &str) -> QuerySignature {
    if v.protect.is_empty() {
        QuerySignature::from_sql(text)
    } else {
        // hex text: no white space, no upper case, so from_sql's own normalisation is the identity on it
        QuerySignature::from_sql(&hex(&normalize_q(text, v.protect)))
    }
}

fn variant_tables(v: &Variant, q: &PQuery, w: &World) -> HashSet<String> {
    let mut t: HashSet<String> = match v.ext {
        Ext::Adapter | Ext::AdapterViews => q.adapter_tables.iter().cloned().collect(),
        Ext::Crate | Ext::CrateWindow | Ext::CrateViews => q.crate_tables.iter().cloned().collect(),
    };
    if v.ext == Ext::CrateWindow {
        t.extend(q.window_tables.iter().cloned());
    }
    if v.ext == Ext::AdapterViews || v.ext == Ext::CrateViews {
        // expand view names (to any depth)
        let mut todo: Vec<String> = t.iter().cloned().collect();
        let mut seen: HashSet<String> = HashSet::new();
        while let Some(n) = todo.pop() {
            if !seen.insert(n.to_uppercase()) {
                continue;
            }
            if let Some(ts) = w.views.get(&n.to_uppercase()) {
                for x in ts {
                    t.insert(x.clone());
                    todo.push(x.clone());
                }
            }
        }
    }
    t
}

/// the adapter protocol around the REAL QueryResultCache, with the real signature; `fresh[i]` is what
/// the uncached adapter returned for statement i (interned; None = error)
fn replay(cap: usize, pool: &[PQuery], ops: &[OpKind], fresh: &[Option<u64>], v: &Variant, w: &World) -> Replay {
    let cache = QueryResultCache::new(cap);
    let mut tracked: Vec<QuerySignature> = Vec::new();
    let mut r = Replay { hit: vec![], ret: vec![], victim: vec![], max_size: 0 };
    for (i, op) in ops.iter().enumerate() {
        let (mut hit, mut ret, mut victim) = (false, None, None);
        match op {
            OpKind::Read(qi) => {
                let q = &pool[*qi];
                let sig = variant_sig(v, &q.text);
                if let Some((rows, _)) = cache.get(&sig) {
                    hit = true;
                    ret = match rows.first().and_then(|r| r.values.first()) {
                        Some(SqlValue::Bigint(x)) => Some(*x as u64),
                        _ => panic!("harness: cached payload lost"),
                    };
                } else {
                    ret = fresh[i];
                    if let Some(id) = fresh[i] {
                        let ev0 = cache.stats().evictions;
                        cache.insert(
                            sig.clone(),
                            vec![Row::new(vec![SqlValue::Bigint(id as i64)])],
                            empty_schema(),
                            variant_tables(v, q, w),
                        );
                        if cache.stats().evictions > ev0 {
                            let gone: Vec<QuerySignature> =
                                tracked.iter().filter(|s| **s != sig && !cache.contains(s)).cloned().collect();
                            victim = Some(gone.first().map(|s| s.hash()).unwrap_or(sig.hash()));
                            if gone.len() > 1 {
                                panic!("harness: more than one entry evicted by a single insert");
                            }
                        }
                        tracked.retain(|s| cache.contains(s));
                        if !tracked.contains(&sig) {
                            tracked.push(sig);
                        }
                    }
                }
            }
            OpKind::Inval(t) => {
                cache.invalidate_table(t);
                if v.cascade {
                    if let Some(cs) = w.children.get(&t.to_uppercase()) {
                        for c in cs {
                            cache.invalidate_table(c);
                        }
                    }
                }
                tracked.retain(|s| cache.contains(s));
            }
            OpKind::Rollback => {
                if v.rollback {
                    cache.clear();
                    tracked.clear();
                }
            }
            OpKind::Alter(t) => {
                if v.alter {
                    cache.invalidate_table(t);
                    tracked.retain(|s| cache.contains(s));
                }
            }
            OpKind::ViewDdl => {
                if v.viewddl {
                    cache.clear();
                    tracked.clear();
                }
            }
            OpKind::Quiet => {}
        }
        r.max_size = r.max_size.max(cache.stats().size);
        r.hit.push(hit);
        r.ret.push(ret);
        r.victim.push(victim);
    }
    r
}

/// the repairs, in the order the classifier tries them, with the known-class slug each explains
fn repairs(base: &Variant) -> Vec<(&'static str, Variant)> {
    let crate_based = base.ext == Ext::Crate;
    let mut v = vec![
        ("signature-normalises-string-literals", Variant { protect: &[Reg::SQ], ..*base }),
        ("signature-normalises-quoted-identifiers", Variant { protect: &[Reg::DQ, Reg::BQ], ..*base }),
        ("signature-collapses-comment-newline", Variant { protect: &[Reg::Cmt], ..*base }),
    ];
    if !crate_based {
        v.push(("adapter-extractor-from-clause-only", Variant { ext: Ext::Crate, ..*base }));
    }
    v.push(("window-function-subquery-not-extracted", Variant { ext: Ext::CrateWindow, ..*base }));
    v.push((
        "view-not-expanded-for-invalidation",
        Variant { ext: if crate_based { Ext::CrateViews } else { Ext::AdapterViews }, ..*base },
    ));
    v.push(("rollback-not-invalidated", Variant { rollback: true, ..*base }));
    v.push(("alter-table-not-invalidated", Variant { alter: true, ..*base }));
    v.push(("fk-cascade-not-invalidated", Variant { cascade: true, ..*base }));
    v.push(("view-redefinition-not-invalidated", Variant { viewddl: true, ..*base }));
    v
}

// ------------------------------------------------------------------------------------------------
// generators
// ------------------------------------------------------------------------------------------------
const TABLES: [&str; 3] = ["t1", "t2", "t3"];
const LITS: [&str; 8] = ["ab", "AB", "a b", "a  b", "\u{c9}t\u{e9}", "\u{e9}t\u{e9}", "x", "\u{4e2d}"];

fn pick_t(r: &mut Rng) -> &'static str {
    TABLES[r.below(3) as usize]
}

/// queries whose tables all sit on the FROM spine (the adapter's extractor sees them all)
fn q_from_only(r: &mut Rng) -> String {
    let (t, u, k) = (pick_t(r), pick_t(r), r.below(6));
    match r.below(12) {
        0 => format!("SELECT * FROM {t}"),
        1 => format!("SELECT a, b FROM {t} WHERE a > {k}"),
        2 => format!("SELECT COUNT(*), SUM(b) FROM {t}"),
        3 => format!("SELECT x.a, y.b FROM {t} x JOIN {u} y ON x.a = y.a"),
        4 => format!("SELECT x.a, y.s FROM {t} x LEFT JOIN {u} y ON x.a = y.a WHERE x.b < {k}"),
        5 => format!("SELECT * FROM (SELECT a, b FROM {t} WHERE b > {k}) AS d"),
        6 => format!("SELECT a FROM {t} WHERE s = '{}'", LITS[r.below(8) as usize]),
        7 => format!("SELECT s, COUNT(*) FROM {t} GROUP BY s"),
        8 => format!("SELECT d.a FROM (SELECT a FROM {t}) AS d JOIN {u} y ON d.a = y.a"),
        9 => format!("SELECT a FROM {t} ORDER BY a"),
        10 => format!("SELECT 1 + {k}"),
        _ => format!("SELECT MAX(a), MIN(b) FROM {t} WHERE s <> '{}'", LITS[r.below(8) as usize]),
    }
}

/// queries with tables in sub-queries of every clause, CTEs and set operations (the crate extractor
/// sees them all; the adapter's does not)
fn q_everywhere(r: &mut Rng) -> String {
    let (t, u, w, k) = (pick_t(r), pick_t(r), pick_t(r), r.below(6));
    match r.below(16) {
        // (unqualified `a IN (SELECT a FROM u)` is avoided: the executor answers it differently from run to run)
        0 => format!("SELECT x.a FROM {t} x WHERE x.a IN (SELECT y.a FROM {u} y)"),
        1 => format!("SELECT a FROM {t} x WHERE EXISTS (SELECT 1 FROM {u} y WHERE y.a = x.a)"),
        2 => format!("SELECT a, (SELECT MAX(b) FROM {u}) FROM {t}"),
        3 => format!("SELECT a FROM {t} GROUP BY a HAVING a > (SELECT MIN(a) FROM {u})"),
        4 => format!("WITH c AS (SELECT a, b FROM {u}) SELECT * FROM c"),
        5 => format!("SELECT a FROM {t} UNION SELECT a FROM {u}"),
        6 => format!("SELECT a FROM {t} INTERSECT SELECT a FROM {u}"),
        7 => format!("SELECT a FROM {t} EXCEPT SELECT a FROM {u}"),
        8 => format!("SELECT CASE WHEN EXISTS (SELECT 1 FROM {u} WHERE b > {k}) THEN 1 ELSE 0 END"),
        9 => format!("SELECT a FROM {t} WHERE a > ALL (SELECT a FROM {u} WHERE b < {k})"),
        10 => format!("SELECT COALESCE((SELECT MAX(a) FROM {u}), 0) + (SELECT COUNT(*) FROM {t})"),
        11 => format!("SELECT a FROM {t} WHERE a BETWEEN (SELECT MIN(a) FROM {u}) AND {k}"),
        12 => format!("SELECT x.a FROM {t} x JOIN {u} y ON x.a = (SELECT MAX(a) FROM {w})"),
        13 => format!("SELECT a FROM {t} ORDER BY (SELECT COUNT(*) FROM {u}), a"),
        14 => format!("SELECT CAST((SELECT MAX(a) FROM {u}) AS VARCHAR(10)), TRIM((SELECT MIN(s) FROM {t}))"),
        _ => format!("SELECT a FROM {t} WHERE (SELECT MIN(s) FROM {u}) IS NULL OR a IN ({k}, (SELECT MAX(a) FROM {w})) OR -a = (SELECT 0)"),
    }
}

fn q_window(r: &mut Rng) -> String {
    let (t, u) = (pick_t(r), pick_t(r));
    // (sub-queries whose value moves with almost every write to `u`)
    match r.below(3) {
        0 => format!("SELECT a, SUM((SELECT COUNT(*) FROM {u})) OVER () FROM {t}"),
        1 => format!("SELECT a, SUM(a) OVER (ORDER BY (SELECT SUM(b) FROM {u})) + (SELECT 0) FROM {t}"),
        _ => format!("SELECT a, COUNT(*) OVER (PARTITION BY (SELECT COUNT(*) FROM {u})) + MAX((SELECT SUM(b) FROM {u})) OVER () FROM {t}"),
    }
}

fn q_view(r: &mut Rng) -> String {
    match r.below(4) {
        0 => "SELECT * FROM v1".into(),
        1 => "SELECT COUNT(*) FROM v2".into(),
        2 => "SELECT v1.a, y.b FROM v1 JOIN t3 y ON v1.a = y.a".into(),
        _ => "SELECT a FROM v3".into(),
    }
}

/// white space / case perturbation OUTSIDE protected regions: the same query
fn perturb(r: &mut Rng, s: &str) -> String {
    const WS: [&str; 8] = [" ", "  ", "\t", "\n", " \n ", "\u{a0}", "\u{2003} ", "\r\n"];
    let m = classify(s);
    let mut o = String::new();
    if r.chance(1, 3) {
        o.push_str(WS[r.below(8) as usize]);
    }
    let mut i = 0;
    while i < m.len() {
        let (c, p) = m[i];
        if p.is_none() && c.is_whitespace() {
            while i < m.len() && m[i].1.is_none() && m[i].0.is_whitespace() {
                i += 1;
            }
            if r.chance(1, 2) {
                o.push_str(WS[r.below(8) as usize]);
            } else {
                o.push(' ');
            }
            continue;
        }
        if p.is_none() && c.is_ascii_alphabetic() && r.chance(1, 3) {
            if c.is_ascii_uppercase() {
                o.push(c.to_ascii_lowercase());
            } else {
                o.push(c.to_ascii_uppercase());
            }
        } else {
            o.push(c);
        }
        i += 1;
    }
    if r.chance(1, 3) {
        o.push_str(WS[r.below(8) as usize]);
    }
    o
}

fn make_pquery(text: &str) -> Option<PQuery> {
    let stmt = match vh::sql::parse(text) {
        Ok(Statement::Select(s)) => *s,
        _ => return None,
    };
    let tree = conv_select(&stmt);
    let mut ct: Vec<String> = extract_tables_from_select(&stmt).into_iter().collect();
    ct.sort();
    let mut at: Vec<String> = adapter_tables(&stmt).into_iter().collect();
    at.sort();
    let mut wt = HashSet::new();
    window_tables(&tree, false, &mut wt);
    let mut wt: Vec<String> = wt.into_iter().collect();
    wt.sort();
    Some(PQuery {
        text: text.to_string(),
        hash: QuerySignature::from_sql(text).hash(),
        stmt,
        tree,
        crate_tables: ct,
        adapter_tables: at,
        window_tables: wt,
    })
}

/// the base texts of one group's pool (sibling texts that must NOT share an entry are generated together)
fn pool_bases(mode: Mode, r: &mut Rng) -> Vec<String> {
    let mut v = Vec::new();
    let n = 5 + r.below(4);
    match mode {
        Mode::CleanAdapter | Mode::Rollback => {
            for _ in 0..n {
                v.push(q_from_only(r));
            }
        }
        Mode::Alter => {
            for _ in 0..3 {
                v.push(q_from_only(r));
            }
            // ADD COLUMN changes what the wildcard expands to
            for t in TABLES {
                v.push(format!("SELECT * FROM {t}"));
            }
            v.push(format!("SELECT x.*, y.a FROM {} x JOIN {} y ON x.a = y.a", pick_t(r), pick_t(r)));
        }
        Mode::CleanCrate | Mode::FromOnly => {
            for _ in 0..n {
                v.push(if r.chance(2, 3) { q_everywhere(r) } else { q_from_only(r) });
            }
        }
        Mode::Literal => {
            for _ in 0..3 {
                v.push(q_from_only(r));
            }
            let pairs = [("ab", "AB"), ("a b", "a  b"), ("\u{c9}t\u{e9}", "\u{e9}t\u{e9}"), ("\u{130}", "i\u{307}"), ("x", "X")];
            for _ in 0..3 {
                let (a, b) = pairs[r.below(5) as usize];
                let t = pick_t(r);
                match r.below(3) {
                    0 => {
                        v.push(format!("SELECT '{a}'"));
                        v.push(format!("SELECT '{b}'"));
                    }
                    1 => {
                        v.push(format!("SELECT a FROM {t} WHERE s = '{a}'"));
                        v.push(format!("SELECT a FROM {t} WHERE s = '{b}'"));
                    }
                    _ => {
                        v.push(format!("SELECT COUNT(*) FROM {t} WHERE s <> '{a}'"));
                        v.push(format!("SELECT COUNT(*) FROM {t} WHERE s <> '{b}'"));
                    }
                }
            }
        }
        Mode::QuotedId => {
            for _ in 0..3 {
                v.push(q_from_only(r));
            }
            v.push("SELECT \"x\" FROM t4".into());
            v.push("SELECT \"X\" FROM t4".into());
            v.push("SELECT `x` + 1 FROM t4".into());
            v.push("SELECT `X` + 1 FROM t4".into());
        }
        Mode::Comment => {
            for _ in 0..3 {
                v.push(q_from_only(r));
            }
            for _ in 0..2 {
                let (t, k) = (pick_t(r), r.below(4));
                v.push(format!("SELECT a FROM {t} -- note\nWHERE a > {k}"));
                v.push(format!("SELECT a FROM {t} -- note WHERE a > {k}"));
                v.push(format!("SELECT a -- x\n+ {k} FROM {t}"));
                v.push(format!("SELECT a -- x + {k} FROM {t}\nFROM {t}"));
            }
        }
        Mode::View => {
            for _ in 0..2 {
                v.push(q_from_only(r));
            }
            for _ in 0..4 {
                v.push(q_view(r));
            }
        }
        Mode::Window => {
            for _ in 0..2 {
                v.push(q_from_only(r));
            }
            for _ in 0..5 {
                v.push(q_window(r));
            }
        }
        Mode::Cascade => {
            for _ in 0..2 {
                v.push(q_from_only(r));
            }
            v.push("SELECT * FROM ch".into());
            v.push("SELECT COUNT(*) FROM ch WHERE pid > 0".into());
            v.push("SELECT p.id, c.id FROM pa p JOIN ch c ON p.id = c.pid".into());
            v.push("SELECT * FROM pa".into());
        }
    }
    v
}

fn lit(r: &mut Rng) -> &'static str {
    LITS[r.below(8) as usize]
}

fn case_var(r: &mut Rng, s: &str) -> String {
    match r.below(3) {
        0 => s.to_string(),
        1 => s.to_uppercase(),
        _ => {
            let mut c = s.chars();
            match c.next() {
                Some(f) => f.to_uppercase().collect::<String>() + c.as_str(),
                None => String::new(),
            }
        }
    }
}

fn create_table(t: &str, wide: bool) -> String {
    if wide {
        format!("CREATE TABLE {t} (a INT, b INT, s VARCHAR(20), extra INT)")
    } else {
        format!("CREATE TABLE {t} (a INT, b INT, s VARCHAR(20))")
    }
}

fn random_write(mode: Mode, r: &mut Rng, dropped: &mut HashSet<&'static str>, in_txn: &mut bool, wide: &mut HashMap<&'static str, bool>) -> Vec<String> {
    let t = pick_t(r);
    let tn = case_var(r, t);
    if dropped.contains(t) {
        // re-create, sometimes with another arity (identical SELECT text, different schema)
        dropped.remove(t);
        let w = r.chance(1, 2);
        wide.insert(t, w);
        let mut v = vec![create_table(t, w)];
        let k = r.below(5);
        v.push(if w { format!("INSERT INTO {t} VALUES ({k}, {k}, 'n', 7)") } else { format!("INSERT INTO {t} VALUES ({k}, {k}, 'n')") });
        return v;
    }
    let w = *wide.get(t).unwrap_or(&false);
    let (k, k2) = (r.below(6), r.below(9));
    let ins = |r: &mut Rng| {
        if w {
            format!("INSERT INTO {tn} VALUES ({k}, {k2}, '{}', 1)", lit(r))
        } else {
            format!("INSERT INTO {tn} VALUES ({k}, {k2}, '{}')", lit(r))
        }
    };
    // the statement kinds a mode is about are drawn more often in that mode
    if mode == Mode::Alter && !*in_txn && r.chance(1, 4) {
        return vec![format!("ALTER TABLE {tn} ADD COLUMN z{} INT", r.below(1000))];
    }
    if mode == Mode::Rollback && r.chance(1, 4) {
        if *in_txn {
            *in_txn = false;
            return vec![if r.chance(3, 4) { "ROLLBACK".into() } else { "COMMIT".into() }];
        }
        *in_txn = true;
        return vec!["BEGIN".into(), ins(r)];
    }
    match r.below(20) {
        0..=6 => vec![ins(r)],
        7..=10 => vec![format!("UPDATE {tn} SET b = b + 1 WHERE a = {k}")],
        11 => vec![format!("UPDATE {tn} SET s = '{}' WHERE a > {k}", lit(r))],
        12..=14 => vec![format!("DELETE FROM {tn} WHERE a = {k}")],
        15 => {
            if *in_txn {
                vec![ins(r)]
            } else {
                dropped.insert(t);
                vec![format!("DROP TABLE {tn}")]
            }
        }
        16 | 17 => {
            if *in_txn {
                *in_txn = false;
                if mode == Mode::Rollback && r.chance(2, 3) {
                    vec!["ROLLBACK".into()]
                } else {
                    vec!["COMMIT".into()]
                }
            } else {
                *in_txn = true;
                vec!["BEGIN".into(), ins(r)]
            }
        }
        18 => {
            if mode == Mode::Alter && !*in_txn {
                vec![format!("ALTER TABLE {tn} ADD COLUMN z{} INT", r.below(1000))]
            } else {
                vec![ins(r)]
            }
        }
        _ => vec![format!("DELETE FROM {tn} WHERE b > {}", 4 + k2)],
    }
}

struct History {
    /// capacity of the real adapter's cache (and of its replica)
    cap: usize,
    /// capacity of the replica that uses the executor crate's extractor
    cap_crate: usize,
    stmts: Vec<Stmt>,
}

fn gen_history(mode: Mode, r: &mut Rng, pool_len: usize, thorough: bool) -> (History, World) {
    let mut w = World { views: HashMap::new(), children: HashMap::new() };
    let mut s: Vec<Stmt> = Vec::new();
    let o = |x: &str| Stmt::Other(x.to_string());
    for t in TABLES {
        s.push(o(&create_table(t, false)));
        for _ in 0..(1 + r.below(3)) {
            s.push(o(&format!("INSERT INTO {t} VALUES ({}, {}, '{}')", r.below(5), r.below(9), lit(r))));
        }
    }
    match mode {
        Mode::QuotedId => {
            s.push(o("CREATE TABLE t4 (\"x\" INT, \"X\" INT)"));
            s.push(o("INSERT INTO t4 VALUES (1, 2)"));
        }
        Mode::View => {
            s.push(o("CREATE VIEW v1 AS SELECT a, b, s FROM t1 WHERE a >= 0"));
            s.push(o("CREATE VIEW v2 AS SELECT x.a, y.b FROM t1 x JOIN t2 y ON x.a = y.a"));
            s.push(o("CREATE VIEW v3 AS SELECT a FROM v1"));
            w.views.insert("V1".into(), vec!["T1".into()]);
            w.views.insert("V2".into(), vec!["T1".into(), "T2".into()]);
            w.views.insert("V3".into(), vec!["V1".into()]);
        }
        Mode::Cascade => {
            s.push(o("CREATE TABLE pa (id INT PRIMARY KEY, v INT)"));
            s.push(o("CREATE TABLE ch (id INT, pid INT, FOREIGN KEY (pid) REFERENCES pa(id) ON DELETE CASCADE)"));
            for i in 1..=4 {
                s.push(o(&format!("INSERT INTO pa VALUES ({i}, {})", r.below(9))));
            }
            for i in 1..=8 {
                s.push(o(&format!("INSERT INTO ch VALUES ({}, {})", 10 * i, 1 + (i - 1) % 4)));
            }
            w.children.insert("PA".into(), vec!["CH".into()]);
        }
        _ => {}
    }
    // small capacities (evictions) only where the protocol in question is free of known defects: the
    // classifier needs an eviction-free run to attribute a wrong answer to one repair
    let small = [1usize, 2, 3, 4, 6, 10000][r.below(6) as usize];
    let cap = if mode == Mode::CleanAdapter { small } else { 10000 };
    let cap_crate = if matches!(mode, Mode::CleanAdapter | Mode::CleanCrate) { small } else { 10000 };
    let n = if thorough { 40 + r.below(20) } else { 28 + r.below(14) } as usize;
    let mut dropped: HashSet<&'static str> = HashSet::new();
    let mut wide: HashMap<&'static str, bool> = HashMap::new();
    let mut in_txn = false;
    let mut recent: Vec<usize> = Vec::new();
    let mut nid = 100;
    while s.len() < n {
        if r.chance(3, 5) {
            // reads: repeat a recent query (same or sibling text) half of the time
            let qi = if !recent.is_empty() && r.chance(1, 2) { *r.pick(&recent) } else { r.below(pool_len as u64) as usize };
            recent.push(qi);
            if recent.len() > 6 {
                recent.remove(0);
            }
            s.push(Stmt::Read(qi));
        } else if mode == Mode::Cascade && r.chance(2, 3) {
            match r.below(4) {
                3 => s.push(o(&format!("DELETE FROM pa WHERE id = {}", 1 + r.below(4)))),
                0 => s.push(o(&format!("DELETE FROM pa WHERE id = {}", 1 + r.below(4)))),
                1 => {
                    nid += 1;
                    s.push(o(&format!("INSERT INTO pa VALUES ({}, 0)", nid)));
                    s.push(o(&format!("INSERT INTO ch VALUES ({}, {})", nid * 10, nid)));
                }
                _ => s.push(o(&format!("UPDATE ch SET id = id + 1 WHERE pid = {}", 1 + r.below(4)))),
            }
        } else if mode == Mode::View && r.chance(1, 6) {
            s.push(o("DROP VIEW v3"));
            s.push(o("CREATE VIEW v3 AS SELECT a FROM v1 WHERE a > 1"));
        } else {
            for x in random_write(mode, r, &mut dropped, &mut in_txn, &mut wide) {
                s.push(Stmt::Other(x));
            }
        }
    }
    if in_txn {
        s.push(o(if mode == Mode::Rollback { "ROLLBACK" } else { "COMMIT" }));
        // one more look at everything after the transaction ended
        for qi in recent.clone() {
            s.push(Stmt::Read(qi));
        }
    }
    (History { cap, cap_crate, stmts: s }, w)
}

fn op_kind(st: &Stmt, text: &str) -> OpKind {
    match st {
        Stmt::Read(qi) => OpKind::Read(*qi),
        Stmt::Other(_) => match vh::sql::parse(text) {
            Ok(Statement::Insert(s)) => OpKind::Inval(s.table_name.clone()),
            Ok(Statement::Update(s)) => OpKind::Inval(s.table_name.clone()),
            Ok(Statement::Delete(s)) => OpKind::Inval(s.table_name.clone()),
            Ok(Statement::DropTable(s)) => OpKind::Inval(s.table_name.clone()),
            Ok(Statement::Rollback(_)) => OpKind::Rollback,
            Ok(Statement::CreateView(_)) | Ok(Statement::DropView(_)) => OpKind::ViewDdl,
            Ok(Statement::AlterTable(_)) => {
                // "ALTER TABLE <name> ..." (only generated in that shape)
                OpKind::Alter(text.split_whitespace().nth(2).unwrap_or("").to_uppercase())
            }
            Ok(Statement::Select(_)) => panic!("harness: a SELECT outside the pool"),
            _ => OpKind::Quiet,
        },
    }
}

// ------------------------------------------------------------------------------------------------
// raw cache traces
// ------------------------------------------------------------------------------------------------
fn raw_trace(id: u64, r: &mut Rng, sum: &mut Summary, log: &mut CaseLog) -> String {
    let cap = [0usize, 1, 1, 2, 3, 5][r.below(6) as usize];
    let cache = QueryResultCache::new(cap);
    let keys: Vec<QuerySignature> = (0..6).map(|i| QuerySignature::from_sql(&format!("select {} from k", i))).collect();
    let names = ["T1", "t1", "T2", "Tab", "TAB", "tab", "", "T\u{e9}", "T\u{c9}", "t10"];
    let mut last: HashMap<u64, (u64, Vec<String>)> = HashMap::new();
    let mut ops = String::new();
    let mut printable = Vec::new();
    let n = 20 + r.below(30);
    let mut rows_ctr = 0u64;
    let mut cap_reported = false;
    for step in 0..n {
        if step > 0 {
            ops.push_str("; ");
        }
        let k = &keys[r.below(6) as usize];
        match r.below(10) {
            0..=3 => {
                rows_ctr += 1;
                let nt = r.below(3);
                let tabs: Vec<String> = (0..nt).map(|_| names[r.below(10) as usize].to_string()).collect();
                let before: Vec<&QuerySignature> = keys.iter().filter(|x| cache.contains(x)).collect();
                let ev0 = cache.stats().evictions;
                cache.insert(k.clone(), vec![Row::new(vec![SqlValue::Bigint(rows_ctr as i64)])], empty_schema(), tabs.iter().cloned().collect());
                let victim = if cache.stats().evictions > ev0 {
                    let gone: Vec<&&QuerySignature> = before.iter().filter(|x| ***x != *k && !cache.contains(x)).collect();
                    Some(gone.first().map(|x| x.hash()).unwrap_or(k.hash()))
                } else {
                    None
                };
                last.insert(k.hash(), (rows_ctr, tabs.clone()));
                let size = cache.stats().size;
                let _ = write!(ops, "CInsert {} {} {} {} {}", k.hash(), rows_ctr, cnames(&tabs), copt(victim), size);
                printable.push(format!("insert k{} rows={} tables={:?} -> victim {:?} size {}", keys.iter().position(|x| x == k).unwrap(), rows_ctr, tabs, victim, size));
                // the property's own oracle: capacity
                if size > cap && !cap_reported {
                    cap_reported = true;
                    let class = "capacity-exceeded";
                    sum.finding(class, id, format!("QueryResultCache::new({}) holds {} entries after an insert", cap, size), json!({"cap": cap, "size": size, "trace": printable}));
                }
            }
            4..=5 => {
                let got = cache.get(k).map(|(rows, _)| match rows.first().and_then(|r| r.values.first()) {
                    Some(SqlValue::Bigint(x)) => *x as u64,
                    _ => u64::MAX,
                });
                let _ = write!(ops, "CGet {} {}", k.hash(), copt(got));
                printable.push(format!("get k{} -> {:?}", keys.iter().position(|x| x == k).unwrap(), got));
                if let Some(g) = got {
                    if last.get(&k.hash()).map(|x| x.0) != Some(g) {
                        sum.finding("foreign-result", id, format!("get returned rows {} that were not the last inserted under this signature", g), json!({"trace": printable}));
                    }
                }
            }
            6..=7 => {
                let t = names[r.below(10) as usize];
                cache.invalidate_table(t);
                let _ = write!(ops, "CInval {} {}", cs(t), cache.stats().size);
                printable.push(format!("invalidate_table {:?} -> size {}", t, cache.stats().size));
                for kk in &keys {
                    if cache.contains(kk) {
                        if let Some((_, tabs)) = last.get(&kk.hash()) {
                            if tabs.iter().any(|x| x.eq_ignore_ascii_case(t)) {
                                sum.finding("invalidation-missed", id, format!("entry depending on {:?} survived invalidate_table({:?})", tabs, t), json!({"trace": printable}));
                            }
                        }
                    }
                }
            }
            8 => {
                let c = cache.contains(k);
                let _ = write!(ops, "CContains {} {}", k.hash(), cbool(c));
                printable.push(format!("contains k{} -> {}", keys.iter().position(|x| x == k).unwrap(), c));
            }
            _ => {
                if r.chance(1, 3) {
                    cache.clear();
                    ops.push_str("CClear");
                    printable.push("clear".into());
                } else {
                    let c = cache.contains(k);
                    let _ = write!(ops, "CContains {} {}", k.hash(), cbool(c));
                    printable.push(format!("contains k{} -> {}", keys.iter().position(|x| x == k).unwrap(), c));
                }
            }
        }
        sum.evaluations += 1;
    }
    sum.count(&format!("trace_cap_{}", cap));
    sum.model_cases += 1;
    log.log(id, json!({"kind": "raw-trace", "cap": cap, "ops": printable}));
    format!("({}, {}, [{}])", id, cap, ops)
}

// ------------------------------------------------------------------------------------------------
// random texts for the signature tie
// ------------------------------------------------------------------------------------------------
fn random_text(r: &mut Rng) -> String {
    const ALPHA: [&str; 40] = [
        "SELECT", "select", "From", "t1", "T1", "WHERE", "a", "B", "=", "'Ab C'", "'x  y'", "\"Col\"", "`q`", "--", "-", "\n", " ", "  ", "\t",
        "\u{a0}", "\u{2003}", "\u{3000}", "\u{85}", "\r", "\u{c9}", "\u{e9}", "\u{d7}", "\u{130}", "\u{131}", "\u{178}", "\u{17f}", "\u{149}", "\u{14a}",
        "\u{4e2d}\u{6587}", "\u{1f600}", "1", "(", ")", ",", "\u{df}",
    ];
    let n = r.below(14);
    let mut s = String::new();
    for _ in 0..n {
        s.push_str(ALPHA[r.below(40) as usize]);
        if r.chance(1, 2) {
            s.push(' ');
        }
    }
    if r.chance(1, 6) {
        // any code point of the modelled range
        for _ in 0..4 {
            if let Some(c) = char::from_u32(r.below(0x180) as u32) {
                s.push(c);
            }
        }
    }
    s
}

// ------------------------------------------------------------------------------------------------
// main
// ------------------------------------------------------------------------------------------------
struct HistResult {
    a: Vec<Out>,
    b: Vec<Out>,
    /// statements whose uncached execution is not a function of the database state: re-executing the
    /// same SELECT on the uncached adapter gave another answer (an executor defect, not the cache's)
    unstable: Vec<bool>,
}

/// the adapter reads its configuration from the process environment in `new()`: constructions are serialised
static ADAPTER_SETUP: std::sync::Mutex<()> = std::sync::Mutex::new(());

/// the histories of one group run concurrently, each on its own thread: a fresh thread also means that the
/// adapter's thread-local database pool starts empty, so both adapters get a brand-new Database
fn spawn_real(cap: usize, texts: &[String], is_read: &[bool]) -> std::thread::JoinHandle<HistResult> {
    let texts = texts.to_vec();
    let is_read = is_read.to_vec();
    std::thread::spawn(move || {
        let (mut a, mut b) = {
            let _g = ADAPTER_SETUP.lock().unwrap_or_else(|e| e.into_inner());
            (RealAdapter::new(true, cap), RealAdapter::new(false, cap))
        };
        let mut res = HistResult { a: vec![], b: vec![], unstable: vec![] };
        let mut rechecks = 0;
        for (i, t) in texts.iter().enumerate() {
            let oa = a.run(t);
            let ob = b.run(t);
            let mut unstable = false;
            if oa != ob && is_read[i] && rechecks < 6 {
                // (bounded: view queries are expensive, and stale hits repeat)
                rechecks += 1;
                for _ in 0..3 {
                    if b.run(t) != ob {
                        unstable = true;
                    }
                }
            }
            res.a.push(oa);
            res.b.push(ob);
            res.unstable.push(unstable);
        }
        res
    })
}

struct Prepared {
    hist: History,
    world: World,
    texts: Vec<String>,
    kinds: Vec<OpKind>,
    handle: std::thread::JoinHandle<HistResult>,
}

fn main() {
    let args = parse_args();
    quiet_panics();
    let mut sum = Summary::default();
    sum.nontrivial_rule = "a case is one statement of a history (run through the real adapter with and without cache), one raw cache operation, one signature, or one code point; non-trivial = a SELECT that the cached run answered from the cache (a hit), counted once per distinct (mode, query text, returned bag)".into();
    let mut log = CaseLog::new(&args);
    let only: Option<HashSet<u64>> = args.only.as_ref().map(|v| v.iter().cloned().collect());
    let want = |id: u64| only.as_ref().map(|o| o.contains(&id)).unwrap_or(true);

    // ---- shard 0: code point table, signatures, raw traces ----
    let mut sh0 = String::from("From Coq Require Import List ZArith.\nFrom VibeSQL Require Import Lex.Normalize Store.Cache Run.C25Run.\nImport ListNotations.\nOpen Scope Z_scope.\n");
    if only.is_none() {
        let mut cps: Vec<u32> = (0..0x180).collect();
        cps.extend(0x300..0x370);
        cps.extend([0x1680, 0x2000, 0x2003, 0x200a, 0x2028, 0x2029, 0x202f, 0x205f, 0x3000, 0x4e00, 0x4e2d, 0x9fff, 0x1f600, 0x1f64f]);
        let mut rows = Vec::new();
        for (i, cp) in cps.iter().enumerate() {
            if let Some(c) = char::from_u32(*cp) {
                let lower: String = c.to_lowercase().collect();
                rows.push(format!("({}, {}, {}, {})", 100_000 + i, cp, cbool(c.is_whitespace()), cs(&lower)));
                sum.evaluations += 1;
            }
        }
        sum.count_n("code_points", rows.len() as u64);
        let _ = write!(sh0, "Definition chars : list (Z * Z * bool * list Z) := [\n{}].\n", rows.join(";\n"));
        let mut r = Rng::new(args.seed, "c25/sig");
        let nsig = if args.thorough { 1500 } else { 400 };
        let mut rows = Vec::new();
        let mut nq_rows = Vec::new();
        for i in 0..nsig {
            let t = random_text(&mut r);
            let h = QuerySignature::from_sql(&t).hash();
            rows.push(format!("({}, {}, {})", 500_000 + i, cs(&t), h));
            nq_rows.push(format!("({}, {}, {})", 600_000 + i, cs(&t), cs(&normalize_q(&t, &[Reg::SQ, Reg::DQ, Reg::BQ, Reg::Cmt]))));
            log.log(500_000 + i, json!({"kind": "signature", "text": t, "hash": h}));
            sum.evaluations += 1;
            sum.model_cases += 1;
        }
        sum.count_n("signature_texts", nsig);
        let _ = write!(sh0, "Definition sigs : list (Z * list Z * Z) := [\n{}].\n", rows.join(";\n"));
        let _ = write!(sh0, "Definition nqs : list (Z * list Z * list Z) := [\n{}].\n", nq_rows.join(";\n"));
    } else {
        sh0.push_str("Definition chars : list (Z * Z * bool * list Z) := [].\nDefinition sigs : list (Z * list Z * Z) := [].\nDefinition nqs : list (Z * list Z * list Z) := [].\n");
    }
    {
        let ntr = if args.thorough { 600 } else { 150 };
        let mut rows = Vec::new();
        for i in 0..ntr {
            let id = 1_000_000 + i;
            let mut r = Rng::new(args.seed, &format!("c25/trace/{}", i));
            if !want(id) {
                continue;
            }
            rows.push(raw_trace(id, &mut r, &mut sum, &mut log));
        }
        let _ = write!(sh0, "Definition traces : list (Z * Z * list cop) := [\n{}].\n", rows.join(";\n"));
    }
    sh0.push_str("Eval vm_compute in (c25_char_mism chars ++ c25_sig_mism sigs ++ c25_nq_mism nqs ++ c25_trace_mism traces).\n");
    write_shard(&args, 0, &sh0);

    // ---- groups of histories ----
    let groups: u64 = if args.thorough { 78 } else { 26 };
    let per_group: u64 = if args.thorough { 12 } else { 7 };
    let groups_per_shard = if args.thorough { 6 } else { 2 };
    let mut shard_text = String::new();
    let mut shard_calls: Vec<String> = Vec::new();
    let mut shard_no = 1;
    let t_all = std::time::Instant::now();
    let header = "From Coq Require Import List ZArith.\nFrom VibeSQL Require Import Lex.Normalize Store.Cache Store.CacheTables Run.C25Run.\nImport ListNotations.\nOpen Scope Z_scope.\n";
    for g in 0..groups {
        let mode = MODES[(g % 13) as usize];
        let mut r = Rng::new(args.seed, &format!("c25/group/{}", g));
        // pool
        let mut pool: Vec<PQuery> = Vec::new();
        for b in pool_bases(mode, &mut r) {
            let mut texts = vec![b.clone()];
            for _ in 0..(1 + r.below(2)) {
                texts.push(perturb(&mut r, &b));
            }
            for t in texts {
                if pool.iter().any(|p| p.text == t) {
                    continue;
                }
                match make_pquery(&t) {
                    Some(p) => pool.push(p),
                    None => {
                        sum.finding("generator-query-does-not-parse", 2_000_000 + g * 100, format!("generated SELECT does not parse: {:?}", t), json!({"text": t}));
                    }
                }
            }
        }
        // white space / case variants outside protected regions must parse to the same statement
        // (assumption [Hlex] of the concrete transparency theorem, checked on the real parser)
        for i in 0..pool.len() {
            for j in 0..i {
                if normalize_q(&pool[i].text, &[Reg::SQ, Reg::DQ, Reg::BQ, Reg::Cmt]) == normalize_q(&pool[j].text, &[Reg::SQ, Reg::DQ, Reg::BQ, Reg::Cmt])
                    && pool[i].stmt != pool[j].stmt
                {
                    sum.finding("lexically-equivalent-texts-parse-differently", 2_000_000 + g * 100 + i as u64, format!("{:?} vs {:?}", pool[i].text, pool[j].text), json!({"a": pool[i].text, "b": pool[j].text}));
                }
            }
        }
        let mut pool_rows = Vec::new();
        for (qi, p) in pool.iter().enumerate() {
            let id = 2_000_000 + g * 100 + qi as u64;
            let mut tree = String::new();
            print_sel(&p.tree, &mut tree);
            pool_rows.push(format!("mkPQ {} {} {} {} {} {}", id, cs(&p.text), p.hash, tree, cnames(&p.crate_tables), cnames(&p.adapter_tables)));
            log.log(id, json!({"kind": "pooled-query", "text": p.text, "hash": p.hash, "crate_tables": p.crate_tables, "adapter_tables": p.adapter_tables}));
            sum.model_cases += 1;
        }
        let mut hist_rows: Vec<String> = Vec::new();
        let mut prepared: Vec<Option<Prepared>> = Vec::new();
        for h in 0..per_group {
            let hidx = g * per_group + h;
            let id_a = 3_000_000 + hidx * 4;
            let mut hr = Rng::new(args.seed, &format!("c25/hist/{}", hidx));
            if !(want(id_a) || want(id_a + 1)) {
                prepared.push(None);
                continue;
            }
            let (hist, world) = gen_history(mode, &mut hr, pool.len(), args.thorough);
            let texts: Vec<String> = hist.stmts.iter().map(|s| match s { Stmt::Read(qi) => pool[*qi].text.clone(), Stmt::Other(t) => t.clone() }).collect();
            let kinds: Vec<OpKind> = hist.stmts.iter().zip(texts.iter()).map(|(s, t)| op_kind(s, t)).collect();
            let reads: Vec<bool> = kinds.iter().map(|k| matches!(k, OpKind::Read(_))).collect();
            let handle = spawn_real(hist.cap, &texts, &reads);
            prepared.push(Some(Prepared { hist, world, texts, kinds, handle }));
        }
        for h in 0..per_group {
            let hidx = g * per_group + h;
            let id_a = 3_000_000 + hidx * 4;
            let id_c = id_a + 1;
            let Some(Prepared { hist, world, texts, kinds, handle }) = prepared[h as usize].take() else {
                continue;
            };
            let real = handle.join().expect("harness: adapter thread");
            let stable = !real.unstable.iter().any(|x| *x);
            if !stable {
                sum.count("histories_dropped_from_adapter_oracle_executor_unstable");
            }
            // intern the uncached outputs
            let mut intern: HashMap<Out, u64> = HashMap::new();
            let mut by_id: Vec<Out> = Vec::new();
            let mut fresh: Vec<Option<u64>> = Vec::new();
            for o in &real.b {
                match o {
                    Out::Err => fresh.push(None),
                    _ => {
                        let n = by_id.len() as u64;
                        let id = *intern.entry(o.clone()).or_insert_with(|| {
                            by_id.push(o.clone());
                            n
                        });
                        fresh.push(Some(id));
                    }
                }
            }
            let out_of = |x: Option<u64>| match x {
                Some(i) => by_id[i as usize].clone(),
                None => Out::Err,
            };
            let rep_a = replay(hist.cap, &pool, &kinds, &fresh, &AS_CODED, &world);
            let rep_c = replay(hist.cap_crate, &pool, &kinds, &fresh, &AS_CODED_CRATE, &world);
            let no_eviction = rep_a.victim.iter().all(|v| v.is_none()) && hist.cap >= 10000;
            let case_json = |i: usize| -> Value {
                json!({"mode": format!("{:?}", mode), "cap": hist.cap, "statement_index": i, "statement": texts[i],
                       "history": texts.iter().take(i + 1).collect::<Vec<_>>()})
            };
            let mut classes: BTreeSet<String> = BTreeSet::new();
            // ---- oracle 1: real adapter, cached vs uncached ----
            for i in 0..texts.len() {
                sum.evaluations += 1;
                let is_read = matches!(kinds[i], OpKind::Read(_));
                sum.count(if is_read { "stmt_select" } else { "stmt_other" });
                if real.a[i] == real.b[i] || !stable {
                    continue;
                }
                let mut slug = "result-mismatch".to_string();
                if is_read && no_eviction {
                    if out_of(rep_a.ret[i]) != real.a[i] {
                        slug = "replica-diverges-from-adapter".into();
                    } else {
                        for (s, v) in repairs(&AS_CODED) {
                            let rp = replay(hist.cap, &pool, &kinds, &fresh, &v, &world);
                            if rp.ret[i] == fresh[i] {
                                slug = s.to_string();
                                break;
                            }
                        }
                    }
                }
                classes.insert(slug.clone());
                sum.finding(&slug, id_a, format!("real adapter, statement {}: {:?} returns {} with the cache and {} without", i, texts[i], real.a[i].short(), real.b[i].short()), case_json(i));
            }
            // the replica must agree with the real adapter wherever eviction cannot interfere
            if no_eviction && stable {
                for i in 0..texts.len() {
                    if matches!(kinds[i], OpKind::Read(_)) && out_of(rep_a.ret[i]) != real.a[i] && real.a[i] == real.b[i] {
                        sum.finding("replica-diverges-from-adapter", id_a, format!("statement {}: {:?}: replica returns {} but the real adapter {}", i, texts[i], out_of(rep_a.ret[i]).short(), real.a[i].short()), case_json(i));
                    }
                }
            }
            // capacity oracle on the replica's real cache
            for (rp, cap) in [(&rep_a, hist.cap), (&rep_c, hist.cap_crate)] {
                if rp.max_size > cap {
                    sum.finding("capacity-exceeded", id_a, format!("cache of capacity {} reached size {}", cap, rp.max_size), case_json(texts.len() - 1));
                }
            }
            // ---- oracle 2: the same protocol with the executor crate's extractor ----
            for i in 0..texts.len() {
                if !matches!(kinds[i], OpKind::Read(_)) {
                    continue;
                }
                sum.evaluations += 1;
                if rep_c.ret[i] == fresh[i] {
                    continue;
                }
                let mut slug = "result-mismatch".to_string();
                if rep_c.victim.iter().all(|v| v.is_none()) {
                    for (s, v) in repairs(&AS_CODED_CRATE) {
                        let rp = replay(hist.cap_crate, &pool, &kinds, &fresh, &v, &world);
                        if rp.ret[i] == fresh[i] {
                            slug = s.to_string();
                            break;
                        }
                    }
                }
                classes.insert(slug.clone());
                sum.finding(&slug, id_c, format!("protocol with extract_tables_from_select, statement {}: {:?} returns {} from the cache, executing it returns {}", i, texts[i], out_of(rep_c.ret[i]).short(), real.b[i].short()), case_json(i));
            }
            // ---- bookkeeping ----
            sum.count(&format!("mode_{:?}", mode));
            sum.count(&format!("cap_{}", hist.cap));
            sum.count(&format!("cap_crate_protocol_{}", hist.cap_crate));
            for i in 0..texts.len() {
                if rep_a.hit[i] {
                    sum.count("hits_adapter_protocol");
                    sum.nontrivial(&format!("{:?}|{}|{:?}", mode, texts[i], rep_a.ret[i].map(|x| by_id[x as usize].short())));
                }
                if rep_a.victim[i].is_some() {
                    sum.count("evictions_adapter_protocol");
                }
                if matches!(kinds[i], OpKind::Read(_)) && !rep_a.hit[i] {
                    sum.count(if fresh[i].is_some() { "misses_cached" } else { "misses_error_not_cached" });
                }
            }
            if sum.samples.len() < 6 && h == 0 {
                sum.sample(json!({"mode": format!("{:?}", mode), "cap": hist.cap, "statements": texts.iter().take(14).collect::<Vec<_>>(),
                    "cached": real.a.iter().take(14).map(|o| o.short()).collect::<Vec<_>>(), "hits": rep_a.hit.iter().take(14).collect::<Vec<_>>()}));
            }
            let cj = json!({"kind": "history", "mode": format!("{:?}", mode), "cap": hist.cap, "cap_crate_protocol": hist.cap_crate, "statements": texts, "classes": classes.iter().collect::<Vec<_>>()});
            log.log(id_a, cj.clone());
            log.log(id_c, cj);
            // ---- Coq ----
            for (id, rp, crate_ext, cap) in [(id_a, &rep_a, false, hist.cap), (id_c, &rep_c, true, hist.cap_crate)] {
                let mut ops = Vec::new();
                for i in 0..kinds.len() {
                    ops.push(match &kinds[i] {
                        OpKind::Read(qi) => format!("PR {} {} {} {} {}", qi, copt(fresh[i]), cbool(rp.hit[i]), copt(rp.ret[i]), copt(rp.victim[i])),
                        OpKind::Inval(t) => format!("PW (Some {})", cs(t)),
                        _ => "PW None".to_string(),
                    });
                }
                hist_rows.push(format!("mkH {} {} {} [{}]", id, cap, cbool(crate_ext), ops.join("; ")));
                sum.model_cases += 1;
            }
        }
        let _ = write!(shard_text, "Definition pool{} : list pquery := [\n{}].\n", g, pool_rows.join(";\n"));
        let _ = write!(shard_text, "Definition hist{} : list history := [\n{}].\n", g, hist_rows.join(";\n"));
        shard_calls.push(format!("c25_hist_mism pool{} hist{}", g, g));
        if (g + 1) % groups_per_shard == 0 || g + 1 == groups {
            let text = format!("{}{}Eval vm_compute in ({}).\n", header, shard_text, shard_calls.join(" ++ "));
            write_shard(&args, shard_no, &text);
            shard_no += 1;
            shard_text.clear();
            shard_calls.clear();
        }
    }
    let _: BTreeMap<String, u64> = BTreeMap::new();
    sum.notes.push(format!("wall time of the history part: {:.1}s (the histories of a group run concurrently; practically all of it is statement execution inside the real adapters)", t_all.elapsed().as_secs_f64()));
    sum.notes.push("cached vs uncached runs go through the real tests/sqllogictest/db_adapter.rs (VibeSqlDB::run) compiled into the harness; hit/miss/victims are observed on a replica of its protocol around the real QueryResultCache, checked against the real adapter's answers on every history without evictions".into());
    sum.write(&args);
}
