// temporary probe for C19 (deleted when the property is finished)
use std::panic::{catch_unwind, AssertUnwindSafe};
use vibesql_catalog::{ColumnSchema, TableSchema};
use vibesql_storage::{Database, Row};
use vibesql_types::{DataType, SqlValue};

fn try_rt(label: &str, cols: Vec<(&str, DataType, bool)>, rows: Vec<Vec<SqlValue>>) {
    let mut db = Database::new();
    let schema = TableSchema::new("T0".to_string(), cols.iter().map(|(n, t, nl)| ColumnSchema::new(n.to_string(), t.clone(), *nl)).collect());
    db.create_table(schema).unwrap();
    for r in &rows {
        let res = catch_unwind(AssertUnwindSafe(|| db.insert_row("T0", Row::new(r.clone()))));
        match res {
            Ok(Ok(())) => {}
            Ok(Err(e)) => println!("  [{}] insert_row failed: {:?}", label, e),
            Err(_) => println!("  [{}] insert_row PANIC", label),
        }
    }
    let path = format!("/tmp/c19probe_{}.sql", std::process::id());
    db.save_sql_dump(&path).unwrap();
    let text = std::fs::read_to_string(&path).unwrap();
    let body: Vec<&str> = text.lines().filter(|l| !l.trim().is_empty() && !l.starts_with("--")).collect();
    println!("== {} ==\n{}", label, body.join("\n"));
    let orig: Vec<Vec<SqlValue>> = db.get_table("T0").unwrap().scan().iter().map(|r| r.values.clone()).collect();
    let res = catch_unwind(AssertUnwindSafe(|| vibesql_executor::load_sql_dump(&path)));
    match res {
        Ok(Ok(db2)) => {
            println!("  tables: {:?}", db2.list_tables());
            match db2.get_table("T0") {
                Some(t) => {
                    let got: Vec<Vec<SqlValue>> = t.scan().iter().map(|r| r.values.clone()).collect();
                    let cols2: Vec<String> = t.schema.columns.iter().map(|c| format!("{} {:?} {}", c.name, c.data_type, c.nullable)).collect();
                    println!("  cols: {:?}", cols2);
                    if format!("{:?}", got) == format!("{:?}", orig) {
                        println!("  ROUNDTRIP OK ({} rows)", got.len());
                    } else {
                        println!("  MISMATCH\n   orig {:?}\n   got  {:?}", orig, got);
                    }
                }
                None => println!("  T0 missing"),
            }
        }
        Ok(Err(e)) => println!("  LOAD ERR: {}", format!("{}", e).replace('\n', " | ")),
        Err(_) => println!("  LOAD PANIC"),
    }
    std::fs::remove_file(&path).ok();
}

fn main() {
    std::env::set_var("RUST_BACKTRACE", "0");
    let v = |s: &str| SqlValue::Varchar(s.to_string());
    let vc = DataType::Varchar { max_length: Some(50) };
    try_rt("int", vec![("A", DataType::Integer, true)], vec![vec![SqlValue::Integer(5)], vec![SqlValue::Null], vec![SqlValue::Integer(i64::MAX)], vec![SqlValue::Integer(0)]]);
    try_rt("int-neg", vec![("A", DataType::Integer, true)], vec![vec![SqlValue::Integer(-5)]]);
    try_rt("smallint", vec![("A", DataType::Smallint, true)], vec![vec![SqlValue::Smallint(5)]]);
    try_rt("bigint", vec![("A", DataType::Bigint, false)], vec![vec![SqlValue::Bigint(5)], vec![SqlValue::Bigint(i64::MAX)]]);
    try_rt("unsigned", vec![("A", DataType::Unsigned, true)], vec![vec![SqlValue::Unsigned(5)]]);
    try_rt("unsigned-empty", vec![("A", DataType::Unsigned, true)], vec![]);
    try_rt("numeric-whole", vec![("A", DataType::Numeric { precision: 10, scale: 2 }, true)], vec![vec![SqlValue::Numeric(3.0)]]);
    try_rt("numeric-frac", vec![("A", DataType::Numeric { precision: 10, scale: 2 }, true)], vec![vec![SqlValue::Numeric(3.25)]]);
    try_rt("decimal-frac", vec![("A", DataType::Decimal { precision: 10, scale: 2 }, true)], vec![vec![SqlValue::Numeric(3.25)]]);
    try_rt("double", vec![("A", DataType::DoublePrecision, true)], vec![vec![SqlValue::Double(3.0)], vec![SqlValue::Double(0.1)], vec![SqlValue::Double(1e300)], vec![SqlValue::Double(5e-324)], vec![SqlValue::Double(1.7976931348623157e308)], vec![SqlValue::Double(9007199254740993.0)], vec![SqlValue::Double(9.3e18)]]);
    try_rt("double-negzero", vec![("A", DataType::DoublePrecision, true)], vec![vec![SqlValue::Double(-0.0)]]);
    try_rt("double-nan", vec![("A", DataType::DoublePrecision, true)], vec![vec![SqlValue::Double(f64::NAN)]]);
    try_rt("double-inf", vec![("A", DataType::DoublePrecision, true)], vec![vec![SqlValue::Double(f64::INFINITY)]]);
    try_rt("real", vec![("A", DataType::Real, true)], vec![vec![SqlValue::Real(0.1)], vec![SqlValue::Real(3.0)], vec![SqlValue::Real(3.4028235e38)], vec![SqlValue::Real(1e-45)]]);
    try_rt("float", vec![("A", DataType::Float { precision: 24 }, true)], vec![vec![SqlValue::Float(0.1)], vec![SqlValue::Float(16777217.0)]]);
    try_rt("bool", vec![("A", DataType::Boolean, true)], vec![vec![SqlValue::Boolean(true)], vec![SqlValue::Boolean(false)]]);
    try_rt("varchar", vec![("A", vc.clone(), true)], vec![vec![v("it's")], vec![v("a;b")], vec![v("--x")], vec![v("a\"b")], vec![v("")], vec![v("''")], vec![v("é€😀")], vec![v("a\rb")], vec![v(" lead trail ")]]);
    try_rt("varchar-none", vec![("A", DataType::Varchar { max_length: None }, true)], vec![vec![v("x")]]);
    try_rt("bs-mid", vec![("A", vc.clone(), true)], vec![vec![v("a\\b")], vec![v("a\\\\")]]);
    try_rt("bs-end-last", vec![("A", vc.clone(), true)], vec![vec![v("a\\")]]);
    try_rt("bs-end-notlast", vec![("A", vc.clone(), true)], vec![vec![v("a\\")], vec![v("b")]]);
    try_rt("bs-quote", vec![("A", vc.clone(), true)], vec![vec![v("a\\'b")], vec![v("c")]]);
    try_rt("newline", vec![("A", vc.clone(), true)], vec![vec![v("a\nb")], vec![v("c")]]);
    try_rt("newline-dashes", vec![("A", vc.clone(), true)], vec![vec![v("a\n--b")], vec![v("c")]]);
    try_rt("crlf", vec![("A", vc.clone(), true)], vec![vec![v("a\r\nb")]]);
    try_rt("char", vec![("A", DataType::Character { length: 4 }, true)], vec![vec![SqlValue::Character("ab".into())], vec![SqlValue::Character("abcd".into())]]);
    try_rt("char-nonascii", vec![("A", DataType::Character { length: 4 }, true)], vec![vec![SqlValue::Character("é".into())]]);
    try_rt("date", vec![("A", DataType::Date, true)], vec![vec![SqlValue::Date("2024-02-29".parse().unwrap())], vec![SqlValue::Date(vibesql_types::Date::new(-1, 1, 1).unwrap())], vec![SqlValue::Date(vibesql_types::Date::new(12345, 1, 1).unwrap())]]);
    try_rt("time", vec![("A", DataType::Time { with_timezone: false }, true)], vec![vec![SqlValue::Time("23:59:59.12".parse().unwrap())]]);
    try_rt("time-tz", vec![("A", DataType::Time { with_timezone: true }, true)], vec![vec![SqlValue::Time("23:59:59.12".parse().unwrap())]]);
    try_rt("timestamp", vec![("A", DataType::Timestamp { with_timezone: false }, true)], vec![vec![SqlValue::Timestamp("2024-01-05 01:02:03.5".parse().unwrap())]]);
    try_rt("timestamp-tz", vec![("A", DataType::Timestamp { with_timezone: true }, true)], vec![vec![SqlValue::Timestamp("2024-01-05 01:02:03.5".parse().unwrap())]]);
    try_rt("interval", vec![("A", DataType::Interval { start_field: vibesql_types::IntervalField::Year, end_field: None }, true)], vec![vec![SqlValue::Interval("5 YEAR".parse().unwrap())]]);
    try_rt("interval-empty", vec![("A", DataType::Interval { start_field: vibesql_types::IntervalField::Year, end_field: Some(vibesql_types::IntervalField::Month) }, true)], vec![]);
    try_rt("notnull-two", vec![("A", DataType::Integer, false), ("B", vc.clone(), true)], vec![vec![SqlValue::Integer(1), v("x")], vec![SqlValue::Integer(2), SqlValue::Null]]);
    try_rt("kwcol", vec![("VALUE", DataType::Integer, true), ("KEY", DataType::Integer, true)], vec![vec![SqlValue::Integer(1), SqlValue::Integer(2)]]);
    try_rt("lowercol", vec![("abc", DataType::Integer, true)], vec![vec![SqlValue::Integer(1)]]);
    // the splitter directly
    for t in ["a;b", "x 'a\\' ; y'; z", "'a\n--b\nc';", "\"a;b\";c", "a\\;b", " ; ;;", "a\n\n  \nb;", "\u{a0}--x\nq"] {
        println!("split {:?} -> {:?}", t, vibesql_storage::parse_sql_statements(t));
    }
}
