//! C08: ORDER BY / LIMIT / OFFSET / DISTINCT sequences, with and without an index on the sort column.
use serde_json::json;
use std::cmp::Ordering;
use std::collections::BTreeMap;
use vh::out::*;
use vh::qgen::*;
use vh::rng::Rng;
use vh::semrun::*;
use vh::sql;

fn bag(rows: &[Vec<Val>]) -> BTreeMap<String, i64> {
    let mut m = BTreeMap::new();
    for r in rows {
        *m.entry(format!("{:?}", r)).or_insert(0) += 1;
    }
    m
}

/// The ORDER BY comparator, written independently of the executor: NULLs last in both directions,
/// integers numerically, strings bytewise, booleans false < true.
fn key_cmp(a: &Val, b: &Val, desc: bool) -> Ordering {
    match (a, b) {
        (Val::Null, Val::Null) => Ordering::Equal,
        (Val::Null, _) => Ordering::Greater,
        (_, Val::Null) => Ordering::Less,
        _ => {
            let o = match (a, b) {
                (Val::Int(x), Val::Int(y)) => x.cmp(y),
                (Val::Str(x), Val::Str(y)) => x.as_bytes().cmp(y.as_bytes()),
                (Val::Bool(x), Val::Bool(y)) => x.cmp(y),
                _ => Ordering::Equal,
            };
            if desc {
                o.reverse()
            } else {
                o
            }
        }
    }
}

fn keys_cmp(order: &[(usize, bool)], a: &[Val], b: &[Val]) -> Ordering {
    for (i, d) in order {
        let o = key_cmp(&a[*i], &b[*i], *d);
        if o != Ordering::Equal {
            return o;
        }
    }
    Ordering::Equal
}

fn keyseq(order: &[(usize, bool)], rows: &[Vec<Val>]) -> Vec<Vec<Val>> {
    rows.iter().map(|r| order.iter().map(|(i, _)| r[*i].clone()).collect()).collect()
}

fn main() {
    let args = parse_args();
    quiet_panics();
    let mut sum = Summary::default();
    sum.nontrivial_rule = "a case is (database, optional index, query with ORDER BY keys/directions written as positions, aliases or expressions, LIMIT, OFFSET, DISTINCT); distinct = distinct (db, index DDL, SQL of the ordered query); non-trivial = the ordered result has at least 3 rows and at least two different sort-key tuples".into();
    let mut log = CaseLog::new(&args);
    let ndb = if args.thorough { 1500 } else { 240 };
    let per_db = 6;
    let nshards = 16;
    let mut shards: Vec<String> = (0..nshards).map(|_| String::from(SHARD_HEADER)).collect();
    let mut shard_lists: Vec<Vec<String>> = (0..nshards).map(|_| Vec::new()).collect();
    let mut id: u64 = 0;
    let nocfg = GenCfg { subqueries: false, setops: false, grouping: false, order: false, limit: false, distinct: false, ..GenCfg::default() };
    for k in 0..ndb {
        let mut r = Rng::new(args.seed, &format!("c08/db/{}", k));
        let dbdef = gen_db(&mut r, 2, 10);
        let mut db = load_db(&dbdef);
        // the twin database has an index on some columns of table 0
        let mut dbi = load_db(&dbdef);
        let t0 = &dbdef.tables[0];
        let ncols = 1 + r.below(t0.cols.len().min(2) as u64) as usize;
        let mut cols: Vec<usize> = (0..t0.cols.len()).collect();
        for i in 0..ncols {
            let j = i + r.below((cols.len() - i) as u64) as usize;
            cols.swap(i, j);
        }
        let idx_desc = r.chance(1, 3);
        let idx_sql = format!(
            "CREATE INDEX ix{} ON tab0 ({})",
            k,
            cols[..ncols].iter().map(|c| format!("c{}{}", c, if idx_desc { " DESC" } else { "" })).collect::<Vec<_>>().join(", ")
        );
        let idx_ok = sql::exec(&mut dbi, &idx_sql).is_ok();
        sum.count(if idx_ok { "index:created" } else { "index:create-failed" });
        let mut cases = Vec::new();
        for case_no in 0..per_db {
            // base query over table 0 (so that the index can matter), sometimes joined with another table
            // the first two cases of every database are the plain index-aligned shape (see below)
            let forced = case_no < 2;
            let grouped = !forced && r.chance(1, 4);
            let mut from = vec![From::Table(0, t0.cols.len())];
            let mut tys = t0.cols.clone();
            if !forced && r.chance(1, 5) {
                let t = r.below(dbdef.tables.len() as u64) as usize;
                tys.extend(dbdef.tables[t].cols.clone());
                from.push(From::Table(t, dbdef.tables[t].cols.len()));
            }
            let scopes = vec![tys.clone()];
            let mut sel = Select { distinct: false, from, where_: None, grouping: None, having: None, proj: vec![], order: vec![], limit: None, offset: None };
            let ptys: Vec<Ty>;
            {
                let mut g = Gen { r: &mut r, db: &dbdef, cfg: nocfg.clone() };
                if g.r.chance(1, 2) {
                    sel.where_ = Some(g.expr(Ty::Bool, &scopes, 1));
                }
                if grouped {
                    let kt = if g.r.chance(2, 3) { Ty::Int } else { Ty::Str };
                    let key = g.expr(kt, &scopes, 0);
                    let arg = g.expr(Ty::Int, &scopes, 0);
                    sel.grouping = Some((vec![key], vec![(AggFn::CountStar, false, Expr::Const(Val::Int(1))), (AggFn::Sum, false, arg.clone()), (AggFn::Max, false, arg)]));
                    sel.proj = vec![Expr::Col(0, 0), Expr::Col(0, 1), Expr::Col(0, 2), Expr::Col(0, 3)];
                    ptys = vec![kt, Ty::Int, Ty::Int, Ty::Int];
                } else {
                    let np = 1 + g.r.below(3) as usize;
                    let mut p = Vec::new();
                    let mut t = Vec::new();
                    for i in 0..np {
                        // plain columns dominate (index order applies to them), expressions too
                        let ty = if g.r.chance(3, 4) { Ty::Int } else { Ty::Str };
                        let d = if i == 0 || g.r.chance(1, 2) { 0 } else { 1 };
                        p.push(g.expr(ty, &scopes, d));
                        t.push(ty);
                    }
                    sel.proj = p;
                    ptys = t;
                }
            }
            let nk = 1 + r.below(ptys.len().min(3) as u64) as usize;
            let mut pos: Vec<usize> = (0..ptys.len()).collect();
            for i in 0..nk {
                let j = i + r.below((pos.len() - i) as u64) as usize;
                pos.swap(i, j);
            }
            let mut order: Vec<(usize, bool)> = pos[..nk].iter().map(|p| (*p, r.chance(2, 5))).collect();
            let mut style = if grouped { *r.pick(&[0u8, 0, 2]) } else { r.below(3) as u8 };
            // index-aligned shape (one case in three on plain queries): all columns of tab0 projected as they
            // are, ORDER BY exactly a prefix of the index columns in index order with one common direction,
            // WHERE (if any) on the leading index column: this is the shape for which the index scan may
            // claim that its order is the ORDER BY order
            let mut ptys = ptys;
            let mut aligned = false;
            if !grouped && sel.from.len() == 1 && (forced || r.chance(1, 3)) {
                sel.proj = (0..t0.cols.len()).map(|i| Expr::Col(0, i)).collect();
                ptys = t0.cols.clone();
                let nk2 = if forced { ncols } else { 1 + r.below(ncols as u64) as usize };
                let desc = if case_no == 0 { idx_desc } else { r.chance(1, 3) };
                order = cols[..nk2].iter().map(|c| (*c, desc)).collect();
                style = r.below(3) as u8;
                sel.where_ = if case_no != 0 && r.chance(1, 2) {
                    let lead = cols[0];
                    let k = Expr::Const(gen_val(&mut r, t0.cols[lead], 0));
                    let op = *r.pick(&[BinOp::Le, BinOp::Ge, BinOp::Lt, BinOp::Gt, BinOp::Eq]);
                    Some(Expr::Bin(op, Box::new(Expr::Col(0, lead)), Box::new(k)))
                } else {
                    None
                };
                sum.count("shape:index-aligned");
                aligned = true;
            }
            let _ = &ptys;
            let unordered = Query::Select(sel.clone());
            let mut full = sel.clone();
            full.order = order.clone();
            // full result length on the plain database decides the LIMIT/OFFSET boundary values
            let full_q = Query::Select(full.clone());
            let full_sql = to_sql_styled(&full_q, style);
            let len = match observe(&mut db, &full_sql) {
                Obs::Rows(rw) => rw.len(),
                _ => 0,
            };
            let pickn = |r: &mut Rng| -> usize { *r.pick(&[0usize, 1, len.saturating_sub(1), len, len + 1, 1000, 2, 3]) };
            let mut lim = full.clone();
            let (n, m) = (pickn(&mut r), pickn(&mut r));
            match r.below(3) {
                0 => lim.limit = Some(n),
                1 => {
                    lim.limit = Some(n);
                    lim.offset = Some(m);
                }
                _ => lim.offset = Some(m),
            }
            let mut dis = full.clone();
            dis.distinct = true;
            // half of the index-aligned cases are written the plain way (no table alias, bare column names):
            // some planner shortcuts only recognise that form
            let bare = aligned && (forced || r.chance(1, 2));
            let bare_sql = |s: &Select| -> String {
                let names: Vec<String> = (0..t0.cols.len()).map(|i| format!("c{}", i)).collect();
                let mut p = SqlPrinter::new();
                let mut t = format!("SELECT {}{} FROM tab0", if s.distinct { "DISTINCT " } else { "" }, names.join(", "));
                if let Some(w) = &s.where_ {
                    t.push_str(&format!(" WHERE {}", p.expr(w, &[names.clone()])));
                }
                if !s.order.is_empty() {
                    t.push_str(&format!(" ORDER BY {}", s.order.iter().map(|(c, d)| format!("c{}{}", c, if *d { " DESC" } else { "" })).collect::<Vec<_>>().join(", ")));
                }
                if let Some(n) = s.limit {
                    t.push_str(&format!(" LIMIT {}", n));
                }
                if let Some(m) = s.offset {
                    t.push_str(&format!(" OFFSET {}", m));
                }
                t
            };
            if bare {
                sum.count("shape:index-aligned-bare-names");
            }
            let queries: Vec<(&str, Query, String)> = if bare {
                vec![
                    ("unordered", unordered.clone(), bare_sql(&sel)),
                    ("ordered", full_q.clone(), bare_sql(&full)),
                    ("limited", Query::Select(lim.clone()), bare_sql(&lim)),
                    ("distinct", Query::Select(dis.clone()), bare_sql(&dis)),
                ]
            } else {
                vec![
                ("unordered", unordered.clone(), to_sql(&unordered)),
                ("ordered", full_q.clone(), full_sql.clone()),
                ("limited", Query::Select(lim.clone()), to_sql_styled(&Query::Select(lim.clone()), style)),
                ("distinct", Query::Select(dis.clone()), to_sql_styled(&Query::Select(dis.clone()), if grouped { 0 } else { style })),
                ]
            };
            let case_base = id;
            id += 8;
            if let Some(only) = &args.only {
                if !only.iter().any(|x| *x >= case_base && *x < case_base + 8) {
                    continue;
                }
            }
            sum.count(&format!("order-style:{}", ["position", "alias", "expression"][style as usize]));
            sum.count(if grouped { "shape:grouped" } else { "shape:plain" });
            let mut obs_plain = Vec::new();
            let mut obs_idx = Vec::new();
            for (j, (label, q, text)) in queries.iter().enumerate() {
                let o = observe(&mut db, text);
                let oi = if idx_ok { observe(&mut dbi, text) } else { Obs::Err("no index".into()) };
                sum.evaluations += 2;
                for (which, oo, off) in [("plain", &o, 0u64), ("indexed", &oi, 4u64)] {
                    if which == "indexed" && !idx_ok {
                        continue;
                    }
                    cases.push(format!("({}, {}, {})", case_base + off + j as u64, coq_query(q), coq_obs(oo)));
                    sum.model_cases += 1;
                    log.log(case_base + off + j as u64, json!({"classes": Vec::<&str>::new(), "db": which, "index": idx_sql, "member": label, "sql": text, "tables": dbdef.tables.iter().map(|t| format!("{:?}", t.rows)).collect::<Vec<_>>(), "observed": obs_text(oo)}));
                    if args.only.is_some() {
                        let t = format!("{}Definition d : db := {}.\nEval vm_compute in (sem_expected d {}).\n", SHARD_HEADER, coq_db(&dbdef), coq_query(q));
                        std::fs::write(args.out.join(format!("only_{}.v", case_base + off + j as u64)), t).unwrap();
                        println!("case {} [{} / {}]: {}\n  observed: {}", case_base + off + j as u64, label, which, text, obs_text(oo));
                    }
                }
                obs_plain.push(o);
                obs_idx.push(oi);
            }
            let case = json!({"index": idx_sql, "sql": queries.iter().map(|q| q.2.clone()).collect::<Vec<_>>(), "create": create_sql(&dbdef), "tables": dbdef.tables.iter().map(|t| format!("{:?}", t.rows)).collect::<Vec<_>>(),
                "observed_plain": obs_plain.iter().map(obs_text).collect::<Vec<_>>(), "observed_indexed": obs_idx.iter().map(obs_text).collect::<Vec<_>>()});
            // ---- the property on the implementation's answers ----
            for (which, obs) in [("plain", &obs_plain), ("indexed", &obs_idx)] {
                if which == "indexed" && !idx_ok {
                    continue;
                }
                for o in obs.iter() {
                    if let Obs::Panic(m) = o {
                        sum.finding("panic", case_base, format!("executor panicked ({} db): {}", which, m), case.clone());
                    }
                }
                let rows: Vec<Option<&Vec<Vec<Val>>>> = obs.iter().map(|o| if let Obs::Rows(r) = o { Some(r) } else { None }).collect();
                if rows.iter().any(|x| x.is_none()) {
                    if rows.iter().any(|x| x.is_some()) {
                        sum.finding("order-by-error", case_base, format!("({} db) the query works without ORDER BY/LIMIT/DISTINCT but fails with it (or vice versa)", which), case.clone());
                    }
                    continue;
                }
                let (un, fu, li, di) = (rows[0].unwrap(), rows[1].unwrap(), rows[2].unwrap(), rows[3].unwrap());
                // (a) sorted by the keys
                if fu.windows(2).any(|w| keys_cmp(&order, &w[0], &w[1]) == Ordering::Greater) {
                    sum.finding("not-sorted", case_base, format!("({} db) ORDER BY result is not sorted by its keys", which), case.clone());
                }
                // (b) a permutation of the unordered result
                if bag(fu) != bag(un) {
                    sum.finding("order-by-changes-bag", case_base, format!("({} db) ORDER BY result is not a permutation of the unordered result", which), case.clone());
                }
                // (c) LIMIT n OFFSET m is the slice [m, m+n) of the sorted sequence (ties aside)
                let m0 = lim.offset.unwrap_or(0).min(fu.len());
                let n0 = lim.limit.unwrap_or(usize::MAX).min(fu.len() - m0);
                let want_keys = keyseq(&order, &fu[m0..m0 + n0]);
                let sub_bag_ok = {
                    let fb = bag(fu);
                    bag(li).iter().all(|(k, c)| fb.get(k).map(|x| x >= c).unwrap_or(false))
                };
                if keyseq(&order, li) != want_keys || !sub_bag_ok {
                    sum.finding("limit-offset-not-slice", case_base, format!("({} db) LIMIT {:?} OFFSET {:?} is not the slice [m, m+n) of the ordered result ({} rows)", which, lim.limit, lim.offset, fu.len()), case.clone());
                }
                // (d) DISTINCT: each row once, same set, sorted
                let db_ = bag(di);
                if db_.values().any(|c| *c != 1) || db_.keys().collect::<Vec<_>>() != bag(un).keys().collect::<Vec<_>>() {
                    sum.finding("distinct-wrong", case_base, format!("({} db) DISTINCT does not return each distinct row exactly once", which), case.clone());
                }
                if di.windows(2).any(|w| keys_cmp(&order, &w[0], &w[1]) == Ordering::Greater) {
                    sum.finding("not-sorted", case_base, format!("({} db) DISTINCT ... ORDER BY result is not sorted", which), case.clone());
                }
            }
            // (e) index vs no index: same bag, same key sequence
            if idx_ok {
                for j in 0..4 {
                    if let (Obs::Rows(a), Obs::Rows(b)) = (&obs_plain[j], &obs_idx[j]) {
                        let keys_differ = j > 0 && keyseq(&order, a) != keyseq(&order, b);
                        // with LIMIT, rows tied on the keys may legitimately differ: only the key sequence is compared there
                        let bag_differs = j != 2 && bag(a) != bag(b);
                        if keys_differ || bag_differs {
                            sum.finding("index-changes-result", case_base + j as u64, format!("the {} query returns different rows / key order with the index", queries[j].0), case.clone());
                        }
                    } else if matches!(obs_plain[j], Obs::Rows(_)) != matches!(obs_idx[j], Obs::Rows(_)) {
                        sum.finding("index-changes-result", case_base + j as u64, format!("the {} query succeeds only with or only without the index", queries[j].0), case.clone());
                    }
                }
            }
            if let Obs::Rows(fu) = &obs_plain[1] {
                let ks = keyseq(&order, fu);
                let distinct_keys: std::collections::BTreeSet<String> = ks.iter().map(|k| format!("{:?}", k)).collect();
                if fu.len() >= 3 && distinct_keys.len() >= 2 {
                    sum.nontrivial(&format!("{}|{}|{}", coq_db(&dbdef), idx_sql, queries[2].2));
                }
                sum.count(&format!("rows:{}", match fu.len() { 0 => "0", 1..=2 => "1-2", 3..=9 => "3-9", _ => "10+" }));
                if sum.samples.len() < 4 && fu.len() >= 3 {
                    sum.sample(case.clone());
                }
            }
        }
        if !cases.is_empty() && args.only.is_none() {
            let s = k % nshards;
            shards[s].push_str(&format!("Definition db{} : db := {}.\nDefinition cs{} : list (Z * query * obs) := [\n{}].\n", k, coq_db(&dbdef), k, cases.join(";\n")));
            shard_lists[s].push(format!("(db{}, cs{})", k, k));
        }
    }
    if args.only.is_none() {
        for s in 0..nshards {
            if !shard_lists[s].is_empty() {
                shards[s].push_str(&format!("Eval vm_compute in (sem_mismatches [{}]).\n", shard_lists[s].join("; ")));
                write_shard(&args, s, &shards[s]);
            }
        }
    }
    sum.write(&args);
}
