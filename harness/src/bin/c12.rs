//! C12 -- referential integrity holds after every statement.
//!
//! Histories over parent / child / grandchild, self-referencing, cyclic, composite-key and
//! non-standard FOREIGN KEY schemas (all created through SQL text) are run through the real
//! executors; after EVERY statement
//!   * the result code, every table's rows in storage order and the number of catalogued foreign
//!     keys are written to the Coq shards and compared with `Store.Fk.step` inside Coq, together
//!     with the verdict of the harness's own RI checker (compared with `ri_b` of the model state);
//!   * the property's own oracles run on the implementation: RI of what SELECT * returns,
//!     "a rejected statement changes nothing", and the exact child delta of DELETE / key UPDATE
//!     against a declarative reference of the declared actions.
#[path = "../c12_core.rs"]
mod c12_core;
#[path = "../c12_gen.rs"]
mod c12_gen;
#[path = "../c12_ref.rs"]
mod c12_ref;

use c12_core::*;
use c12_gen::*;
use c12_ref::*;
use serde_json::json;
use std::io::{BufRead, Write};
use vh::out::*;
use vh::rng::Rng;
use vh::sql::*;
use vibesql_storage::Database;

fn crash_probe_child() -> ! {
    // child mode: run the SQL lines from stdin; a stack overflow aborts the process
    quiet_panics();
    let mut db = Database::new();
    for line in std::io::stdin().lock().lines() {
        let l = line.unwrap();
        if l.trim().is_empty() {
            continue;
        }
        let _ = exec(&mut db, &l);
    }
    println!("SURVIVED");
    std::process::exit(0);
}

/// true = the child process died (signal / abnormal exit) while replaying `sqls`
fn crashes_in_subprocess(sqls: &[String]) -> bool {
    let exe = std::env::current_exe().expect("current_exe");
    let mut ch = std::process::Command::new(exe)
        .arg("--crashprobe")
        .arg("1")
        .stdin(std::process::Stdio::piped())
        .stdout(std::process::Stdio::piped())
        .stderr(std::process::Stdio::null())
        .spawn()
        .expect("harness: spawn crash probe");
    {
        let mut si = ch.stdin.take().unwrap();
        for s in sqls {
            writeln!(si, "{}", s).unwrap();
        }
    }
    let out = ch.wait_with_output().expect("harness: wait crash probe");
    !(out.status.success() && String::from_utf8_lossy(&out.stdout).contains("SURVIVED"))
}

fn pk_duplicates(tabs: &[Tab], st: &State) -> bool {
    tabs.iter().filter(|t| !t.dropped).any(|t| {
        if let (Some(pk), Some(rows)) = (&t.pk, state_rows(st, t.id)) {
            let mut ks: Vec<Vec<V>> = rows.iter().map(|r| proj(pk, r)).collect();
            ks.sort();
            ks.windows(2).any(|w| w[0] == w[1])
        } else {
            false
        }
    })
}

/// identity of a dangling reference: (child table, foreign key, key value) -- not the whole row,
/// so that an unrelated rewrite of an already dangling row is not a new violation
fn orphan_key(tabs: &[Tab], o: &Orphan) -> String {
    format!("{}/{}/{:?}", o.child, o.fk_ix, proj(&tabs[o.child].fks[o.fk_ix].cols, &o.row))
}

fn main() {
    if std::env::args().any(|a| a == "--crashprobe") {
        crash_probe_child();
    }
    let args = parse_args();
    quiet_panics();
    let mut sum = Summary::default();
    sum.nontrivial_rule = "a case is one statement of a history with the engine's result and the full dumped state after it; non-trivial = the statement was accepted and changed some table, or was rejected / panicked / crashed (accepted no-op statements are not counted); distinct = distinct (schema, pre-state, statement) texts".into();
    let mut log = CaseLog::new(&args);
    let n_scripted = (0..).take_while(|k| scripted(*k).is_some()).count();
    let (n_random, len) = if args.thorough { (4000usize, 36usize) } else { (640usize, 22usize) };
    let per_shard = if args.thorough { 120 } else { 44 };
    let total = n_scripted + n_random;
    let only_h: Option<Vec<u64>> = args.only.as_ref().map(|ids| ids.iter().map(|i| i / 1000).collect());
    let header = "From Coq Require Import List ZArith Bool.\nImport ListNotations.\nFrom VibeSQL Require Import Store.Fk Run.C12Run.\nLocal Open Scope Z_scope.\n".to_string();
    let mut shard_text: Vec<String> = Vec::new();
    let mut shard_k = 0usize;
    let flush = |texts: &mut Vec<String>, k: &mut usize, args: &Args| {
        if texts.is_empty() {
            return;
        }
        let mut s = header.clone();
        let mut names = Vec::new();
        for (i, t) in texts.iter().enumerate() {
            s.push_str(&format!("Definition h{} : history := {}.\n", i, t));
            names.push(format!("h{}", i));
        }
        s.push_str(&format!("Eval vm_compute in (c12_mismatches [{}]).\n", names.join(";")));
        write_shard(args, *k, &s);
        *k += 1;
        texts.clear();
    };
    let trace: Option<usize> = std::env::var("C12_TRACE").ok().and_then(|x| x.parse().ok());
    let mut crash_budget = if args.thorough { 40 } else { 10 };

    for h in 0..total {
        if let Some(oh) = &only_h {
            if !oh.contains(&(h as u64)) {
                continue;
            }
        }
        let base = (h as u64) * 1000;
        let mut r = Rng::new(args.seed, &format!("c12/{}", h));
        let script = if h < n_scripted { scripted(h) } else { None };
        let profile = r.below(N_PROFILES);
        let (pname, mut tabs, script_stmts): (String, Vec<Tab>, Option<Vec<Stmt>>) = match script {
            Some((n, t, s)) => (format!("scripted:{}", n), t, Some(s)),
            None => (profile_name(profile).to_string(), gen_schema(&mut r, profile), None),
        };
        sum.count(&format!("history_{}", if script_stmts.is_some() { "scripted" } else { profile_name(profile) }));
        let mut db = Database::new();
        let mut setup_sql: Vec<String> = Vec::new();
        for t in &tabs {
            setup_sql.push(t.create_sql());
        }
        for t in &tabs {
            setup_sql.extend(t.alter_sqls());
        }
        // a schema the engine refuses (possible once a proposed repair landed: keys to non-primary-key
        // columns, column-order keys) is counted and skipped, not a harness failure
        let mut refused = false;
        for s in &setup_sql {
            if !exec(&mut db, s).is_ok() {
                refused = true;
                break;
            }
        }
        if refused {
            sum.count(&format!("history_setup_refused_{}", pname));
            continue;
        }
        let schema_coq: Vec<String> = tabs.iter().map(|t| table_coq(&db, t)).collect();
        let mut all_sql: Vec<String> = setup_sql.clone();
        let mut steps_coq: Vec<String> = Vec::new();
        let nst = script_stmts.as_ref().map(|s| s.len()).unwrap_or(len);
        let mut pre: State = dump(&db, &tabs);
        let mut pre_orphans: Vec<Orphan> = Vec::new();
        if trace == Some(h) {
            for s in &setup_sql {
                eprintln!("TRACE {}", s);
            }
        }
        let mut j = 0usize;
        while j < nst {
            let id = base + j as u64;
            if tabs.iter().all(|t| t.dropped) {
                break;
            }
            let ord = catalog_order(&db);
            // choose the statement; never run an unbounded cascade recursion in this process
            let mut stmt: Option<Stmt> = None;
            let mut crash = false;
            for _try in 0..8 {
                let cand = match &script_stmts {
                    Some(s) => s[j].clone(),
                    None => gen_stmt(&mut r, &tabs, &pre, j, nst),
                };
                if let Stmt::Delete { t, wh } = &cand {
                    if !tabs[*t].dropped {
                        let rows = state_rows(&pre, *t).cloned().unwrap_or_default();
                        let sel: Vec<usize> = rows.iter().enumerate().filter(|(_, x)| selects(wh, x)).map(|(i, _)| i).collect();
                        let fast = wh.is_none() && !tabs.iter().any(|c| !c.dropped && c.fks.iter().any(|f| f.parent == *t && f.how != How::ColumnLevel));
                        if !fast && cascade_cycle_reachable(&tabs, &pre, *t, &sel) {
                            if all_cascade(&tabs) && crash_budget > 0 {
                                crash_budget -= 1;
                                crash = true;
                                stmt = Some(cand);
                                break;
                            }
                            sum.count("skipped_delete_reaching_cascade_cycle");
                            if script_stmts.is_some() {
                                break;
                            }
                            continue;
                        }
                    }
                }
                stmt = Some(cand);
                break;
            }
            let stmt = match stmt {
                Some(s) => s,
                None => {
                    break;
                }
            };
            // what the query executor returns for the source of an INSERT..SELECT
            let stmt = match stmt {
                Stmt::InsertSelect { dst, src, simple, .. } => {
                    let sel = match exec(&mut db, &select_sql(src, simple)) {
                        Outcome::Rows(rs) => rs.iter().map(|x| x.iter().map(conv).collect()).collect(),
                        _ => vec![],
                    };
                    Stmt::InsertSelect { dst, src, simple, sel }
                }
                s => s,
            };
            let sql = stmt.sql();
            sum.count(&format!("stmt_{}", stmt.kind()));
            let keys_now: Vec<String> = tabs.iter().filter(|t| !t.dropped).flat_map(|t| t.fks.iter().map(move |f| format!("t{}: {}", t.id, f.clause()))).collect();
            let case = json!({"history": h, "profile": pname, "setup": setup_sql, "keys_now": keys_now, "statement_index": j, "sql": sql,
                              "pre_state": format!("{:?}", pre), "catalog_order": ord});
            if crash {
                // confirm in a child process: the whole history so far, then the statement
                let mut sqls = all_sql.clone();
                sqls.push(sql.clone());
                let died = crashes_in_subprocess(&sqls);
                sum.evaluations += 1;
                sum.count("result_crash_probe");
                if trace == Some(h) {
                    eprintln!("TRACE [{}] {} => child process died: {}", j, sql, died);
                }
                log.log(id, case.clone());
                if died {
                    sum.nontrivial(&format!("{:?}|{:?}|{}", schema_coq, pre, sql));
                    sum.finding("cascade-cycle-stack-overflow", id,
                        format!("`{}` never returns: check_no_child_references / cascade_delete recurse along a cycle of ON DELETE CASCADE references between rows until the stack overflows (process abort)", sql), case);
                    steps_coq.push(format!("HS {} ({}) (-3) [] true", zlist(&ord.iter().map(|x| *x as i64).collect::<Vec<_>>()), stmt.coq()));
                } else {
                    // the model says crash, the implementation survived: let Coq report it
                    steps_coq.push(format!("HS {} ({}) 0 [] true", zlist(&ord.iter().map(|x| *x as i64).collect::<Vec<_>>()), stmt.coq()));
                }
                sum.model_cases += 1;
                break;
            }
            let out = exec(&mut db, &sql);
            all_sql.push(sql.clone());
            sum.evaluations += 1;
            let code: i64 = match &out {
                Outcome::Count(n) => *n as i64,
                Outcome::Done | Outcome::Rows(_) => 0,
                Outcome::Err(..) => -1,
                Outcome::Panic(_) => -2,
            };
            sum.count(&format!("result_{}", match &out {
                Outcome::Err(c, _) => format!("err_{:?}", c),
                Outcome::Panic(_) => "panic".into(),
                _ => "ok".into(),
            }));
            // declared schema follows accepted DDL
            if out.is_ok() {
                match &stmt {
                    Stmt::Drop { t } => tabs[*t].dropped = true,
                    Stmt::AddFk { t, fk } => tabs[*t].fks.push(fk.clone()),
                    _ => {}
                }
            }
            let post: State = dump(&db, &tabs);
            // a refused ADD FOREIGN KEY must leave the catalog alone
            let mut lost_table = false;
            if let Stmt::AddFk { t, .. } = &stmt {
                if !out.is_ok() && !tabs[*t].dropped && !db.catalog.table_exists(&catname(*t)) {
                    lost_table = true;
                    sum.finding("add-fk-cycle-loses-table", id, format!("`{}` was rejected ({}) and afterwards table t{} is unknown to the catalog (INSERT/UPDATE/DELETE answer TableNotFound) while its rows are still in storage", sql, out.tag(), t), case.clone());
                }
            }
            // the property's own oracle on SELECT *
            let sel_rows: Vec<(usize, Vec<Row>)> = tabs.iter().filter(|t| !t.dropped).filter_map(|t| select_all(&mut db, t.id).map(|x| (t.id, x))).collect();
            let orphans = ri_check(&tabs, &|x| sel_rows.iter().find(|(i, _)| *i == x).map(|(_, rws)| rws.clone()));
            let pre_keys: Vec<String> = pre_orphans.iter().map(|o| orphan_key(&tabs, o)).collect();
            let fresh: Vec<Orphan> = orphans.iter().filter(|o| !pre_keys.contains(&orphan_key(&tabs, o))).cloned().collect();
            let changed = post != pre;
            if trace == Some(h) {
                eprintln!("TRACE [{}] ord={:?} {} => {}  post={:?} orphans={}", j, ord, sql, match &out { Outcome::Err(_, m) => format!("ERR {}", m), o => o.tag() }, post, orphans.len());
            }
            let is_err = !out.is_ok();
            let cx = Ctx { tabs: &tabs, pre: &pre, post: &post, stmt: &stmt, is_err, orphans: &fresh };
            let mut reported = false;
            if !fresh.is_empty() {
                let cls = classify_c12(&cx);
                let o = &fresh[0];
                sum.finding(cls, id, format!("after `{}` (result {}) row {:?} of t{} references t{} through FOREIGN KEY #{} but no such parent row exists ({} new orphan rows)", sql, out.tag(), o.row, o.child, tabs[o.child].fks[o.fk_ix].parent, o.fk_ix, fresh.len()), case.clone());
                reported = true;
            }
            if is_err && changed && !reported {
                let cls = match classify_c12(&cx) {
                    "ri-violated" => "rejected-statement-changed-state",
                    c => c,
                };
                sum.finding(cls, id, format!("`{}` was rejected ({}) but the database changed: {:?} -> {:?}", sql, out.tag(), pre, post), case.clone());
                reported = true;
            }
            // exact child delta against the declared actions
            if !reported && !matches!(out, Outcome::Panic(_)) {
                let expect = match &stmt {
                    Stmt::Delete { t, wh } if !tabs[*t].dropped => {
                        let rows = state_rows(&pre, *t).cloned().unwrap_or_default();
                        let sel: Vec<usize> = rows.iter().enumerate().filter(|(_, x)| selects(wh, x)).map(|(i, _)| i).collect();
                        Some(ref_delete(&tabs, &pre, *t, &sel))
                    }
                    Stmt::Update { t, asg, wh } if !tabs[*t].dropped => {
                        let rows = state_rows(&pre, *t).cloned().unwrap_or_default();
                        let mut ups = Vec::new();
                        let mut undecided = false;
                        for (i, x) in rows.iter().enumerate().filter(|(_, x)| selects(wh, x)) {
                            let mut nr = x.clone();
                            for (c, e) in asg {
                                nr[*c] = match e {
                                    Expr::Lit(v) => *v,
                                    Expr::Col(c2) => x[*c2],
                                    Expr::Add(c2, k) => match x[*c2] {
                                        Some(v) => match v.checked_add(*k) {
                                            Some(s) => Some(s),
                                            None => {
                                                undecided = true;
                                                None
                                            }
                                        },
                                        None => None,
                                    },
                                    Expr::Default => tabs[*t].cols[*c].default,
                                };
                            }
                            ups.push((i, nr));
                        }
                        if undecided { None } else { Some(ref_update(&tabs, &pre, *t, &ups)) }
                    }
                    _ => None,
                };
                match expect {
                    Some(RefOut::Reject) => {
                        sum.count("delta_oracle_reject");
                        if !is_err {
                            let cls = match classify_c12(&cx) {
                                "ri-violated" => "accepted-where-actions-demand-rejection",
                                c => c,
                            };
                            sum.finding(cls, id, format!("`{}` was accepted ({}) although the declared actions leave a dangling reference or a referencing row blocks it", sql, out.tag()), case.clone());
                        }
                    }
                    Some(RefOut::Accept(exp)) => {
                        sum.count("delta_oracle_accept");
                        if is_err {
                            sum.count("delta_oracle_accept_but_rejected");
                        } else if exp != post {
                            let cls = match classify_c12(&cx) {
                                "ri-violated" => "wrong-child-delta",
                                c => c,
                            };
                            sum.finding(cls, id, format!("`{}`: the declared actions specify {:?} but the database is {:?}", sql, exp, post), case.clone());
                        }
                    }
                    Some(RefOut::Ambiguous) => sum.count("delta_oracle_undecided"),
                    None => {}
                }
            }
            if changed || is_err {
                sum.nontrivial(&format!("{:?}|{:?}|{}", schema_coq, pre, sql));
            }
            if sum.samples.len() < 6 && changed && j > 3 {
                sum.sample(json!({"id": id, "sql": sql, "result": out.tag(), "pre": format!("{:?}", pre), "post": format!("{:?}", post)}));
            }
            log.log(id, case);
            // observation for the model
            if lost_table {
                // only the result code is comparable: the table is gone from the catalog
                steps_coq.push(format!("HSC {} ({}) {}", zlist(&ord.iter().map(|x| *x as i64).collect::<Vec<_>>()), stmt.coq(), zl(code)));
                sum.model_cases += 1;
                sum.count("history_cut_table_lost_from_catalog");
                break;
            }
            let tabs_obs: Vec<String> = post.iter().map(|(t, rows)| format!("TB {} {} {}", t, nfks(&db, *t), rowscoq(rows))).collect();
            steps_coq.push(format!("HS {} ({}) {} [{}] {}",
                zlist(&ord.iter().map(|x| *x as i64).collect::<Vec<_>>()), stmt.coq(), zl(code), tabs_obs.join(";"),
                // the model only knows the foreign keys the catalog holds (a column-level REFERENCES is not one of them)
                orphans.iter().all(|o| tabs[o.child].fks[o.fk_ix].how == How::ColumnLevel)));
            sum.model_cases += 1;
            pre = post;
            pre_orphans = orphans;
            j += 1;
            if pk_duplicates(&tabs, &pre) {
                // C10 territory (duplicate primary keys): the hash index and the rows disagree from here on
                sum.count("history_cut_duplicate_pk");
                break;
            }
        }
        shard_text.push(format!("HI {} [{}] [{}]", base, schema_coq.join(";\n  "), steps_coq.join(";\n  ")));
        if shard_text.len() >= per_shard {
            flush(&mut shard_text, &mut shard_k, &args);
        }
    }
    flush(&mut shard_text, &mut shard_k, &args);
    sum.notes.push("catalog order (HashMap iteration order of list_tables) is observed before every statement and handed to the model".into());
    sum.notes.push("DELETEs that reach a cycle of ON DELETE CASCADE references are executed in a child process only (stack overflow aborts the process); outside all-CASCADE schemas they are skipped".into());
    sum.write(&args);
}
