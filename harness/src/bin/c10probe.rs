//! Scratch (C10/C15): run SQL statements from stdin (one per line), print outcome + index dumps.
use std::io::BufRead;
use vh::sql::*;
use vibesql_storage::{Database, IndexData};

fn dump(db: &Database) {
    for tn in db.list_tables() {
        if let Some(t) = db.get_table(&tn) {
            println!("    table {} rows={:?}", tn, t.scan().iter().map(|r| canon_row(&r.values)).collect::<Vec<_>>());
            if let Some(pk) = t.primary_key_index() {
                let mut v: Vec<_> = pk.iter().map(|(k, i)| (canon_row(k), *i)).collect();
                v.sort();
                println!("      pk={:?}", v);
            }
            for (n, u) in t.unique_indexes().iter().enumerate() {
                let mut v: Vec<_> = u.iter().map(|(k, i)| (canon_row(k), *i)).collect();
                v.sort();
                println!("      uq{}={:?}", n, v);
            }
            println!("      append_mode={}", t.is_in_append_mode());
        }
    }
    let mut names = db.list_indexes();
    names.sort();
    for ix in names {
        let md = db.get_index(&ix).map(|m| format!("{}/{}/{:?}", m.table_name, m.unique, m.columns.iter().map(|c| c.column_name.clone()).collect::<Vec<_>>()));
        match db.get_index_data(&ix) {
            Some(IndexData::InMemory { data }) => {
                println!("    index {} {:?} = {:?}", ix, md, data.iter().map(|(k, v)| (canon_row(k), v.clone())).collect::<Vec<_>>());
            }
            Some(_) => println!("    index {} disk-backed", ix),
            None => println!("    index {} no data", ix),
        }
    }
}

fn main() {
    vh::out::quiet_panics();
    let mut db = Database::new();
    for line in std::io::stdin().lock().lines() {
        let l = line.unwrap();
        let l = l.trim();
        if l.is_empty() || l.starts_with('#') {
            continue;
        }
        if l == "dump" {
            dump(&db);
            continue;
        }
        let o = exec(&mut db, l);
        match &o {
            Outcome::Rows(r) => println!("{}\n  => {:?}", l, r.iter().map(|x| canon_row(x)).collect::<Vec<_>>()),
            _ => println!("{}\n  => {:?}", l, o),
        }
    }
}
