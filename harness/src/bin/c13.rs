//! C13 -- ROLLBACK restores exactly the state at BEGIN; COMMIT keeps the state after the last statement.
//!
//! History = committed prefix -> BEGIN -> DML / index DDL / savepoint statements -> ROLLBACK | COMMIT ->
//! epilogue.  The property's own oracle is evaluated on the engine: the observation (table bags,
//! catalog index listing, storage index listing, answers of a battery of point queries asked in the
//! two forms the executor treats differently) after ROLLBACK must equal the deep copy taken before
//! BEGIN, and the epilogue must behave on the rolled-back database exactly as on a `Database::clone()`
//! taken before BEGIN.  Every statement's result code and every checkpoint observation (with the raw
//! contents of the storage indexes) is also written to Coq shards, where the model of Store/Txn.v +
//! Store/Savepoint.v must predict all of them.
#[path = "../c13_txn.rs"]
mod txn;
use serde_json::json;
use txn::*;
use vh::out::*;
use vh::rng::Rng;

struct Plan {
    prefix: Vec<Op>,
    body: Vec<Op>,
    end: Op,
    epilogue: Vec<Op>,
}

fn gen_plan(seed: u64, id: u64) -> Plan {
    let mut r = Rng::new(seed, &format!("c13/{}", id));
    let mut g = 0i64;
    // a third of the histories never has a user index: there the property must hold outright
    let with_index = !r.chance(1, 3);
    let plain = r.chance(1, 2);
    let mut prefix = Vec::new();
    let np = r.range(1, 7);
    for _ in 0..np {
        prefix.push(match r.below(10) {
            0..=5 => gen_insert(&mut r, &mut g, plain),
            6 if with_index => gen_create_index(&mut r),
            7 if with_index => gen_create_index(&mut r),
            8 => gen_update(&mut r),
            9 => gen_delete(&mut r),
            _ => gen_insert(&mut r, &mut g, plain),
        });
    }
    if with_index {
        let at = r.below(prefix.len() as u64 + 1) as usize;
        let (t, c) = INDEXES[r.below(2) as usize * 2 % 3];
        let i = INDEXES.iter().position(|x| *x == (t, c)).unwrap() as i64;
        prefix.insert(at, Op::CreateIndex(i, t, c));
    }
    let mut body = Vec::new();
    let nb = r.range(0, 10);
    for _ in 0..nb {
        body.push(match r.below(100) {
            0..=37 => gen_insert(&mut r, &mut g, plain),
            38..=52 => gen_update(&mut r),
            53..=62 => gen_delete(&mut r),
            63..=69 if with_index => gen_create_index(&mut r),
            70..=75 if with_index => gen_drop_index(&mut r),
            76..=81 => Op::Savepoint(r.range(1, 3)),
            82..=85 => Op::Release(r.range(1, 3)),
            86..=91 => Op::RollbackTo(r.range(1, 3)),
            92..=94 => {
                let t = if r.chance(2, 3) { 0 } else { 1 };
                Op::ApiInsert(t, gen_api_row(&mut r, t, &mut g))
            }
            95..=96 => {
                let t = if r.chance(2, 3) { 0 } else { 1 };
                let n = r.range(2, 3);
                Op::ApiBatch(t, (0..n).map(|_| gen_api_row(&mut r, t, &mut g)).collect())
            }
            97 => Op::Begin,
            _ => gen_insert(&mut r, &mut g, plain),
        });
    }
    let end = if r.chance(7, 10) { Op::Rollback } else { Op::Commit };
    let mut epilogue = Vec::new();
    let ne = r.range(1, 3);
    for _ in 0..ne {
        epilogue.push(match r.below(10) {
            0..=5 => gen_insert(&mut r, &mut g, true),
            6 if with_index => gen_create_index(&mut r),
            7 if with_index => gen_drop_index(&mut r),
            8 => gen_update(&mut r),
            _ => gen_insert(&mut r, &mut g, true),
        });
    }
    Plan { prefix, body, end, epilogue }
}

/// tables whose row count changed under a statement that failed or panicked (a multi-row INSERT or
/// insert_rows_batch that got some rows in before a later row was rejected)
static PARTIAL: std::sync::Mutex<Vec<i64>> = std::sync::Mutex::new(Vec::new());

fn run_ops(db: &mut vibesql_storage::Database, ops: &[Op], items: &mut Vec<Item>) {
    for op in ops {
        let before: Vec<usize> = (0..2).map(|t| table_rows(db, t).len()).collect();
        let code = op.exec(db);
        if code < 0 {
            for t in 0..2 {
                if table_rows(db, t).len() != before[t as usize] {
                    PARTIAL.lock().unwrap().push(t);
                }
            }
        }
        items.push(Item { op: op.clone(), code, snap: None });
    }
}

fn data_op_table(op: &Op, code: i64) -> Option<i64> {
    // a statement that (possibly partially) changed rows of a table
    match op {
        Op::Insert(t, _) | Op::ApiInsert(t, _) if code > 0 => Some(*t),
        Op::ApiBatch(t, _) if code != 0 => Some(*t),
        Op::Update(t, ..) | Op::Delete(t, _) if code > 0 => Some(*t),
        _ => None,
    }
}

fn main() {
    let args = parse_args();
    quiet_panics();
    let mut sum = Summary::default();
    sum.nontrivial_rule = "a case is one history (committed prefix, BEGIN, body, ROLLBACK|COMMIT, epilogue) with every statement's result and four full observations; distinct = distinct statement text of the whole history; non-trivial = the body contains at least one statement that succeeded and changed rows, indexes or the savepoint stack".into();
    let mut log = CaseLog::new(&args);
    let n_hist: u64 = if args.thorough { 8000 } else { 480 };
    let nshards = std::cmp::max(16, (n_hist / 40) as usize);
    let mut shard_txt: Vec<Vec<String>> = vec![Vec::new(); nshards];
    for id in 0..n_hist {
        if let Some(only) = &args.only {
            if !only.contains(&id) {
                continue;
            }
        }
        let plan = gen_plan(args.seed, id);
        let mut db = setup();
        let mut items: Vec<Item> = Vec::new();
        run_ops(&mut db, &plan.prefix, &mut items);
        let snap_a = observe(&mut db);
        items.last_mut().unwrap().snap = Some(snap_a.clone());
        let clone_a = db.clone();
        run_ops(&mut db, &[Op::Begin], &mut items);
        let body_start = items.len();
        PARTIAL.lock().unwrap().clear();
        run_ops(&mut db, &plan.body, &mut items);
        let body_end = items.len();
        let partial_tables: Vec<i64> = PARTIAL.lock().unwrap().clone();
        let snap_b = observe(&mut db);
        items.last_mut().unwrap().snap = Some(snap_b.clone());
        let clone_b = db.clone();
        run_ops(&mut db, &[plan.end.clone()], &mut items);
        let snap_c = observe(&mut db);
        items.last_mut().unwrap().snap = Some(snap_c.clone());
        let epi_start = items.len();
        run_ops(&mut db, &plan.epilogue, &mut items);
        let snap_d = observe(&mut db);
        items.last_mut().unwrap().snap = Some(snap_d.clone());
        // probe: no transaction may be left open (SAVEPOINT must be refused)
        let open_after_end = db.in_transaction();
        run_ops(&mut db, &[Op::Savepoint(9)], &mut items);
        let probe_code = items.last().unwrap().code;
        sum.evaluations += 1;

        // ------------------------------------------------ the property's oracle, on the engine
        let rollback = matches!(plan.end, Op::Rollback);
        let (reference, mut ref_db) = if rollback { (&snap_a, clone_a) } else { (&snap_b, clone_b) };
        let mut ref_items = Vec::new();
        run_ops(&mut ref_db, &plan.epilogue, &mut ref_items);
        let ref_d = observe(&mut ref_db);
        let body_items = &items[body_start..body_end];
        let ddl_in_body = body_items.iter().any(|it| matches!(it.op, Op::CreateIndex(..) | Op::DropIndex(_)) && it.code >= 0);
        let mut dml_tables: Vec<i64> = body_items.iter().filter_map(|it| data_op_table(&it.op, it.code)).collect();
        dml_tables.extend(partial_tables.iter().copied());
        let indexed_during = |t: i64| snap_a.uix.iter().chain(snap_b.uix.iter()).any(|(_, tt, _, _)| *tt == t);
        let case = || {
            json!({"history": items.iter().map(|it| json!([it.op.text(), it.code])).collect::<Vec<_>>(),
                   "end": plan.end.text()})
        };
        let mut check = |what: &str, want: &Snapshot, got: &Snapshot, extra_codes: Option<(Vec<i64>, Vec<i64>)>| {
            let mut classes: Vec<(String, String)> = Vec::new();
            let generic = if rollback { "rollback-mismatch" } else { "commit-mismatch" };
            if want.listing != got.listing {
                classes.push((generic.into(), format!("{}: list_tables differs: want {:?} got {:?}", what, want.listing, got.listing)));
            }
            if want.table_bags() != got.table_bags() {
                classes.push((generic.into(), format!("{}: table contents differ: want {:?} got {:?}", what, want.table_bags(), got.table_bags())));
            }
            if want.cix != got.cix {
                // an epilogue CREATE/DROP INDEX that answers differently because the transaction's own
                // index DDL survived the ROLLBACK in the storage layer
                let cls = if rollback && ddl_in_body && extra_codes.as_ref().map(|(w, g)| w != g).unwrap_or(false) { "ddl-in-transaction-not-undone" } else { generic };
                classes.push((cls.into(), format!("{}: catalog index listing differs: want {:?} got {:?}", what, want.cix, got.cix)));
            }
            let listing_differs = want.storage_listing() != got.storage_listing();
            if listing_differs {
                let cls = if rollback && ddl_in_body { "ddl-in-transaction-not-undone" } else { generic };
                classes.push((cls.into(), format!("{}: storage index listing differs: want {:?} got {:?}", what, want.storage_listing(), got.storage_listing())));
            }
            if let Some((wc, gc)) = extra_codes {
                if wc != gc {
                    let cls = if rollback && ddl_in_body { "ddl-in-transaction-not-undone" } else { generic };
                    classes.push((cls.into(), format!("{}: epilogue statements answer differently: want {:?} got {:?}", what, wc, gc)));
                }
            }
            let (wa, ga) = (want.answers(), got.answers());
            for (qi, (t, c, k)) in battery().into_iter().enumerate() {
                for o in 0..2 {
                    let j = qi * 2 + o;
                    if wa[j] != ga[j] {
                        let t_listing = |s: &Snapshot| s.storage_listing().into_iter().filter(|x| x.1 == t).collect::<Vec<_>>();
                        let cls = if !rollback {
                            generic
                        } else if t_listing(want) != t_listing(got) && ddl_in_body {
                            "ddl-in-transaction-not-undone"
                        } else if indexed_during(t) && dml_tables.contains(&t) {
                            "rollback-user-index-not-restored"
                        } else {
                            generic
                        };
                        classes.push((cls.into(), format!(
                            "{}: SELECT * FROM {} WHERE {} = {}{} answers {:?}, before BEGIN it answered {:?}",
                            what, tname(t), cname(t, c), k, if o == 1 { " ORDER BY G" } else { "" }, ga[j], wa[j])));
                    }
                }
            }
            classes
        };
        let mut found = check(if rollback { "after ROLLBACK" } else { "after COMMIT" }, reference, &snap_c, None);
        let codes = |v: &[Item]| v.iter().map(|i| i.code).collect::<Vec<_>>();
        found.extend(check("after the epilogue", &ref_d, &snap_d, Some((codes(&ref_items), codes(&items[epi_start..items.len() - 1])))));
        if open_after_end || probe_code != -1 {
            found.push(("transaction-left-open".into(), format!(
                "after {} and the epilogue: in_transaction() = {}, SAVEPOINT S9 returned {}", plan.end.text(), open_after_end, probe_code)));
        }
        found.sort();
        found.dedup_by(|a, b| a.0 == b.0);
        for (cls, what) in found {
            sum.finding(&cls, id, what, case());
        }

        // ------------------------------------------------ bookkeeping
        let text: String = items.iter().map(|it| it.op.text()).collect::<Vec<_>>().join("; ");
        let nontrivial = body_items.iter().any(|it| {
            it.code >= 0 && (data_op_table(&it.op, it.code).is_some() || matches!(it.op, Op::CreateIndex(..) | Op::DropIndex(_) | Op::Savepoint(_) | Op::RollbackTo(_) | Op::Release(_)))
        });
        if nontrivial {
            sum.nontrivial(&text);
        }
        sum.count(if rollback { "end_rollback" } else { "end_commit" });
        sum.count(&format!("body_len_{:02}", plan.body.len()));
        if snap_a.uix.is_empty() && snap_b.uix.is_empty() {
            sum.count("no_user_index");
        }
        for it in &items {
            let kind = match &it.op {
                Op::Begin | Op::Commit | Op::Rollback => "txn_control",
                Op::Savepoint(_) | Op::Release(_) | Op::RollbackTo(_) => "savepoint_op",
                Op::Insert(..) => "insert",
                Op::ApiInsert(..) | Op::ApiBatch(..) | Op::ApiRecord(..) => "api_call",
                Op::Update(..) => "update",
                Op::Delete(..) => "delete",
                Op::CreateIndex(..) | Op::DropIndex(_) => "index_ddl",
            };
            sum.count(&format!("op_{}", kind));
            sum.count(match it.code {
                -2 => "result_panic",
                -1 => "result_err",
                _ => "result_ok",
            });
        }
        if id < 3 {
            sum.sample(json!({"id": id, "history": items.iter().map(|it| json!([it.op.text(), it.code])).collect::<Vec<_>>(),
                              "before_begin": snap_a.json(), "after_end": snap_c.json()}));
        }
        log.log(id, case());
        shard_txt[(id as usize) % nshards].push(coq_history(id, &items));
        sum.model_cases += items.len() as u64;
    }
    if args.only.is_none() {
        for (k, hs) in shard_txt.iter().enumerate() {
            let s = format!(
                "{} Run.C13Run.\nDefinition cases : list (Z * list item) := [\n{}].\nEval vm_compute in (c13_mismatches cases).\n",
                SHARD_HEADER,
                hs.join(";\n")
            );
            write_shard(&args, k, &s);
        }
    }
    sum.write(&args);
}
